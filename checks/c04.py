"""C04 - no input or configuration makes cog panic or hang.

spec:  Malformed.tla (the requirement: outcome in {files, error} within bounded time; sites and edits of a JSON document),
       MalformedMC.tla (TLC enumerates every (family, base document, site, mutation): JSON Schema / OpenAPI documents, CUE
       expressions x positions, pipeline / schema-transformation / builder-transformation YAML trees, hand-written types x
       positions of a type tree, empty spellings x JSON Schema drafts),
       MalformedTrace.tla (TLC re-judges every recorded real outcome).
real:  every case is the WHOLE real pipeline (codegen.PipelineFromFile + Run) in a worker subprocess under recover() and a
       20 s watchdog (worker `c04-run`), first without output languages (parsers, consolidation, common passes), then - when
       that stage returns - once per output language with every output kind and generation flag on (thorough: also under a
       second, seeded member of the flag lattice). A recovered panic, a dead worker (stack overflow, fatal error) or a
       timeout that repeats is a violation with signature C04/<top cog frame>/<panic class>.
       On top: a seeded byte-level mutation sample of the well-formed renderings (truncation, bit flips, splices), labelled
       as sampling.
level: exploration.
"""
import collections
import json
import os
import random
import re
import subprocess
import time

from checks import gencode_common as g
from checks import semantics_common as sc
from vlib import core

FAMILIES = ("jsonschema", "openapi", "cue", "pipeline", "passes", "veneers", "sequences", "parameters", "cycles", "cyclepasses", "cycleveneers",
            "veneerpaths", "ifexpr", "discriminators", "handtypes", "handtypeveneers", "drafts")
# small families whose cases are cheap: run completely in every tier
DENSE = ("sequences", "parameters", "cycles", "cyclepasses", "cycleveneers", "veneerpaths", "ifexpr", "discriminators", "handtypes", "handtypeveneers", "drafts")
VALID_INPUT_FAMILIES = ("discriminators",)
# how a family's document enters the pipeline
KIND = {"jsonschema": "jsonschema", "openapi": "openapi", "cue": "cue", "pipeline": "whole", "parameters": "whole", "passes": "passes",
        "cyclepasses": "passes", "veneers": "veneers", "sequences": "veneers", "cycleveneers": "veneers", "veneerpaths": "veneers",
        "ifexpr": "whole", "handtypes": "passes", "handtypeveneers": "veneers", "drafts": "jsonschema"}
TIMEOUT_MS = 20000             # CPU time of the worker process per run (wall time only bounds a blocked run: 15 x)
CONFIRM_TIMEOUT_MS = 120000    # budget of the confirmation run of a timeout (alone, small stack cap)
NPROC = 12
BUILDER_LANGS = ("go", "python", "java", "typescript", "php")
ALL_ON = {
    "go": ("generate_json_marshaller", "generate_strict_unmarshaller", "generate_equal", "generate_validate"),
    "python": ("generate_json_marshaller",), "java": ("generate_json_marshaller",), "typescript": ("enums_as_union_types",),
    "php": ("generate_json_marshaller",), "jsonschema": (), "openapi": (),
}
ALT_ON = {      # the second configuration of the thorough tier: the other half of every flag
    "go": ("any_as_interface", "skip_runtime"), "python": ("skip_runtime",), "java": ("skip_runtime",), "typescript": ("skip_runtime",),
    "php": (), "jsonschema": (), "openapi": (),
}


# ----------------------------------------------------------------------------------------------
# documents
# ----------------------------------------------------------------------------------------------
def jv(v):
    return sc.jv_to_py(v)


CUE_PRELUDE = {
    "#Child": "#Child: {cid: int}", "#Other": "#Other: {o: string}", "#Self": "#Self: #Self",
    "#LoopA": "#LoopA: #LoopB\n#LoopB: #LoopA", "#KindA": "#KindA: {kind: \"a\", x: int}", "#KindB": "#KindB: {kind: \"b\", y: string}",
    "#Color": "#Color: \"red\" | \"green\" @cog(kind=\"enum\",memberNames=\"red|green\")",
}


def cue_text(expr, pos, package):
    defs = [text for name, text in CUE_PRELUDE.items() if name in expr]
    imports = [i for i in ("time", "strings") if (i + ".") in expr]
    head = "package %s\n\n" % package
    if imports:
        head += "import (\n%s)\n\n" % "".join('\t"%s"\n' % i for i in imports)
    body = {
        "definition": "#Subject: %s\n#Root: {w: string, v: #Subject}" % expr,
        "field": "#Root: {\n\tw: string\n\tv: %s\n}" % expr,
        "optional-field": "#Root: {\n\tw: string\n\tv?: %s\n}" % expr,
        "list-element": "#Root: {\n\tw: string\n\tv: [...%s]\n}" % expr,
        "map-value": "#Root: {\n\tw: string\n\tv: {[string]: %s}\n}" % expr,
        "disjunction-branch": "#Root: {\n\tw: string\n\tv: %s | bool\n}" % expr,
        "default-value": "#Root: {\n\tw: string\n\tv: string | *%s\n}" % expr,
        "nested-field": "#Root: {\n\tw: string\n\tv: {inner: {deep?: %s}}\n}" % expr,
        "embedded": "#Root: {\n\t%s\n\tw: string\n}" % expr,
        "top-level-field": "#Root: {w: string}\nv: %s" % expr,
    }[pos]
    return head + "\n".join(defs) + ("\n" if defs else "") + body + "\n"


WELLFORMED_CUE = ("package cfgc\n\n#Child: {cid: int}\n#Root: {\n\tname: string\n\ton?: bool\n\tkids: [...#Child]\n\tlabels: {[string]: string}\n"
                  "\tu: string | int\n}\n")


# ---------------------------------------------------------------------------------------------- reference cycles
def cycle_schema(n, link, entry):
    """abstract cycle -> {name: abstract type}; types: ("ref", T) ("struct", [(name, type, required)]) ("array", t) ("map", t)
    ("allOf", [t...]) ("oneOf", [t...]) ("nullable", t) ("default", t) ("string",) ("int",)"""
    names = ["N%d" % (i + 1) for i in range(n)]
    objs = {}
    for i, name in enumerate(names):
        nxt = ("ref", names[(i + 1) % n])
        k = link
        if link == "alias-then-field":
            k = "alias" if (i == 0 and n > 1) else "field"
        objs[name] = {
            "alias": nxt,
            "field": ("struct", [("next", nxt, True), ("v", ("string",), True)]),
            "optional-field": ("struct", [("next", nxt, False), ("v", ("string",), True)]),
            "items": ("array", nxt),
            "map-values": ("map", nxt),
            "allOf": ("allOf", [nxt, ("struct", [("x", ("int",), False)])]),
            "oneOf-branch": ("oneOf", [nxt, ("string",)]),
            "nullable": ("nullable", nxt),
            "default": ("default", nxt),
        }[k]
    first = ("ref", names[0])
    root = {
        "root-field": ("struct", [("w", ("string",), True), ("v", first, True)]),
        "root-optional-field": ("struct", [("w", ("string",), True), ("v", first, False)]),
        "root-array": ("struct", [("w", ("string",), True), ("v", ("array", first), True)]),
        "root-alias": first,
        "unreferenced": ("struct", [("w", ("string",), True)]),
    }[entry]
    out = {"Root": root}
    out.update(objs)
    return out


def _cycle_js(t, prefix):
    k = t[0]
    if k == "ref":
        return {"$ref": prefix + t[1]}
    if k == "string":
        return {"type": "string"}
    if k == "int":
        return {"type": "integer"}
    if k == "struct":
        out = {"type": "object", "properties": {n: _cycle_js(ft, prefix) for n, ft, _ in t[1]}}
        req = [n for n, _, r in t[1] if r]
        if req:
            out["required"] = req
        return out
    if k == "array":
        return {"type": "array", "items": _cycle_js(t[1], prefix)}
    if k == "map":
        return {"type": "object", "additionalProperties": _cycle_js(t[1], prefix)}
    if k == "allOf":
        return {"allOf": [_cycle_js(x, prefix) for x in t[1]]}
    if k == "oneOf":
        return {"oneOf": [_cycle_js(x, prefix) for x in t[1]]}
    if k == "nullable":
        return {"anyOf": [_cycle_js(t[1], prefix), {"type": "null"}]} if "definitions" in prefix else {"allOf": [_cycle_js(t[1], prefix)], "nullable": True}
    if k == "default":
        d = _cycle_js(t[1], prefix)
        return {"allOf": [d], "default": {}}
    raise ValueError(k)


def _cycle_cue(t, defs):
    k = t[0]
    nm = (lambda x: "#" + x) if defs else (lambda x: x)
    if k == "ref":
        return nm(t[1])
    if k == "string":
        return "string"
    if k == "int":
        return "int"
    if k == "struct":
        return "{" + ", ".join("%s%s: %s" % (n, "" if r else "?", _cycle_cue(ft, defs)) for n, ft, r in t[1]) + "}"
    if k == "array":
        return "[...%s]" % _cycle_cue(t[1], defs)
    if k == "map":
        return "{[string]: %s}" % _cycle_cue(t[1], defs)
    if k == "allOf":       # embedding
        inner = [_cycle_cue(x, defs) for x in t[1]]
        return "{\n\t" + "\n\t".join(x[1:-1] if x.startswith("{") else x for x in inner) + "\n}"
    if k == "oneOf":
        return " | ".join(_cycle_cue(x, defs) for x in t[1])
    if k == "nullable":
        return "%s | null" % _cycle_cue(t[1], defs)
    if k == "default":
        return "*%s | string" % _cycle_cue(t[1], defs)
    raise ValueError(k)


def cycle_text(case):
    objs = cycle_schema(case["n"], case["link"], case["entry"])
    lang = case["lang"]
    if lang == "jsonschema":
        pre = "#/definitions/"
        return json.dumps({"$schema": "http://json-schema.org/draft-07/schema#", "$ref": pre + "Root",
                           "definitions": {k: _cycle_js(v, pre) for k, v in objs.items()}}, indent=1)
    if lang == "openapi":
        pre = "#/components/schemas/"
        return json.dumps({"openapi": "3.0.0", "info": {"title": "t", "version": "0.0"}, "paths": {},
                           "components": {"schemas": {k: _cycle_js(v, pre) for k, v in objs.items()}}}, indent=1)
    defs = lang == "cue-definitions"
    return "package cfgt\n\n" + "\n".join("%s%s: %s" % ("#" if defs else "", k, _cycle_cue(v, defs)) for k, v in objs.items()) + "\n"


# ---------------------------------------------------------------------------------------------- discriminators
_DISC_VALUES = {"string": ("a", "b"), "int": (1, 2), "float": (1.5, 2.5), "bool": (True, False), "mixed": ("a", 1)}


def disc_schema(kind, sharing):
    """-> {"A": [(field, ("const", v) | type)], "B": [...]} for the two branches of the union"""
    c1, c2 = _DISC_VALUES[kind]
    a = [("x", ("int",))]
    b = [("y", ("string",))]
    if sharing == "all-distinct":
        a.insert(0, ("kind", ("const", c1))); b.insert(0, ("kind", ("const", c2)))
    elif sharing == "all-same-value":
        a.insert(0, ("kind", ("const", c1))); b.insert(0, ("kind", ("const", c1)))
    elif sharing == "first-only":
        a.insert(0, ("kind", ("const", c1)))
    elif sharing == "different-names":
        a.insert(0, ("kind", ("const", c1))); b.insert(0, ("type", ("const", c2)))
    elif sharing == "two-candidates":
        a[0:0] = [("akind", ("const", c1)), ("zkind", ("const", "a"))]
        b[0:0] = [("akind", ("const", c2)), ("zkind", ("const", "b"))]
    return {"A": a, "B": b}


def _disc_js_type(t, openapi):
    if t[0] == "int":
        return {"type": "integer"}
    if t[0] == "string":
        return {"type": "string"}
    v = t[1]
    ty = "boolean" if isinstance(v, bool) else "integer" if isinstance(v, int) else "number" if isinstance(v, float) else "string"
    return {"type": ty, "enum": [v]} if openapi else {"type": ty, "const": v}


def disc_text(case):
    branches = disc_schema(case["kind"], case["sharing"])
    lang, place = case["lang"], case["place"]
    if lang == "cue":
        def lit(t):
            return {"int": "int", "string": "string"}.get(t[0]) or json.dumps(t[1])
        lines = ["package cfgt", ""]
        for name, fs in branches.items():
            lines.append("#%s: {%s}" % (name, ", ".join("%s: %s" % (n, lit(t)) for n, t in fs)))
        u = "#A | #B"
        ref = u
        if place == "definition":
            lines.append("#U: " + u)
            ref = "#U"
        v = {"field": "v: %s" % ref, "optional-field": "v?: %s" % ref, "array": "v: [...%s]" % ref, "map": "v: {[string]: %s}" % ref,
             "definition": "v: %s" % ref}[place]
        lines.append("#Root: {w: string, %s}" % v)
        return "\n".join(lines) + "\n"
    openapi = lang == "openapi"
    pre = "#/components/schemas/" if openapi else "#/definitions/"
    defs = {}
    for name, fs in branches.items():
        defs[name] = {"type": "object", "required": [n for n, _ in fs], "properties": {n: _disc_js_type(t, openapi) for n, t in fs}}
    u = {"oneOf": [{"$ref": pre + "A"}, {"$ref": pre + "B"}]}
    ref = u
    if place == "definition":
        defs["U"] = u
        ref = {"$ref": pre + "U"}
    vt = {"field": ref, "optional-field": ref, "array": {"type": "array", "items": ref}, "map": {"type": "object", "additionalProperties": ref},
          "definition": ref}[place]
    defs["Root"] = {"type": "object", "required": ["w"] + ([] if place == "optional-field" else ["v"]),
                    "properties": {"w": {"type": "string"}, "v": vt}}
    if openapi:
        return json.dumps({"openapi": "3.0.0", "info": {"title": "t", "version": "0.0"}, "paths": {}, "components": {"schemas": defs}}, indent=1)
    return json.dumps({"$schema": "http://json-schema.org/draft-07/schema#", "$ref": pre + "Root", "definitions": defs}, indent=1)


def lang_yaml(lang, alt=False):
    on = set(ALT_ON[lang] if alt else ALL_ON[lang])
    return g.language_yaml(lang, on, "out/" + lang)


def out_yaml(lang, alt=False):
    """output section for one language (None = no output language): every output kind on; the alternative
    configuration switches the runtime off and therefore builders/converters too (the lattice's exclusion)."""
    if lang is None:
        return "output:\n  directory: 'out'\n  types: true\n  builders: true\n  converters: true\n  api_reference: true\n  languages: []\n"
    b = "false" if alt and "skip_runtime" in ALT_ON[lang] else "true"
    y = "output:\n  directory: 'out/%%l'\n  types: true\n  builders: %s\n  converters: %s\n  api_reference: true\n  languages:\n" % (b, b)
    return y + lang_yaml(lang, alt)


class Universe:
    """Materialises TLC's cases as files and pipeline YAMLs below one scratch directory."""

    def __init__(self, ctx):
        self.ctx = ctx
        self.dir = ctx.sub("cases")
        self.fixed = os.path.join(self.dir, "_fixed")
        os.makedirs(self.fixed)
        self.n = 0
        self.base_docs = {}

    def write_fixed(self, bases):
        """well-formed companions: the base documents of every family (placeholders of the pipeline family)"""
        f = self.fixed
        open(os.path.join(f, "base.json"), "w").write(json.dumps(jv(bases["jsonschema"]), indent=1))
        open(os.path.join(f, "base.openapi.json"), "w").write(json.dumps(jv(bases["openapi"]), indent=1))
        os.makedirs(os.path.join(f, "cfgc"))
        open(os.path.join(f, "cfgc", "cfgc.cue"), "w").write(WELLFORMED_CUE)
        open(os.path.join(f, "passes.yaml"), "w").write("passes:\n  - entrypoint_identification: {}\n")
        os.makedirs(os.path.join(f, "veneers"))
        open(os.path.join(f, "veneers", "v.yaml"), "w").write("language: all\npackage: cfgt\nbuilders: []\noptions: []\n")
        self.subst = {"@JS@": os.path.join(f, "base.json"), "@OA@": os.path.join(f, "base.openapi.json"), "@CUE@": os.path.join(f, "cfgc"),
                      "@PASSES@": os.path.join(f, "passes.yaml"), "@VENEERS@": os.path.join(f, "veneers")}

    def fill(self, x):
        if isinstance(x, str):
            return self.subst.get(x, x)
        if isinstance(x, list):
            return [self.fill(v) for v in x]
        if isinstance(x, dict):
            return {k: self.fill(v) for k, v in x.items()}
        return x

    def materialise(self, case):
        """-> dict(inputs_yaml | config path, extra) describing how the pipeline YAML of this case is built."""
        self.n += 1
        d = os.path.join(self.dir, "c%06d" % self.n)
        os.makedirs(d)
        fam = KIND.get(case["fam"])
        case["dir"] = d
        if case["fam"] in ("cycles", "discriminators"):
            fam = "cue" if case["lang"].startswith("cue") else case["lang"]
            case["bytes"] = (cycle_text(case) if case["fam"] == "cycles" else disc_text(case)).encode()
        case["route"] = fam
        if fam in ("jsonschema", "openapi"):
            p = os.path.join(d, "doc.json")
            text = case.get("bytes")
            if text is None:
                text = json.dumps(jv(case["doc"]), indent=1).encode()
            open(p, "wb").write(text)
            case["input"] = g.input_yaml(fam, p, "cfgt") if fam == "jsonschema" else \
                "  - openapi:\n      path: '%s'\n      package: cfgt\n      no_validate: %s\n" % (p, "true" if case.get("no_validate") else "false")
        elif fam == "cue":
            cd = os.path.join(d, "cfgt")
            os.makedirs(cd)
            text = case.get("bytes")
            if text is None:
                text = cue_text(case["expr"], case["pos"], "cfgt").encode()
            open(os.path.join(cd, "cfgt.cue"), "wb").write(text)
            case["input"] = g.input_yaml("cue", cd, "cfgt")
        elif fam == "passes":
            p = os.path.join(d, "passes.yaml")
            open(p, "wb").write(case.get("bytes") or json.dumps(jv(case["doc"]), indent=1).encode())
            case["input"] = g.input_yaml("jsonschema", self.subst["@JS@"], "cfgt")
            case["transforms"] = "transformations:\n  schemas: ['%s']\n" % p
        elif fam == "veneers":
            vd = os.path.join(d, "veneers")
            os.makedirs(vd)
            open(os.path.join(vd, "v.yaml"), "wb").write(case.get("bytes") or json.dumps(jv(case["doc"]), indent=1).encode())
            case["input"] = g.input_yaml("jsonschema", self.subst["@JS@"], "cfgt")
            case["transforms"] = "transformations:\n  builders: ['%s']\n" % vd
        elif fam == "whole":
            p = os.path.join(d, "pipeline.yaml")
            open(p, "wb").write(case.get("bytes") or json.dumps(self.fill(jv(case["doc"])), indent=1).encode())
            case["yaml"] = p
        return case

    def yaml_for(self, case, lang, alt=False):
        if case["route"] == "whole":
            return case["yaml"]
        p = os.path.join(case["dir"], "run-%s%s.yaml" % (lang or "none", "-alt" if alt else ""))
        if not os.path.exists(p):
            open(p, "w").write("debug: false\ninputs:\n" + case["input"] + case.get("transforms", "") + out_yaml(lang, alt))
        return p


# ----------------------------------------------------------------------------------------------
# runner: sharded worker subprocesses, restart after a death, second run for timeouts
# ----------------------------------------------------------------------------------------------
def _run_shard(ctx, jobs, cwd, timeout_ms, maxstack=16):
    """Runs jobs in order in worker subprocesses; a process death or timeout exit is attributed to the job that had
    begun, the remaining jobs continue in a fresh process. -> {id: record}"""
    res = {}
    todo = list(jobs)
    t_shard = time.time()
    while todo:
        inp = "".join(json.dumps({"id": j["id"], "yaml": j["yaml"], "timeout_ms": timeout_ms}) + "\n" for j in todo)
        p = subprocess.Popen([ctx.worker, "c04-run", "-maxstack", str(maxstack)], stdin=subprocess.PIPE, stdout=subprocess.PIPE, stderr=subprocess.PIPE,
                             env=ctx.goenv(), cwd=cwd)
        try:
            out, err = p.communicate(inp.encode(), timeout=min(1000000, len(todo) * (15 * timeout_ms / 1000.0 + 5) + 60))
        except subprocess.TimeoutExpired:
            p.kill()
            out, err = p.communicate()
        begun = None
        for line in out.decode(errors="replace").splitlines():
            try:
                r = json.loads(line)
            except ValueError:
                continue            # cog printing to stdout is not our business
            if "begin" in r:
                begun = r["begin"]
            elif "id" in r and "outcome" in r:
                res[r["id"]] = r
                if begun == r["id"]:
                    begun = None
        done = set(res)
        if begun is not None and begun not in done:
            # the worker died while running `begun`
            res[begun] = {"id": begun, "outcome": "crash", "exit": p.returncode, "stderr": _head_tail(err.decode(errors="replace")), "ms": 0}
            done.add(begun)
        elif p.returncode not in (0, 3):
            core.log(err.decode(errors="replace")[-2000:])
            raise core.Inconclusive("c04-run exited with %s without a job in flight" % p.returncode)
        rest = [j for j in todo if j["id"] not in done]
        if len(rest) == len(todo):
            raise core.Inconclusive("c04-run made no progress")
        todo = rest
    if os.environ.get("VERIF_C04_TIMING"):
        core.log("shard: %d jobs %.1fs, %d crashes, %d timeouts" % (len(jobs), time.time() - t_shard,
                 sum(1 for r in res.values() if r["outcome"] == "crash"), sum(1 for r in res.values() if r["outcome"] == "timeout")))
    return res


def _head_tail(s, n=60000):
    return s if len(s) <= 2 * n else s[:n] + "\n...\n" + s[-n:]


def run_jobs(ctx, jobs, cwd, nproc=NPROC, timeout_ms=TIMEOUT_MS):
    import concurrent.futures
    shards = [jobs[i::nproc] for i in range(nproc)]
    res = {}
    with concurrent.futures.ThreadPoolExecutor(max_workers=nproc) as ex:
        for r in ex.map(lambda sh: _run_shard(ctx, sh, cwd, timeout_ms) if sh else {}, shards):
            res.update(r)
    # "only reported after the same input timed out twice": run timeouts a second time, alone
    # A systematic hang would otherwise cost 20 s per affected input, twice: at most two inputs per signature are run the
    # second time; the others are recorded as `timeout-once` (neither a regular outcome nor a violation).
    # Stack overflows are first observed under a 16 MB stack cap (runaway recursion dies in a fraction of a second); per
    # signature two of them are confirmed under the 64 MB cap, and a signature nothing confirms is re-run completely.
    deep = collections.defaultdict(list)
    for j in jobs:
        r = res[j["id"]]
        if r["outcome"] == "crash" and crash_info(r.get("stderr", ""))[0] == "stack-overflow":
            deep[signature(r)[0]].append(j)
    hung = collections.defaultdict(list)
    for j in jobs:
        if res[j["id"]]["outcome"] == "timeout":
            hung[signature(res[j["id"]])[0]].append(j)
    # Overflow confirmations run side by side (each alone in its own worker process): two inputs per signature.
    todo = [("deep", sig, j) for sig, js in sorted(deep.items()) for j in js[:2]]

    def confirm(item):
        kind, sig, j = item
        return item, _run_shard(ctx, [j], cwd, timeout_ms, maxstack=64)[j["id"]]
    confirmed = collections.Counter()
    with concurrent.futures.ThreadPoolExecutor(max_workers=max(1, min(nproc, len(todo) or 1))) as ex:
        for (kind, sig, j), r2 in ex.map(confirm, todo):
            if r2["outcome"] == "crash" and crash_info(r2.get("stderr", ""))[0] == "stack-overflow":
                confirmed[sig] += 1
                r2["confirmed"] = True
            else:
                r2["first_run_differed"] = res[j["id"]]["outcome"]
            res[j["id"]] = r2
    # A run that used up its CPU budget is run again ALONE (nothing else of this check is running any more), with a six times larger
    # budget and the small stack cap: what that run ends in is the verdict - an unbounded recursion overflows the stack (the same
    # signature as when it overflowed within the first budget), a slow but finite run returns, and only a run that is still going
    # is a `timeout`. Budgets are CPU time of the worker process, so none of this depends on the load of the machine.
    for sig, js in sorted(hung.items()):
        for j in js[:1]:
            # the long budget is only spent where the sampled stack shows a recursing cog function (it may still end in the
            # overflow); a run that loops without recursion gets the same budget a second time ("timed out twice")
            rec_ = has_recursion(res[j["id"]].get("stack") or [])
            r2 = _run_shard(ctx, [j], cwd, CONFIRM_TIMEOUT_MS if rec_ else timeout_ms, maxstack=16)[j["id"]]
            if r2["outcome"] == "timeout":
                confirmed[sig] += 1
                r2["confirmed"] = True
            else:
                r2["first_run_differed"] = "timeout"
            res[j["id"]] = r2
    # a signature nothing confirmed: its remaining inputs are run again too (rare); confirmed hangs: the other inputs of the
    # signature are recorded as `timeout-once` (neither a regular outcome nor a violation), overflows stay as observed
    for sig, js in list(deep.items()) + list(hung.items()):
        for j in (js[1:] if sig in hung else js[2:]):
            if confirmed[sig] == 0:
                big = res[j["id"]]["outcome"] == "timeout"
                res[j["id"]] = _run_shard(ctx, [j], cwd, CONFIRM_TIMEOUT_MS if big else timeout_ms, maxstack=16 if big else 64)[j["id"]]
            elif res[j["id"]]["outcome"] == "timeout":
                res[j["id"]]["outcome"] = "timeout-once"
    return res


# ----------------------------------------------------------------------------------------------
# signatures
# ----------------------------------------------------------------------------------------------
_COG = re.compile(r"github\.com/grafana/cog/internal/((?:[\w\-]+/)*)([\w\-]+)\.(.+)$")


def cog_frame(frames, _nested=False):
    """top-most frame inside github.com/grafana/cog (not the verification facade): pkg.Function.
    Receivers, generic instantiations and closure suffixes are dropped; for closures that the compiler inlined into
    their callers (a.B.C.func1) the innermost named function is kept."""
    for f in frames:
        if "github.com/grafana/cog/verifapi" in f:
            continue
        m = _COG.match(f.strip())
        if not m:
            continue
        fn = re.sub(r"\[[^\]]*\]", "", m.group(3))           # generic instantiation
        fn = re.sub(r"\(\*?[\w]+\)\.", "", fn)              # pointer / value receiver in parentheses
        parts = [x for x in fn.split(".") if x and not re.fullmatch(r"func\d+|\d+|gowrap\d+", x)]
        if not parts:
            continue
        name = "%s.%s" % (m.group(2), parts[-1])
        if re.fullmatch(r"ast\.As[A-Z]\w*", name) and not _nested:
            # the accessors of ast.Type dereference the member that `Kind` promises: the defect is in the caller that
            # did not check the kind (or let an ill-formed type through), so the caller is part of the site
            rest = frames[frames.index(f) + 1:] if f in frames else []
            caller = cog_frame([x for x in rest if not re.search(r"/ast\.(?:Type\.)?As[A-Z]\w*$", x.strip())], _nested=True)
            return "%s<-%s" % (name, caller)
        return name
    return "outside-cog"


def recursing_frame(frames):
    """stack overflow / hang: the leaf that happened to be running is arbitrary; name the cog function that occupies
    most of the top of the stack (the recursion), ties broken by first occurrence"""
    names = [cog_frame([f], _nested=True) for f in frames[:40]]
    names = [n for n in names if n != "outside-cog"]
    if not names:
        return cog_frame(frames)        # the recursion is inside a library: name the cog function that called into it
    cnt = collections.Counter(names)
    best = max(cnt.values())
    return next(n for n in names if cnt[n] == best)


def hang_frame(frames):
    """timeout: a cog function that recurses (>= 3 occurrences among the captured frames) names the site; otherwise the leaf
    that happened to run when the watchdog fired is arbitrary (often a template helper), and the OUTERMOST cog function below
    the pipeline driver (the jenny / pass / rule that was entered and never left) is named"""
    names = [cog_frame([f], _nested=True) for f in frames]
    cog = [n for n in names if n != "outside-cog"]
    if not cog:
        return "outside-cog"
    cnt = collections.Counter(cog)
    best = max(cnt.values())
    if best >= 3:
        return next(n for n in cog if cnt[n] == best)
    inner = [n for n in cog if n.split(".")[0] not in ("codegen", "common", "main")]
    return inner[-1] if inner else cog[0]


def has_recursion(frames):
    names = [cog_frame([f], _nested=True) for f in frames]
    cnt = collections.Counter(n for n in names if n != "outside-cog")
    return bool(cnt) and max(cnt.values()) >= 3


def panic_class(msg):
    m = msg or ""
    if "index out of range" in m:
        return "index-out-of-range"
    if "slice bounds out of range" in m:
        return "slice-bounds-out-of-range"
    if "nil pointer dereference" in m:
        return "nil-pointer-dereference"
    if "assignment to entry in nil map" in m:
        return "assignment-to-nil-map"
    if "comparing uncomparable type" in m or "hash of unhashable type" in m:
        return "uncomparable-type"
    if "integer divide by zero" in m:
        return "divide-by-zero"
    if "interface conversion:" in m:
        # the dynamic type found depends on which value was offered, not on the defect: not part of the class
        return "interface-conversion"
    if "reflect:" in m:
        return "reflect:" + re.sub(r"[^A-Za-z0-9_.*]+", "-", m.split("reflect:")[1])[:40].strip("-")
    m = m.split(":")[0]                 # explicit panic(fmt...): the part before the first colon names the site's message
    txt = re.sub(r"0x[0-9a-f]+|\d+", "N", m)
    txt = re.sub(r"'[^']*'|\"[^\"]*\"", "STR", txt)
    return "explicit:" + re.sub(r"[^A-Za-z0-9_.*]+", "-", txt).strip("-")[:60]


def crash_info(stderr):
    """fatal runtime error in the worker's stderr -> (class, frames)"""
    cls = "fatal"
    m = re.search(r"fatal error: (.*)", stderr)
    if m:
        cls = "fatal:" + re.sub(r"[^A-Za-z0-9_.*]+", "-", m.group(1)).strip("-")[:40]
    if "stack overflow" in stderr or "stack exceeds" in stderr:
        cls = "stack-overflow"
    m2 = re.search(r"^panic: (.*)$", stderr, re.M)
    if m2 and cls == "fatal":
        cls = panic_class(m2.group(1))
    frames = []
    seen_goroutine = False
    for line in stderr.splitlines():
        if line.startswith("goroutine ") and "[running]" in line:
            seen_goroutine = True
            frames = []
            continue
        if seen_goroutine:
            if not line.strip():
                if frames:
                    break
                continue
            if not line.startswith("\t") and not line.startswith("..."):
                frames.append(re.sub(r"\((?!\*).*$", "", line.strip()))      # drop the argument list, keep a (*T) receiver
    return cls, frames


def signature(rec):
    if rec["outcome"] == "panic":
        return "C04/%s/%s" % (cog_frame(rec.get("stack") or []), panic_class(rec.get("panic"))), rec.get("panic", "")
    if rec["outcome"] == "crash":
        cls, frames = crash_info(rec.get("stderr", ""))
        return "C04/%s/%s" % (recursing_frame(frames) if cls == "stack-overflow" else cog_frame(frames), cls), (rec.get("stderr", "")[:300])
    if rec["outcome"] == "timeout" and has_recursion(rec.get("stack") or []):
        # still recursing when even the long budget ran out: the unbounded recursion it is, named like the overflow it would end in
        return "C04/%s/stack-overflow" % hang_frame(rec.get("stack") or []), "recursion still going after %d ms of CPU time" % CONFIRM_TIMEOUT_MS
    if rec["outcome"] == "timeout":
        return "C04/%s/timeout" % hang_frame(rec.get("stack") or []), "no result within %d ms of CPU time, nor within %d ms when run again alone" % (TIMEOUT_MS, CONFIRM_TIMEOUT_MS)
    return None, None


# ----------------------------------------------------------------------------------------------
# byte-level sample
# ----------------------------------------------------------------------------------------------
def byte_mutants(rng, data, n):
    out = []
    for i in range(n):
        kind = ("truncate", "bitflip", "delete", "duplicate", "insert")[i % 5]
        b = bytearray(data)
        if kind == "truncate":
            b = b[:rng.randrange(0, len(b))]
        elif kind == "bitflip":
            for _ in range(rng.randrange(1, 4)):
                k = rng.randrange(len(b))
                b[k] ^= 1 << rng.randrange(8)
        elif kind == "delete":
            k = rng.randrange(len(b))
            del b[k:k + rng.randrange(1, 12)]
        elif kind == "duplicate":
            k = rng.randrange(len(b))
            l = rng.randrange(1, 40)
            b[k:k] = b[k:k + l]
        else:
            k = rng.randrange(len(b))
            b[k:k] = rng.choice([b"{", b"}", b"[", b"]", b'"', b":", b",", b"\x00", b"\xff\xfe", b"null", b"*", b"&", b"|", b"#", b"- ", b"\n\t", b"%l"])
        out.append((kind, bytes(b)))
    return out


# ----------------------------------------------------------------------------------------------
# the check
# ----------------------------------------------------------------------------------------------
def langs_for(case):
    if case["route"] == "veneers":
        return BUILDER_LANGS
    return g.LANGS


def run(ctx):
    quick = ctx.quick()
    ctx.build_worker()
    rng = random.Random(ctx.seed)
    uni = Universe(ctx)

    if ctx.replay:
        return replay(ctx, uni)

    # ---- (A) TLC enumerates the structural universe
    fams = FAMILIES
    if os.environ.get("VERIF_C04_FAMILIES"):        # maintenance aid (never used by registered commands): restrict the universe
        fams = tuple(f for f in FAMILIES if f in os.environ["VERIF_C04_FAMILIES"].split(",")) + ("jsonschema", "openapi")
    r = ctx.run_tlc("MalformedMC", "MalformedMC.cfg", workers=8, timeout=900,
                    constants={"Families": "{%s}" % ",".join('"%s"' % f for f in sorted(set(fams)))})
    cases = []
    bases = {}
    for c in core.tagged_lines(r["out"], "CASE"):
        if c["class"] == "as-is" and c["base"] == 1 and c["fam"] in ("jsonschema", "openapi"):
            bases[c["fam"]] = c["doc"]
        cases.append(c)
    if len(cases) != r["distinct"]:
        raise core.Inconclusive("MalformedMC: %d CASE lines for %d states" % (len(cases), r["distinct"]))
    os.remove(r["out"])
    if set(bases) != {"jsonschema", "openapi"}:
        raise core.Inconclusive("base documents missing from TLC's output")
    uni.write_fixed(bases)
    total = len(cases)
    per_fam_total = collections.Counter(c["fam"] for c in cases)
    cases.sort(key=lambda c: (c["fam"], c["base"], json.dumps(c.get("path", c.get("e"))), c.get("mut", 0), str(c.get("pos", "")), c.get("second", 0), c.get("t", 0),
                              c.get("n", 0), c.get("link", ""), c.get("entry", ""), c.get("lang", ""), str(c.get("kind", "")),
                              c.get("sharing", ""), c.get("place", ""), c.get("carrier", ""), c.get("outer", ""), c.get("inner", ""), c.get("draft", "")))
    if quick:
        # seeded slice: every k-th case of each family, offset by the seed; the as-is documents always
        k = 12
        cases = [c for i, c in enumerate(cases) if c["class"] == "as-is" or c["fam"] in DENSE or (i + ctx.seed) % k == 0]
    for i, c in enumerate(cases):
        c["cid"] = "%s-%05d" % (c["fam"], i)
        c["origin"] = "tlc"
    # OpenAPI: cog validates the document first unless no_validate is set; both settings are inputs
    extra = []
    for c in cases:
        if (c["fam"] == "openapi" and (not quick or hash(c["cid"]) % 2 == 0)) or (c["fam"] in ("cycles", "discriminators") and c["lang"] == "openapi"):
            c2 = dict(c)
            c2["cid"] = c["cid"] + "-nv"
            c2["no_validate"] = True
            extra.append(c2)
    cases += extra

    # ---- (B) byte-level sample on the well-formed renderings (sampling, not enumeration)
    nbytes = 40 if quick else 400
    seeds = {
        "jsonschema": json.dumps(jv(bases["jsonschema"]), indent=1).encode(),
        "openapi": json.dumps(jv(bases["openapi"]), indent=1).encode(),
        "cue": cue_text("#Child | string", "field", "cfgt").encode() + WELLFORMED_CUE.split("\n", 2)[2].encode(),
        "passes": b"passes:\n  - rename_object:\n      from: cfgt.Child\n      to: Kid\n  - fields_set_default:\n      defaults:\n        cfgt.Root.name: zz\n"
                  b"  - add_object:\n      object: cfgt.Added\n      as:\n        kind: struct\n        struct:\n          fields:\n            - name: f\n"
                  b"              type: {kind: scalar, scalar: {scalar_kind: string}}\n",
        "veneers": b"language: all\npackage: cfgt\nbuilders:\n  - rename:\n      by_object: Root\n      as: Main\noptions:\n  - unfold_boolean:\n"
                   b"      by_name: Root.on\n      true_as: enable\n      false_as: disable\n  - disjunction_as_options:\n      by_name: Root.u\n      argument_index: 0\n",
    }
    pipe_text = None
    for c in cases:
        if c["fam"] == "pipeline" and c["class"] == "as-is":
            pipe_text = json.dumps(uni.fill(jv(c["doc"])), indent=1).encode()
    if pipe_text:
        seeds["pipeline"] = pipe_text
    nb = 0
    for fam, data in sorted(seeds.items()):
        for kind, b in byte_mutants(rng, data, nbytes):
            cases.append({"fam": fam, "base": 0, "class": "bytes:" + kind, "keyword": "", "cid": "%s-bytes-%04d" % (fam, nb), "bytes": b, "origin": "bytes"})
            nb += 1

    for c in cases:
        uni.materialise(c)
    core.log("cases: %d of %d TLC cases (+%d no_validate twins, +%d byte-level)" % (
        sum(1 for c in cases if c["origin"] == "tlc" and not c.get("no_validate")), total, len(extra), nb))

    # ---- stage 1: parsers, consolidation, input and common transformations (no output language)
    t0 = time.time()
    by_cid = {c["cid"]: c for c in cases}
    # kind "whole": the case IS the pipeline configuration: one run
    stage1 = [{"id": c["cid"] + "|none", "yaml": uni.yaml_for(c, None)} for c in cases if c["route"] != "whole"]
    stage1 += [{"id": c["cid"] + "|config", "yaml": c["yaml"]} for c in cases if c["route"] == "whole"]
    res = run_jobs(ctx, stage1, uni.dir)
    t1 = time.time()
    # ---- stage 2: every output language on the cases whose first stage returned
    stage2 = []
    dense_no = {}
    for c in cases:
        if c["route"] == "whole":
            continue
        if res[c["cid"] + "|none"]["outcome"] != "files":
            continue
        for li, lang in enumerate(langs_for(c)):
            # quick: the dense families (complete in every tier) take every other output language per case, alternating
            # from case to case and with the seed, so that each language still sees half of every dense family; thorough
            # runs every language on every case
            if quick and c["fam"] in DENSE and (dense_no.setdefault(c["cid"], len(dense_no)) + li + ctx.seed) % 2:
                continue
            stage2.append({"id": "%s|%s" % (c["cid"], lang), "yaml": uni.yaml_for(c, lang)})
            if not quick:
                stage2.append({"id": "%s|%s-alt" % (c["cid"], lang), "yaml": uni.yaml_for(c, lang, alt=True)})
    res.update(run_jobs(ctx, stage2, uni.dir))
    t2 = time.time()
    core.log("stage 1: %d runs %.1fs; stage 2: %d runs %.1fs" % (len(stage1), t1 - t0, len(stage2), t2 - t1))

    # ---- verdicts
    outcome = collections.Counter()
    per_fam = collections.defaultdict(collections.Counter)
    per_class = collections.defaultdict(collections.Counter)
    per_lang = collections.defaultdict(collections.Counter)
    sig_info = collections.defaultdict(list)
    slow = []
    for jid, rec in sorted(res.items()):
        cid, stage = jid.split("|")
        c = by_cid[cid]
        outcome[rec["outcome"]] += 1
        per_fam[c["fam"]][rec["outcome"]] += 1
        per_class[c["class"].split(":")[0]][rec["outcome"]] += 1
        per_lang[stage][rec["outcome"]] += 1
        if rec.get("cpu_ms", 0) > 5000:
            slow.append((jid, rec["cpu_ms"]))
        sig, what = signature(rec)
        if sig:
            # witness class: documents that are VALID by construction (unions of struct references with constant fields of
            # every scalar kind) crashing is another matter than the same site crashing on an ill-typed document
            if c["fam"] in VALID_INPUT_FAMILIES:
                sig += "/valid-input"
            sig_info[sig].append((jid, what))
    for sig, items in sorted(sig_info.items()):
        jid, what = items[0]
        cid, stage = jid.split("|")
        c = by_cid[cid]
        kws = collections.Counter("%s:%s@%s" % (by_cid[j.split("|")[0]]["fam"], by_cid[j.split("|")[0]]["class"], by_cid[j.split("|")[0]].get("keyword") or
                                                by_cid[j.split("|")[0]].get("pos", "")) for j, _ in items)
        rp = {"family": c["fam"], "class": c["class"], "keyword": c.get("keyword"), "path": c.get("path"), "stage": stage,
              "yaml_text": open(uni.yaml_for(c, None if stage in ("none", "config") else stage.replace("-alt", ""), alt=stage.endswith("-alt"))
                                if c["route"] != "whole" else c["yaml"], errors="replace").read(),
              "files": case_files(c), "stack": res[jid].get("stack") or crash_info(res[jid].get("stderr", ""))[1][:30]}
        ctx.fail(sig, "%s: %s [%s stage %s; %d run(s); inputs: %s]" % (res[jid]["outcome"], str(what)[:200], c["fam"], stage, len(items),
                                                                       ", ".join("%s x%d" % kv for kv in kws.most_common(6))), rp)

    if os.environ.get("VERIF_C04_DUMP_CASES"):      # maintenance aid (never used by registered commands): what ran and how it ended
        with open(os.environ["VERIF_C04_DUMP_CASES"], "w") as df:
            for jid, rec in sorted(res.items()):
                c = by_cid[jid.split("|")[0]]
                df.write(json.dumps({"job": jid, "fam": c["fam"], "class": c["class"], "keyword": c.get("keyword"), "path": c.get("path"),
                                     "draft": c.get("draft"), "carrier": c.get("carrier"), "outer": c.get("outer"), "inner": c.get("inner"),
                                     "filler": c.get("filler"), "outcome": rec["outcome"], "sig": signature(rec)[0],
                                     "err": (rec.get("err") or "")[:300], "doc": jv(c["doc"]) if c.get("doc") and c["fam"] in ("drafts", "handtypes") else None}) + "\n")
    # ---- trace: TLC re-judges every recorded outcome
    tdir = ctx.sub("trace")
    tpath = os.path.join(tdir, "trace.ndjson")
    order = sorted(res)
    with open(tpath, "w") as f:
        for jid in order:
            rec = res[jid]
            cid, stage = jid.split("|")
            c = by_cid[cid]
            if rec.get("first_run_differed") == "timeout" and rec["outcome"] in ("files", "error"):
                # used up the first budget, returned within the six times larger one when run alone: slow but finite (counted below)
                rec = dict(rec, cpu_ms=0)
            f.write(json.dumps({"case": cid, "fam": c["fam"], "class": c["class"], "stage": stage, "outcome": rec["outcome"],
                                "ms": int(rec.get("cpu_ms", rec.get("ms", 0)))}, separators=(",", ":")) + "\n")
    rt = ctx.run_tlc("MalformedTrace", "MalformedTrace.cfg", workers=1, timeout=1800, files={"trace.ndjson": tpath})
    consumed = None
    for line in open(rt["out"], errors="replace"):
        mm = re.match(r'^<<"CONSUMED", (\d+)>>', line)
        if mm:
            consumed = int(mm.group(1))
    if consumed != len(order):
        raise core.Inconclusive("MalformedTrace consumed %s of %d records" % (consumed, len(order)))
    tlc_bad = {f["l"] - 1 for f in core.tagged_lines(rt["out"], "FAIL")}
    py_bad = {i for i, jid in enumerate(order) if signature(res[jid])[0]}
    if tlc_bad != py_bad:
        raise core.Inconclusive("TLC and the harness disagree on %d records" % len(tlc_bad ^ py_bad))
    binding = selftest(ctx, res, order, by_cid)

    # ---- vacuity: every family and every mutation class must have reached real code, some through the second stage
    vac = []
    for fam in FAMILIES:
        if sum(per_fam[fam].values()) == 0:
            vac.append("family:" + fam)
    for cls in ("absent", "ill-typed", "degenerate", "expression", "as-is", "bytes", "sequence", "environment", "cycle", "config-cycle", "path", "if-expression", "discriminator", "hand-written-type"):
        if sum(per_class[cls].values()) == 0:
            vac.append("class:" + cls)
    for lang in g.LANGS:
        if sum(per_lang[lang].values()) == 0:
            vac.append("language:" + lang)
    if outcome["files"] == 0 or outcome["error"] == 0:
        vac.append("both regular outcomes (files, error) must occur")
    if vac and not os.environ.get("VERIF_C04_FAMILIES") and not ctx.failures:
        raise core.Inconclusive("vacuous: %s" % vac)
    if vac and ctx.failures:      # observed violations are never swallowed by the vacuity gate (audit class 15)
        ctx.notes.append("vacuity gate not met (%s) - reported with the violations instead of exit 2" % vac[:6])
    samples = []
    for jid in order:
        cid, stage = jid.split("|")
        c = by_cid[cid]
        if c["origin"] == "tlc" and c["class"] in ("degenerate", "ill-typed") and (hash(cid) + ctx.seed) % 211 == 0 and len(samples) < 3:
            samples.append({"case": cid, "family": c["fam"], "class": c["class"], "keyword": c.get("keyword"), "path": c.get("path"),
                            "mutation": c.get("mut"), "stage": stage, "outcome": res[jid]["outcome"], "err": (res[jid].get("err") or "")[:200]})
    if not samples:
        jid = order[0]
        samples.append({"case": jid, "outcome": res[jid]["outcome"]})
    distinct = {(by_cid[j.split("|")[0]]["cid"]) for j in order if by_cid[j.split("|")[0]]["class"] != "as-is"}
    # ---- growth item 7: the template package on TLC's template-set histories (Templates.tla); a crash or a hang while
    # rendering user-supplied override templates is C04's business, resolution mismatches are printed as observations
    from checks import templates_part
    tp = templates_part.run_part(ctx)
    for sig, what, rp_, key in tp["fails"]:
        ctx.fail(sig, what, rp_, key)
    # ---- growth item 6: the kind-registry input and the kindsys loaders on TLC's registries (KindRegistry.tla); a panic or a
    # hang while loading is C04's business (C04/kindregistry/<panic|timeout>/<class>), K1-K6 mismatches are observations
    from checks import kindregistry_part
    kp = kindregistry_part.run_part(ctx)
    for sig, what, rp_, key in kp["fails"]:
        ctx.fail(sig, what, rp_, key)
    cov = {
        "evaluations": len(order),
        "distinct_nontrivial": len(distinct),
        "rule": "one evaluation = one whole real pipeline run (PipelineFromFile + Run) of one case under one output setting in a worker "
                "subprocess with recover() and a 20 s watchdog; a case = one TLC state (family, base document, site, mutation) or one byte-level "
                "mutant; non-trivial = the input differs from the well-formed base document (everything except the as-is documents); distinct by case",
        "states": sum(x["distinct"] for x in ctx.tlc_runs), "transitions": sum(x["generated"] for x in ctx.tlc_runs),
        "traces_validated_against_impl": len(order) - len(py_bad), "real_records_validated_by_tlc_trace_spec": len(order),
        "exhaustive": False,
        "tlc_cases_total": total, "tlc_cases_per_family": dict(per_fam_total),
        "cases_run": len(cases), "byte_level_mutants_sampled": nb, "openapi_no_validate_twins": len(extra),
        "stage1_runs": len(stage1), "stage2_runs": len(stage2),
        "outcomes": dict(outcome), "outcomes_per_family": {k: dict(v) for k, v in per_fam.items()},
        "outcomes_per_mutation_class": {k: dict(v) for k, v in per_class.items()},
        "outcomes_per_stage_or_language": {k: dict(v) for k, v in per_lang.items()},
        "slowest_runs_ms": sorted(slow, key=lambda x: -x[1])[:5], "watchdog_cpu_ms": TIMEOUT_MS, "confirmation_cpu_ms": CONFIRM_TIMEOUT_MS,
        "slow_but_finite_runs": sorted(j for j, r_ in res.items() if r_.get("first_run_differed") == "timeout" and r_["outcome"] in ("files", "error"))[:10],
        "timeouts_that_ended_in_a_stack_overflow_when_run_alone": sum(1 for r_ in res.values() if r_.get("first_run_differed") == "timeout" and r_["outcome"] == "crash"),
        "signatures": {s: len(v) for s, v in sig_info.items()},
        "timing": {"stage1_s": round(t1 - t0, 1), "stage2_s": round(t2 - t1, 1)},
        "binding_selftest": binding, "samples": samples,
        "checker_cmd": "tlc MalformedMC; worker c04-run (subprocess, recover, watchdog); tlc MalformedTrace; tlc TemplatesMC/TemplatesTrace; "
                       "tlc KindRegistryMC/KindRegistryTrace",
    }
    cov.update(tp["coverage"])
    cov.update(kp["coverage"])
    cov["states"] = sum(x["distinct"] for x in ctx.tlc_runs)
    cov["transitions"] = sum(x["generated"] for x in ctx.tlc_runs)
    return ctx.finish("exploration", cov, ASSUMPTIONS)


def case_files(c):
    out = {}
    for root, _, files in os.walk(c["dir"]):
        for f in files:
            if f.startswith("run-"):
                continue
            p = os.path.join(root, f)
            data = open(p, "rb").read()
            try:
                out[os.path.relpath(p, c["dir"])] = data.decode()
            except UnicodeDecodeError:
                out[os.path.relpath(p, c["dir"])] = {"hex": data.hex()}
    return out


def selftest(ctx, res, order, by_cid):
    good = next((jid for jid in order if res[jid]["outcome"] == "error"), None)
    if good is None:
        raise core.Inconclusive("binding self-test: no run that returned an error")
    out = {}
    for name in ("good", "bad"):
        d = ctx.sub("selftest-" + name)
        cid, stage = good.split("|")
        rec = {"case": cid, "fam": by_cid[cid]["fam"], "class": by_cid[cid]["class"], "stage": stage,
               "outcome": "error" if name == "good" else "panic", "ms": int(res[good].get("cpu_ms", 0))}
        p = os.path.join(d, "trace.ndjson")
        open(p, "w").write(json.dumps(rec) + "\n")
        r = ctx.run_tlc("MalformedTrace", "MalformedTrace.cfg", workers=1, timeout=300, files={"trace.ndjson": p},
                        constants={"Strict": "TRUE"}, allow_violation=True)
        out[name] = r["violated"]
    if out["good"] or not out["bad"]:
        raise core.Inconclusive("binding self-test failed: good rejected=%s, corrupted rejected=%s" % (out["good"], out["bad"]))
    return "MalformedTrace(Strict) accepts a genuine `error` record and rejects it once the recorded outcome is changed to `panic`"


def replay(ctx, uni):
    rp = json.load(open(ctx.replay))
    r = rp["replay"]
    if isinstance(r, dict) and r.get("part") == "templates":
        from checks import templates_part
        for sig, what, rp_, key in templates_part.replay_part(ctx, r):
            if sig == rp["signature"]:
                ctx.fail(sig, what, rp_, key)
        return ctx.finish("exploration", {"evaluations": 1, "distinct_nontrivial": 0, "rule": "replay of one recorded template set",
                                          "samples": [{"replayed": rp["signature"]}]}, ASSUMPTIONS)
    if isinstance(r, dict) and r.get("part") == "kindregistry":
        from checks import kindregistry_part
        for sig, what, rp_, key in kindregistry_part.run_part(ctx)["fails"]:      # the part is small: it is simply run again
            if sig == rp["signature"]:
                ctx.fail(sig, what, rp_, key)
        return ctx.finish("exploration", {"evaluations": 1, "distinct_nontrivial": 0, "rule": "replay: the kind-registry part run again",
                                          "samples": [{"replayed": rp["signature"]}]}, ASSUMPTIONS)
    d = os.path.join(uni.dir, "replay")
    os.makedirs(d)
    # the replay file carries the exact files of the case and the pipeline YAML; paths are re-rooted
    yaml_text = r["yaml_text"]
    old_dirs = set(re.findall(r"(/[^\s'\"]+/c\d{6})(?=[/'\"])", yaml_text)) | set(re.findall(r"(/[^\s'\"]+/_fixed)(?=[/'\"])", yaml_text))
    for rel, data in r["files"].items():
        p = os.path.join(d, rel)
        os.makedirs(os.path.dirname(p), exist_ok=True)
        open(p, "wb").write(bytes.fromhex(data["hex"]) if isinstance(data, dict) else data.encode())
    fixed_needed = "_fixed" in yaml_text
    if fixed_needed:
        rr = ctx.run_tlc("MalformedMC", "MalformedMC.cfg", workers=4, timeout=600, constants={"Families": '{"jsonschema","openapi"}'})
        bases = {c["fam"]: c["doc"] for c in core.tagged_lines(rr["out"], "CASE") if c["class"] == "as-is" and c["base"] == 1}
        uni.write_fixed(bases)
    for od in old_dirs:
        yaml_text = yaml_text.replace(od, uni.fixed if od.endswith("_fixed") else d)
    yp = os.path.join(d, "replay.yaml")
    open(yp, "w").write(yaml_text)
    res = run_jobs(ctx, [{"id": "replay|" + r["stage"], "yaml": yp}], uni.dir, nproc=1)
    rec = res["replay|" + r["stage"]]
    sig, what = signature(rec)
    if sig:
        ctx.fail(sig, "%s: %s" % (rec["outcome"], str(what)[:300]), r)
    return ctx.finish("exploration", {"evaluations": 1, "distinct_nontrivial": 0, "rule": "replay of one recorded run",
                                      "samples": [{"outcome": rec["outcome"], "err": rec.get("err")}]}, [])


ASSUMPTIONS = [
    "structural universe: spec/MalformedMC.tla - every object member / array element of the well-formed base documents (JSON Schema draft-07, "
    "OpenAPI 3.0, pipeline YAML, one file per schema transformation, one file per builder / option rule) removed, or replaced by every value of "
    "the family's alphabet (other JSON kinds; empty, negative, dangling, cyclic, tuple-form and wrong-keyword spellings); the reference-cycle "
    "documents as they stand; for CUE an alphabet of expressions at every structural position; quick runs a seeded 1/12 slice (dense families complete, but under every other output language per case)",
    "hand-written types (family handtypes, complete in every tier): 27 fillers (a kind without its definition for each of the ten kinds, another "
    "kind's definition, unknown / missing kind, definitions with missing or empty members, non-mappings, two well-formed controls) at every position "
    "of a type tree (the type, array value, map INDEX, map value, struct field, disjunction branch, intersection branch), one level deep through "
    "retype_field / retype_object / add_object / add_fields and two levels deep through retype_field",
    "JSON Schema drafts (family drafts, complete in every tier): every container- or string-valued site of two documents that are valid under every "
    "draft, replaced by the empty value of its kind, under `$schema` = draft-04, -06, -07, 2019-09, 2020-12 and without `$schema` (what the schema "
    "compiler's meta-schema lets through to cog's parser differs per draft: an empty `enum` only reaches it under 2019-09 / 2020-12 / no `$schema`)",
    "arbitrary byte sequences cannot be enumerated by TLC: a seeded byte-level sample (truncation, bit flips, deletions, duplications, "
    "insertions) of the well-formed renderings is run on top and counted separately (sampling)",
    "output settings: first no output language (parsers, consolidation, transformations), then - only for cases on which that stage returns, since "
    "Run loads the schemas before it looks at any language - every language separately with all output kinds and generation flags on; "
    "thorough adds the complementary flag setting (any_as_interface, skip_runtime and therefore no builders); builder-transformation cases "
    "run for the five languages that have builders",
    "bounded time = 20 s of CPU time of the worker process per run (typical 30 ms; wall time only bounds a blocked run, at 300 s), so that the verdict "
    "does not depend on the load of the machine; a run that uses up the budget is run again alone with 120 s and is a timeout only if that run is still "
    "going (an unbounded recursion ends in the stack overflow it is, a slow finite run returns); the worker's maximum goroutine stack "
    "is lowered to 16 MB so that runaway recursion is observed as a stack overflow within a fraction of a second; two inputs per stack-overflow signature are confirmed under a 64 MB cap",
    "OpenAPI documents are run with validation on and (thorough: all, quick: half) with no_validate",
    "YAML configuration is written in YAML's JSON subset; remote inputs (url:) are not exercised (no network)",
]
