"""File-set algebra of a run (growth of Pipeline.tla, DESIGN Appendix E.5) - part of C07.

  spec/PipelineFiles.tla       files = disjoint union of (language root / what the language emits alone) and (repository root /
                               template files), or the run fails; roots from output.directory (%l, relative / absolute)
  spec/PipelineFilesMC.tla     every configuration of the bounded universe with its expected verdict (CASE lines), laws
  real                         codegen.Pipeline.Run() through the worker (pipe-run -full), one run per case; the per-language
                               path tables are measured first (each language alone, default pattern)
  spec/PipelineFilesTrace.tla  the same Expected on the real records: Outcome (error iff two producers of one path), Paths, Content

run_part(ctx) -> dict(fails=[(signature, what, replay, key)], coverage={...}, tlc=[...]); signatures C07/fileset/<clause>/<class>.
"""
import json
import os
import random

from vlib import core
from checks import pipeline_common as pc

LANGS = pc.LANGS
LANGSETS = [[l] for l in LANGS] + [["go", "python"], ["go", "typescript"], ["jsonschema", "openapi"], ["java", "php"],
                                   ["go", "python", "typescript"], list(LANGS)]
FLAGS = {"plain": dict(types=True, builders=False, converters=False, api_reference=False),
         "apiref": dict(types=True, builders=True, converters=False, api_reference=True)}
EXTRA_LANGS = ["go", "python", "typescript", "java", "php"]     # the languages whose configuration has extra_files_templates
REPO = {
    "none": {},
    "disjoint": {"common": {"README.md": "common {{ .Extra.k1 }}\n"}, "go": {"go-ci.yaml": "go: 1\n"}, "python": {"py-ci.yaml": "py: 1\n"},
                 "typescript": {"ts-ci.yaml": "ts: 1\n"}, "java": {"sub/java-ci.yaml": "java: 1\n"}},
    "collide": {"go": {"ci.yaml": "from: go\n"}, "python": {"ci.yaml": "from: python\n"}, "php": {"php.txt": "php\n"}},
    "shadow": {"go": {"go/alpha/types_gen.go": "package shadow\n"}, "common": {"NOTICE": "n\n"}},
}
EXTRA = {
    "none": {},
    "distinct": {l: {"EXTRA.md": "extra for %s\n" % l} for l in ("go", "python", "typescript")},
    "clash": {"go": {"alpha/types_gen.go": "package alpha\n"}, "java": {"JAVA_EXTRA.txt": "j\n"}},
}


def dirs(work):
    """Directory patterns: the YAML text and the segments the spec uses (relative to the working directory `work`)."""
    S = lambda pre, l=False: {"pre": pre, "l": l}
    parent = os.path.dirname(work)
    return {
        "rel_l": {"yaml": "out/%l", "segs": [S("out"), S("", True)]},
        "flat": {"yaml": "out", "segs": [S("out")]},
        "nested": {"yaml": "gen/%l/src", "segs": [S("gen"), S("", True), S("src")]},
        "embedded": {"yaml": "pre-%l", "segs": [S("pre-", True)]},
        "abs_l": {"yaml": work + "/abs/%l", "segs": [S("abs"), S("", True)]},
        "abs_flat": {"yaml": work + "/absflat", "segs": [S("absflat")]},
        "outside": {"yaml": parent + "/sibling/%l", "segs": [S(".."), S("sibling"), S("", True)]},
        # output settings are interpolated too: a file parameter, and the same one overridden from the command line
        "param_file": {"yaml": "%odir%/%l", "segs": [S("fromfile"), S("", True)], "file_params": {"odir": "fromfile"}},
        "param_cli": {"yaml": "%odir%/x-%l", "segs": [S("fromcli"), S("x-", True)], "file_params": {"odir": "fromfile"}, "cli_params": {"odir": "fromcli"}},
    }


def write_fixture(d):
    work = os.path.join(d, "work")
    os.makedirs(work)
    spec = {"pkg": "alpha", "objects": [
        ("Root", "struct", [("name", "string", True, "n"), ("mode", ("ref", "Mode"), False, None), ("tags", ("array", "string"), False, None)]),
        ("Mode", "enum", ["a", "b"])]}
    inp = pc.write_input(d, spec, "jsonschema")
    for name, tree in REPO.items():
        for sub, files in tree.items():
            for fn, body in files.items():
                p = os.path.join(d, "repo_" + name, sub, fn)
                os.makedirs(os.path.dirname(p), exist_ok=True)
                open(p, "w").write(body)
        os.makedirs(os.path.join(d, "repo_" + name), exist_ok=True)
    for name, tree in EXTRA.items():
        for lang, files in tree.items():
            for fn, body in files.items():
                p = os.path.join(d, "extra_%s_%s" % (name, lang), fn)
                os.makedirs(os.path.dirname(p), exist_ok=True)
                open(p, "w").write(body)
    return work, inp


def write_case(d, name, inp, cfg, dirtab):
    lang_cfg = {}
    for l in cfg["langs"]:
        lc = dict(pc.LANG_CFG[l])
        if cfg["extra"] != "none" and l in EXTRA[cfg["extra"]]:
            lc["extra_files_templates"] = ["%%__config_dir%%/extra_%s_%s" % (cfg["extra"], l)]
        lang_cfg[l] = lc
    y = pc.write_pipeline(d, name, [inp], cfg["langs"], lang_cfg=lang_cfg, directory=dirtab[cfg["dir"]]["yaml"],
                          repository_templates=("%__config_dir%/repo_" + cfg["repo"]) if cfg["repo"] != "none" else None,
                          templates_data={"k1": "v1"}, parameters=dirtab[cfg["dir"]].get("file_params"), **FLAGS[cfg["flags"]])
    return {"id": name, "yaml": y, "inspect": False, "outdir": "out", "langs": list(cfg["langs"]), "pkgs": ["alpha"],
            "params": dirtab[cfg["dir"]].get("cli_params") or {}}


def case_key(cfg):
    return "%s|%s|repo=%s|extra=%s|%s" % ("+".join(cfg["langs"]), cfg["dir"], cfg["repo"], cfg["extra"], cfg["flags"])


def seg_text(seg, lang):
    return seg["pre"] + (lang if seg["l"] else "")


def join(parts):
    return "/".join(p for p in parts if p != "")


def expected(cfg, tables):
    """Python mirror of PipelineFiles.Expected (used for signatures; TLC is the judge and both must agree)."""
    d = tables["dirs"][cfg["dir"]]
    producers = []
    for l in cfg["langs"]:
        root = join([seg_text(s, l) for s in d["segs"]])
        for p in tables["base"][cfg["flags"]][l] + tables["extra"][cfg["extra"]][l]:
            producers.append((join([root, p]), l))
    rroot = join([seg_text(s, ".") for s in d["segs"] if not (s["l"] and s["pre"] == "")])
    for sub in ["common"] + list(cfg["langs"]):
        for p in tables["repo"][cfg["repo"]][sub]:
            producers.append((join([rroot, p]), "repo:" + sub))
    paths = {}
    for p, who in producers:
        paths.setdefault(p, []).append(who)
    dup = {p: w for p, w in paths.items() if len(w) > 1}
    return {"err": bool(dup), "paths": {} if dup else paths, "dup": dup}


def run_cases(ctx, d, work, inp, cfgs, tables, tag):
    jobs = [write_case(d, "%s%04d" % (tag, k), inp, c, tables["dirs"]) for k, c in enumerate(cfgs)]
    out = pc.run_jobs(ctx, "pipe-run", jobs, args=["-full"], parallel=12, timeout=1500, cwd=work)
    res = {o["id"]: o for o in out}
    if len(res) != len(jobs):
        raise core.Inconclusive("fileset: worker returned %d of %d runs" % (len(res), len(jobs)))
    return [res[j["id"]] for j in jobs]


def measure_tables(ctx, d, work, inp, dirtab):
    """Each language alone under the default pattern: the relative paths (and hashes) it emits, per flag set."""
    tables = {"dirs": dirtab, "langsets": LANGSETS, "base": {}, "repo": {}, "extra": {}}
    hashes = {}
    cfgs = [{"langs": [l], "dir": "rel_l", "repo": "none", "extra": "none", "flags": f} for f in FLAGS for l in LANGS]
    for c, r in zip(cfgs, run_cases(ctx, d, work, inp, cfgs, {"dirs": dirtab}, "base")):
        if r["err"]:
            raise core.Inconclusive("fileset: %s alone does not generate: %s" % (c["langs"][0], r["err"][:200]))
        l = c["langs"][0]
        prefix = "out/%s/" % l
        rel = {}
        for p, h in r["files"].items():
            if not p.startswith(prefix):
                raise core.Inconclusive("fileset: %s alone writes %s outside its root" % (l, p))
            rel[p[len(prefix):]] = h
        tables["base"].setdefault(c["flags"], {})[l] = sorted(rel)
        hashes[(c["flags"], l)] = rel
    for name, tree in REPO.items():
        tables["repo"][name] = {sub: sorted(tree.get(sub, {})) for sub in ["common"] + LANGS}
    for name, tree in EXTRA.items():
        tables["extra"][name] = {l: sorted(tree.get(l, {})) for l in LANGS}
    return tables, hashes


def judge(cfg, rec, tables, hashes):
    exp = expected(cfg, tables)
    rerr = bool(rec["err"])
    dupmsg = "path already created" in rec["err"] or "cannot create" in rec["err"]
    real = {"err": rerr, "paths": sorted(rec.get("files") or {}), "same_content": True}
    verdicts = []
    if rec["err"].startswith("panic"):
        verdicts.append(("Outcome", "panic", rec["err"][:200]))
    elif exp["err"] and not rerr:
        p, who = sorted(exp["dup"].items())[0]
        kind = "+".join(sorted({("repository-template" if w.startswith("repo:") else "language") for w in who}))
        verdicts.append(("Outcome", "silent-overwrite/" + kind, "%s is produced by %s and the run succeeds" % (p, who)))
    elif rerr and not exp["err"]:
        verdicts.append(("Outcome", "unexpected-error/" + ("duplicate-path" if dupmsg else "other"), rec["err"][:300]))
    elif not rerr:
        got = set(real["paths"])
        want = set(exp["paths"])
        if got != want:
            miss, extra = sorted(want - got), sorted(got - want)
            who = sorted({w for p in miss for w in exp["paths"][p]})
            cls = "repository-template" if who and all(w.startswith("repo:") for w in who) else ("language" if who else "unexpected-path")
            verdicts.append(("Paths", cls + "/" + cfg["dir"], "missing %s, unexpected %s" % (miss[:4], extra[:4])))
        else:
            bad = []
            for p, who in exp["paths"].items():
                w = who[0]
                if w.startswith("repo:"):
                    continue
                root = join([seg_text(s, w) for s in tables["dirs"][cfg["dir"]]["segs"]])
                relp = p[len(root) + 1:] if root else p
                base = hashes[(cfg["flags"], w)].get(relp)
                if base is not None and base != rec["files"][p]:
                    bad.append(p)
            if bad:
                real["same_content"] = False
                langs = sorted({exp["paths"][p][0] for p in bad})
                verdicts.append(("Content", "files:" + langs[0] if len(langs) == 1 else "files", "differ from what the language generates alone: %s" % bad[:4]))
    return real, verdicts


def validate(ctx, records, tables_path, strict=False):
    d = ctx.sub("fileset-trace")
    t = os.path.join(d, "fileset_trace.ndjson")
    open(t, "w").write("".join(json.dumps(r) + "\n" for r in records))
    r = ctx.run_tlc("PipelineFilesTrace", "PipelineFilesTrace.cfg", workers=1, timeout=1500,
                    files={"fileset_trace.ndjson": t, "fileset_tables.json": open(tables_path, "rb").read()},
                    constants={"Strict": "TRUE" if strict else "FALSE"}, allow_violation=strict)
    fails = {f["l"]: set(f["violated"]) for f in core.tagged_lines(r["out"], "FAIL")}
    consumed = None
    for line in open(r["out"], errors="replace"):
        if line.startswith('<<"CONSUMED", '):
            consumed = int(line[len('<<"CONSUMED", '):].rstrip(">\n"))
    if not strict and consumed != len(records):
        raise core.Inconclusive("PipelineFilesTrace consumed %s of %d records" % (consumed, len(records)))
    os.remove(r["out"])
    return r, fails


def replay_case(ctx, cfg):
    d = ctx.sub("fileset-replay")
    work, inp = write_fixture(d)
    tables, hashes = measure_tables(ctx, d, work, inp, dirs(work))
    rec = run_cases(ctx, d, work, inp, [cfg], tables, "replay")[0]
    return judge(cfg, rec, tables, hashes)[1]


def run_part(ctx, budget=None):
    quick = ctx.quick()
    rnd = random.Random(ctx.seed * 17 + 3)
    d = ctx.sub("fileset-corpus")
    work, inp = write_fixture(d)
    tables, hashes = measure_tables(ctx, d, work, inp, dirs(work))
    tpath = os.path.join(d, "fileset_tables.json")
    json.dump(tables, open(tpath, "w"))
    tlc = []
    r = ctx.run_tlc("PipelineFilesMC", "PipelineFilesMC.cfg", workers=4, timeout=1500, files={"fileset_tables.json": open(tpath, "rb").read()})
    tlc.append(r)
    cases = list(core.tagged_lines(r["out"], "CASE"))
    os.remove(r["out"])
    if len(cases) != r["distinct"]:
        raise core.Inconclusive("PipelineFilesMC printed %d cases for %d states" % (len(cases), r["distinct"]))
    for c in cases:
        c["cfg"]["langs"] = [l for l in LANGS if l in c["cfg"]["langs"]]
    cases.sort(key=lambda c: case_key(c["cfg"]))
    rnd.shuffle(cases)
    colliding = [c for c in cases if c["err"]]
    clean = [c for c in cases if not c["err"]]
    n = budget or (260 if quick else len(cases))
    chosen = colliding[:n // 2] + clean[:n - min(len(colliding), n // 2)]

    recs = run_cases(ctx, d, work, inp, [c["cfg"] for c in chosen], tables, "c")
    fails, records, py_bad = [], [], {}
    stats = {"expected_error": 0, "expected_ok": 0, "real_duplicate_errors": 0, "by_dir": {}, "by_repo": {}, "by_extra": {}, "multi_language": 0,
             "paths_compared": 0, "files_content_compared": 0}
    for k, (c, rec) in enumerate(zip(chosen, recs)):
        cfg = c["cfg"]
        exp = expected(cfg, tables)
        if exp["err"] != c["err"] or (not exp["err"] and len(exp["paths"]) != c["npaths"]):
            raise core.Inconclusive("fileset: the Python mirror and TLC disagree on the expected verdict of %s" % case_key(cfg))
        real, verdicts = judge(cfg, rec, tables, hashes)
        records.append({"cfg": cfg, "real": {"err": real["err"], "paths": real["paths"] or ["-"], "same_content": real["same_content"]}})
        stats["expected_error" if exp["err"] else "expected_ok"] += 1
        stats["real_duplicate_errors"] += 1 if ("path already created" in rec["err"] or "cannot create" in rec["err"]) else 0
        for key, v in (("by_dir", cfg["dir"]), ("by_repo", cfg["repo"]), ("by_extra", cfg["extra"])):
            stats[key][v] = stats[key].get(v, 0) + 1
        stats["multi_language"] += 1 if len(cfg["langs"]) > 1 else 0
        if not real["err"] and not exp["err"]:
            stats["paths_compared"] += len(real["paths"])
            stats["files_content_compared"] += sum(1 for w in exp["paths"].values() if not w[0].startswith("repo:"))
        if verdicts:
            py_bad[k] = {v[0] for v in verdicts}
        for clause, cls, what in verdicts:
            fails.append(("C07/fileset/%s/%s" % (clause, cls), "%s [%s]" % (what, case_key(cfg)), {"clause": "fileset", "cfg": cfg}, case_key(cfg)))

    tr, tfails = validate(ctx, records, tpath)
    tlc.append(tr)
    tlc_bad = {l - 1: v for l, v in tfails.items()}
    if set(tlc_bad) != set(py_bad) or any(not (tlc_bad[k] & py_bad[k]) for k in tlc_bad):
        raise core.Inconclusive("PipelineFilesTrace and the oracle disagree: only TLC %s, only oracle %s" % (
            [(case_key(chosen[k]["cfg"]), sorted(tlc_bad[k])) for k in sorted(set(tlc_bad) - set(py_bad))[:4]],
            [(case_key(chosen[k]["cfg"]), sorted(py_bad[k])) for k in sorted(set(py_bad) - set(tlc_bad))[:4]]))

    selftest = None
    good = [rec for k, rec in enumerate(records) if k not in py_bad and not rec["real"]["err"] and len(rec["real"]["paths"]) > 2]
    if good:
        g = good[0]
        bad = json.loads(json.dumps(g))
        bad["real"]["paths"] = bad["real"]["paths"][1:]
        r_ok, _ = validate(ctx, [g], tpath, strict=True)
        r_bad, _ = validate(ctx, [bad], tpath, strict=True)
        tlc += [r_ok, r_bad]
        if r_ok["violated"] or not r_bad["violated"]:
            raise core.Inconclusive("fileset binding self-test failed (genuine rejected=%s, corrupted rejected=%s)" % (r_ok["violated"], r_bad["violated"]))
        selftest = "PipelineFilesTrace(Strict) accepts a genuine run and rejects it once one produced path is dropped from the record"

    if not stats["expected_error"] or not stats["expected_ok"] or not stats["multi_language"] or not stats["files_content_compared"]:
        raise core.Inconclusive("fileset: vacuous sample %s" % stats)
    if not fails and stats["real_duplicate_errors"] == 0:
        raise core.Inconclusive("fileset: no duplicate-path error observed on the real code")
    cov = {"tlc_cases": len(cases), "tlc_cases_expected_to_fail": len(colliding), "replayed": len(chosen), "conforming": len(chosen) - len(py_bad),
           "stats": stats, "binding_selftest": selftest, "baseline_paths_per_language": {f: {l: len(v) for l, v in t.items()} for f, t in tables["base"].items()},
           "sample": {"case": case_key(chosen[0]["cfg"]), "expected_error": chosen[0]["err"], "expected_paths": chosen[0]["npaths"]}}
    return {"fails": fails, "coverage": cov, "tlc": tlc}
