"""C16 - builders are derived completely and type-correctly from the schemas.

spec: IR.tla, Builders.tla (Derive / FieldMode / C16Violated), BuildersMC.tla (Spec16: schema sets over object
      kinds x field kinds), BuildersTrace.tla (judgement of the real results)
real code: (&ast.BuilderGenerator{}).FromAST(S)

  TLC BuildersMC/Spec16        -> CASE16 lines (S, Derive(S), per-field modes); DeriveOK checked on the design
  worker c16-replay            -> real FromAST(S) per case, compared conjunct by conjunct with Derive(S);
                                  every real result written as a trace record
  TLC BuildersTrace (report)   -> C16Violated(S, real B) per record; must agree with the Go comparison
"""
import json
import os

from vlib import core
from checks import builders_common as bc

NSLICES = 8
MODES = ["option", "constant", "own", "free"]
FIELD_KINDS = ["scalar", "scalar+constraints", "scalar+constraints+nullable", "scalar+default", "constant", "constant+nullable",
               "ref-to-struct", "ref-to-enum+default", "ref-to-constant", "ref-to-constant-other-package",
               "ref-to-constant+optional", "ref-to-constant-other-package+nullable", "ref-to-constant-via-alias",
               "constant_ref", "array", "map", "struct", "enum+default", "disj", "inter", "slot", "ref-unresolved"]
OBJECT_KINDS = ["struct", "alias-of-struct", "alias-chain-of-struct", "alias-chain-crossing-packages-of-struct",
                "alias-chain-crossing-packages-of-scalar", "alias-of-enum", "alias-of-constant", "alias-of-array",
                "enum", "scalar", "constant", "array", "map", "disj"]


def judge(ctx, tlc_out, cov):
    summ = os.path.join(ctx.scratch, "c16-sum.json")
    trace = os.path.join(ctx.scratch, "c16-trace.ndjson")
    ctx.run_worker(["c16-replay", "-in", tlc_out, "-trace", trace], stdout_path=summ, timeout=1800)
    s = json.load(open(summ))
    # TLC judges every real result independently
    recs_n = s["traced"]
    tr, fails, _notes, consumed = bc.run_trace(ctx, trace, bc.EMPTY_TABLES)
    if consumed != recs_n:
        raise core.Inconclusive("BuildersTrace consumed %d of %d records" % (consumed, recs_n))
    for i, go_verdict in enumerate(s["trace_verdicts"], start=1):
        tlc_verdict = sorted({v["clause"] for v in fails.get(i, [])})
        if tlc_verdict != sorted(go_verdict):
            raise core.Inconclusive("TLC and the Go comparison disagree on record %d: TLC %s, Go %s" % (i, tlc_verdict, go_verdict))
    for sig, agg in s["signatures"].items():
        ex = agg["examples"][0]
        what = {k: v for k, v in ex.items() if k not in ("S", "real")}
        ctx.failures.append({"signature": sig, "what": "%s (x%d)" % (json.dumps(what)[:500], agg["count"]),
                             "replay": {"case": ex.get("case"), "S": ex["S"]}})
    cov["tlc_trace"] = tr
    return s, len(fails)


def replay(ctx):
    rp = json.load(open(ctx.replay))
    want_sig = rp["signature"]
    ctx.build_worker()
    # Derive(S) and the modes for the stored schema set come from TLC again: the stored case is re-enumerated
    case = rp["replay"]["case"]
    r = ctx.run_tlc("BuildersMC", "BuildersMC16.cfg", workers=4, timeout=900)
    one = os.path.join(ctx.scratch, "one.out")
    n = 0
    with open(one, "w") as out:
        for obj in core.tagged_lines(r["out"], "CASE16"):
            if obj["case"] == case:
                out.write(bc.tlc_line("CASE16", obj))
                n += 1
    if n != 1:
        raise core.Inconclusive("stored case not found in the enumeration")
    cov = {}
    s, _ = judge(ctx, one, cov)
    ctx.failures = [f for f in ctx.failures if f["signature"] == want_sig]
    return ctx.finish("model_checking", {"evaluations": 1, "distinct_nontrivial": 0}, [])


def run(ctx):
    if ctx.replay:
        return replay(ctx)
    quick = ctx.quick()
    ctx.build_worker()
    consts = {"NSlices": NSLICES, "Slice": ctx.seed % NSLICES} if quick else {"NSlices": 1, "Slice": 0}
    r = ctx.run_tlc("BuildersMC", "BuildersMC16.cfg", workers=8, timeout=1500, constants=consts)
    cov = {}
    s, tlc_failed = judge(ctx, r["out"], cov)
    if s["cases"] != r["distinct"]:
        raise core.Inconclusive("worker replayed %d cases for %d TLC states" % (s["cases"], r["distinct"]))
    # vacuity: every way of covering a field, every field kind and every object kind was exercised on real code
    missing = [m for m in MODES if s["per_mode"].get(m, 0) == 0]
    missing += [k for k in FIELD_KINDS if s["per_field_kind"].get(k, 0) == 0]
    missing += [k for k in OBJECT_KINDS if s["per_object_kind"].get(k, 0) == 0]
    if missing:
        raise core.Inconclusive("never exercised: %s" % missing)
    binding = selftest(ctx)
    tr = cov.pop("tlc_trace")
    judged = s["cases"] - s["out_of_scope"]
    fields = sum(s["per_field_kind"].values())
    cov.update({
        "states": r["distinct"] + tr["distinct"],
        "transitions": r["generated"] + tr["generated"],
        "traces_validated_against_impl": s["traced"] - tlc_failed,
        "exhaustive": True,
        "evaluations": s["cases"],
        "distinct_nontrivial": judged,
        "rule": "one evaluation = one schema set (a TLC state) on which the real BuilderGenerator.FromAST ran and was compared, conjunct by "
                "conjunct, with Derive(S), and whose real result was judged again by TLC (C16Violated); schema sets: object Main with one "
                "field kind or an ordered pair of two of 28 field kinds x 6 surroundings (plain; alias chains whose second hop crosses into a loaded second package next to same-named objects of another kind; aliases of structs / alias chains / aliases of "
                "enums and constants declared before their targets; non-struct objects; second package not loaded; alias of an unloaded "
                "object); non-trivial = judged (the 'alias of an unloaded object' surroundings make FromAST panic and are out of scope: "
                "C05 guarantees resolvable references)",
        "fields_judged": fields,
        "per_field_kind": s["per_field_kind"], "per_mode": s["per_mode"], "per_object_kind": s["per_object_kind"],
        "out_of_scope": s["out_of_scope"],
        "observations_for_other_properties": s["observations_for_other_properties"],
        "binding_selftest": binding,
        "samples": (s["samples"] or [])[:2] or [{"note": "no sample drawn"}],
        "checker_cmd": "tlc BuildersMC/BuildersMC16.cfg (%s); worker c16-replay; tlc BuildersTrace" % (
            "pairs slice %d/%d" % (ctx.seed % NSLICES, NSLICES) if quick else "all pairs"),
    })
    return ctx.finish("model_checking", cov, [
        "reading rule: an optional (not required or nullable) reference to a constant may be an option or a constructor constant",
        "comments and the order of builders/options are not compared (the property does not mention them)",
        "references are followed through at most 8 aliases",
    ])


def selftest(ctx):
    """A genuine derive record is accepted in Strict mode; the same record with one option default removed is rejected."""
    S = [{"pkg": "p", "meta": {"kind": "", "variant": "", "id": ""}, "entry": "", "entrytype": {"k": "none"},
          "objects": [{"name": "Main", "comments": [], "selfpkg": "p", "selfname": "Main",
                       "type": {"k": "struct", "nullable": False, "def": {"t": "nil", "s": ""}, "hints": [],
                                "fields": [{"name": "sd", "required": True, "comments": [],
                                            "type": {"k": "scalar", "nullable": False, "def": {"t": "string", "s": "dflt"}, "hints": [],
                                                     "sk": "string", "val": {"t": "nil", "s": ""}, "cons": []}}]}}]}]
    d = ctx.sub("selftest16")
    one = os.path.join(d, "one.out")
    # derive with the real code, then corrupt the record
    ft = S[0]["objects"][0]["type"]["fields"][0]["type"]
    arg = {"name": "sd", "type": ft}
    good_b = [{"pkg": "p", "name": "Main", "for": S[0]["objects"][0], "props": [], "factories": [],
               "ctor": {"args": [], "assigns": []},
               "options": [{"name": "sd", "comments": [], "args": [arg], "def": {"set": True, "vals": [{"t": "string", "s": "dflt"}]},
                            "assigns": [{"path": [{"id": "sd", "type": ft, "index": {"k": "none"}, "hint": {"k": "none"}, "root": False}],
                                         "value": {"k": "arg", "arg": arg}, "method": "direct", "cons": [], "nilchecks": []}]}]}]
    # the hand-written record is what the property demands for this schema; the real derivation of the same
    # schema is used for the projection round-trip only (a defective derivation must not hide behind the self-test)
    open(one, "w").write(bc.tlc_line("CASE16", {"case": {"fields": [], "variant": 0}, "S": S, "expect": good_b,
                                               "modes": [{"pkg": "p", "name": "Main", "fields": [{"name": "sd", "mode": "option"}]}]}))
    summ = os.path.join(d, "sum.json")
    trace = os.path.join(d, "t.ndjson")
    ctx.run_worker(["c16-replay", "-in", one, "-trace", trace], stdout_path=summ)
    real = json.loads(open(trace).read())
    rec = {"kind": "derive", "S": S, "B": good_b}
    bad = json.loads(json.dumps(rec))
    bad["B"][0]["options"][0]["def"] = {"set": False, "vals": []}
    res = {}
    for name, r in (("good", rec), ("bad", bad)):
        t = os.path.join(d, name + ".ndjson")
        open(t, "w").write(json.dumps(r) + "\n")
        out, _f, _n, _c = bc.run_trace(ctx, t, bc.EMPTY_TABLES, strict=True, allow_violation=True, timeout=300)
        res[name] = out["violated"]
    if res["good"] or not res["bad"]:
        raise core.Inconclusive("binding self-test failed: good rejected=%s bad rejected=%s" % (res["good"], res["bad"]))
    # the builders projection round-trips on a real result
    rt = os.path.join(d, "rt.ndjson")
    open(rt, "w").write(json.dumps(real["B"]) + "\n" + json.dumps(good_b) + "\n")
    ctx.run_worker(["builders-selftest"], stdin_path=rt)
    return "BuildersTrace(Strict) accepts the derivation the property demands and rejects it with one option default removed; builders projection round-trips"
