"""C16 - builders are derived completely and type-correctly from the schemas.

spec: IR.tla, Builders.tla (Derive / FieldMode / C16Violated), BuildersMC.tla (Spec16: schema sets over object
      kinds x field kinds), BuildersTrace.tla (judgement of the real results)
real code: (&ast.BuilderGenerator{}).FromAST(S)

  TLC BuildersMC/Spec16        -> CASE16 lines (S, Derive(S), per-field modes); DeriveOK checked on the design
  worker c16-replay            -> real FromAST(S) per case, compared conjunct by conjunct with Derive(S);
                                  every real result written as a trace record
  TLC BuildersTrace (report)   -> C16Violated(S, real B) per record; must agree with the Go comparison
"""
import json
import os

from vlib import core
from checks import builders_common as bc

NSLICES = 8
MODES = ["option", "constant", "own", "free"]
FIELD_KINDS = ["scalar", "scalar+constraints", "scalar+constraints+nullable", "scalar+default", "constant", "constant+nullable",
               "ref-to-struct", "ref-to-enum+default", "ref-to-constant", "ref-to-constant-other-package",
               "ref-to-constant+optional", "ref-to-constant-other-package+nullable", "ref-to-constant-via-alias",
               "constant_ref", "array", "map", "struct", "enum+default", "disj", "inter", "slot", "ref-unresolved",
               "scalar+constraints+operator-repeated", "array+default+empty-collection", "ref-to-struct+default+empty-collection",
               "scalar+constraints+default", "scalar+default+nullable",
               # constants that are not non-empty strings, held by the loaders in a Go type that is not the kind's own, falsy
               "ref-to-constant+float64-held-as-int64", "ref-to-constant-other-package+uint8-held-as-int64",
               "ref-to-constant-via-alias+float32-held-as-float64", "ref-to-constant+int32-held-as-int", "ref-to-constant+bool",
               "ref-to-constant+bool+falsy", "ref-to-constant+falsy+int64", "ref-to-constant+falsy", "constant+float64-held-as-int64",
               "constant+falsy+uint8-held-as-int64", "constant+bool+falsy", "constant+falsy", "ref-to-constant+bool+falsy+optional",
               "ref-to-constant-other-package+nullable+uint8-held-as-int64"]
OBJECT_KINDS = ["struct", "alias-of-struct", "alias-chain-of-struct", "alias-chain-crossing-packages-of-struct",
                "alias-chain-crossing-packages-of-scalar", "alias-of-enum", "alias-of-constant", "alias-of-array",
                "enum", "scalar", "constant", "array", "map", "disj"]


def judge(ctx, tlc_out, cov):
    summ = os.path.join(ctx.scratch, "c16-sum.json")
    trace = os.path.join(ctx.scratch, "c16-trace.ndjson")
    ctx.run_worker(["c16-replay", "-in", tlc_out, "-trace", trace], stdout_path=summ, timeout=1800)
    s = json.load(open(summ))
    # TLC judges every real result independently (in chunks: a thorough run traces tens of thousands of records)
    recs_n = s["traced"]
    chunks, n = bc.split_file(trace, 3000, ctx, "c16-chunk")
    os.remove(trace)
    if n != recs_n:
        raise core.Inconclusive("trace holds %d records, the worker reported %d" % (n, recs_n))
    trs, nfailed = [], 0
    for path, first in chunks:
        cnt = sum(1 for _ in open(path))
        tr, fails, _notes, consumed = bc.run_trace(ctx, path, bc.EMPTY_TABLES)
        trs.append(tr)
        if consumed != cnt:
            raise core.Inconclusive("BuildersTrace consumed %d of %d records" % (consumed, cnt))
        nfailed += len(fails)
        for i in range(1, cnt + 1):
            go_verdict = s["trace_verdicts"][first - 1 + i - 1]
            tlc_verdict = sorted({v["clause"] for v in fails.get(i, [])})
            if tlc_verdict != sorted(go_verdict):
                raise core.Inconclusive("TLC and the Go comparison disagree on record %d: TLC %s, Go %s" % (first - 1 + i, tlc_verdict, go_verdict))
    for sig, agg in s["signatures"].items():
        ex = agg["examples"][0]
        what = {k: v for k, v in ex.items() if k not in ("S", "real")}
        if isinstance(what.get("case"), dict):
            what["case"] = {k: v for k, v in what["case"].items() if k != "input"}     # the pipeline's input is in the replay file
        ctx.failures.append({"signature": sig, "what": "%s (x%d)" % (json.dumps(what)[:500], agg["count"]),
                             "replay": {"case": ex.get("case"), "S": ex["S"]}})
    cov.setdefault("tlc_trace", []).extend(trs)
    return s, nfailed


def replay(ctx):
    rp = json.load(open(ctx.replay))
    want_sig = rp["signature"]
    ctx.build_worker()
    d = ctx.sub("replay16")
    inp = (rp["replay"].get("case") or {}).get("input") if isinstance(rp["replay"].get("case"), dict) else None
    if inp:
        # a pipeline case: the stored input goes through the real Pipeline.ContextForLanguage again; what it returns is judged
        casep = os.path.join(d, "casep.out")
        open(casep, "w").write(bc.tlc_line("CASEP", inp))
        given = os.path.join(d, "given.ndjson")
        ps = json.loads(ctx.run_worker(["c16-pipeline", "-in", casep, "-out", given]))
        if ps["written"] != 1:
            raise core.Inconclusive("replay: the pipeline did not return a result for the stored input: %s" % ps)
        r = ctx.run_tlc("BuildersGivenMC", "BuildersGivenMC.cfg", workers=1, timeout=600, files={"given.ndjson": given})
        judge(ctx, r["out"], {})
        ctx.failures = [f for f in ctx.failures if f["signature"] == want_sig]
        return ctx.finish("model_checking", {"evaluations": 1, "distinct_nontrivial": 0}, [])
    # Derive(S) and the modes for the stored schema set come from TLC again
    sj = os.path.join(d, "S.json")
    json.dump(rp["replay"]["S"], open(sj, "w"))
    r = ctx.run_tlc("BuildersReplayMC", "BuildersReplayMC.cfg", workers=1, timeout=600, files={"S.json": sj})
    cov = {}
    judge(ctx, r["out"], cov)
    ctx.failures = [f for f in ctx.failures if f["signature"] == want_sig]
    return ctx.finish("model_checking", {"evaluations": 1, "distinct_nontrivial": 0}, [])


DEEP_OBJECT_KINDS = ["alias-chain-crossing-packages-of-constant", "alias-chain-crossing-packages-of-enum", "alias-chain-crossing-packages-of-inter",
                     "alias-chain-of-disj", "alias-of-inter", "inter"]
DEEP_FIELD_KINDS = ["ref-to-constant-via-alias-crossing-packages", "ref-to-scalar+default", "ref-to-array", "slot+nullable", "struct+nullable",
                    "map+default", "array+default", "scalar+constraints+default", "constant_ref+nullable", "ref-to-inter", "ref-to-disj+nullable"]


def gate(ctx, msg):
    """A vacuity / self-test problem makes the run inconclusive - unless violations were observed: those are reported first."""
    if ctx.failures:
        ctx.notes.append("GATE (not fatal, violations were observed): " + msg)
    else:
        raise core.Inconclusive(msg)


def merge(total, s):
    for k in ("cases", "matched", "out_of_scope", "traced"):
        total[k] = total.get(k, 0) + s[k]
    for k in ("per_field_kind", "per_mode", "per_object_kind", "observations_for_other_properties"):
        d = total.setdefault(k, {})
        for kk, v in s[k].items():
            d[kk] = d.get(kk, 0) + v
    total.setdefault("samples", [])
    total["samples"] += s["samples"] or []


def cycles_isolated(ctx, tlc_out, cov):
    """Alias cycles: the real resolution recurses without end on them, which kills the process (not a recoverable panic).
    Run them in a process of their own with a small stack; a crash is a C04-style observation, not a C16 verdict."""
    import subprocess
    summ = os.path.join(ctx.scratch, "c16-cycles.json")
    with open(summ, "wb") as fo:
        p = subprocess.run([ctx.worker, "c16-replay", "-in", tlc_out, "-maxstack-mb", "64"], stdout=fo, stderr=subprocess.PIPE,
                           env=ctx.goenv(), timeout=600)
    err = p.stderr.decode(errors="replace")
    if p.returncode != 0 and ("stack exceeds" in err or "stack overflow" in err):
        cov["alias_cycles"] = "3 schema sets with alias cycles run in an isolated process: FromAST does not terminate (goroutine stack exhausted); not judged"
        cov.setdefault("observations_for_other_properties", {})["C04/BuilderGenerator.FromAST/fatal-stack-overflow/alias-cycle"] = 1
        return None
    if p.returncode != 0:
        raise core.Inconclusive("isolated cycle run failed: %s" % err[-400:])
    s = json.load(open(summ))
    cov["alias_cycles"] = "3 schema sets with alias cycles: FromAST terminated; judged like the others"
    for sig, agg in s["signatures"].items():
        ex = agg["examples"][0]
        ctx.failures.append({"signature": sig, "what": "%s (x%d)" % (json.dumps({k: v for k, v in ex.items() if k not in ("S", "real")})[:500], agg["count"]),
                             "replay": {"case": ex.get("case"), "S": ex["S"]}})
    return s


def run(ctx):
    if ctx.replay:
        return replay(ctx)
    quick = ctx.quick()
    ctx.build_worker()
    cov, total, tlcs = {}, {}, []
    tlc_failed = 0
    consts = {"NSlices": NSLICES, "Slice": ctx.seed % NSLICES} if quick else {"NSlices": 1, "Slice": 0}
    universes = [("pairs", "BuildersMC", "BuildersMC16.cfg", consts, None, 8)]
    if not quick:
        universes += [
            ("chains", "BuildersDeepMC", "BuildersDeepMC.cfg", {"Mode": '"chains"'}, None, 8),
            ("fields", "BuildersDeepMC", "BuildersDeepMC.cfg", {"Mode": '"fields"'}, None, 8),
            # seeded random walks (num is per worker): every successor of every visited schema set is a case
            ("walk", "BuildersDeepMC", "BuildersDeepMC.cfg", {"Mode": '"walk"', "MaxObjs": 5}, "num=6", 4),
        ]
    per_universe = {}
    for name, module, cfg, cs, sim, workers in universes:
        r = ctx.run_tlc(module, cfg, workers=workers, timeout=2400, constants=cs, simulate=sim, depth=7 if sim else None)
        tlcs.append(r)
        s, nf = judge(ctx, r["out"], cov)
        os.remove(r["out"])
        if not sim and s["cases"] != r["distinct"]:
            raise core.Inconclusive("worker replayed %d cases for %d TLC states (%s)" % (s["cases"], r["distinct"], name))
        tlc_failed += nf
        merge(total, s)
        per_universe[name] = {"cases": s["cases"], "judged": s["cases"] - s["out_of_scope"]}
    # the pipeline's own derivation: ContextForLanguage(language passes + final passes) must return builders that are
    # the derivation of the schemas it returns
    r = ctx.run_tlc("BuildersDeepMC", "BuildersDeepMC.cfg", workers=4, timeout=600, constants={"Mode": '"pipeline"'})
    tlcs.append(r)
    given = os.path.join(ctx.scratch, "c16-given.ndjson")
    ps = json.loads(ctx.run_worker(["c16-pipeline", "-in", r["out"], "-out", given]))
    if ps["written"] == 0 or ps["written"] + ps["rejected"] != r["distinct"]:
        raise core.Inconclusive("pipeline universe: %s for %d TLC states" % (ps, r["distinct"]))
    # schemas as the real loaders produce them (JSON Schema, CUE): references to / in-place constants of every scalar kind the
    # loaders yield, held in the Go types the loaders give them; judged like the pipeline's results (they carry their builders)
    loaded = os.path.join(ctx.scratch, "c16-loaded.ndjson")
    ls = json.loads(ctx.run_worker(["c16-loaded", "-out", loaded]))
    if ls["written"] != 2:
        gate(ctx, "loaded universe: the real loaders did not return the two schemas: %s" % ls)
    with open(given, "a") as fo:
        fo.write(open(loaded).read())
    r2 = ctx.run_tlc("BuildersGivenMC", "BuildersGivenMC.cfg", workers=1, timeout=900, files={"given.ndjson": given})
    tlcs.append(r2)
    s, nf = judge(ctx, r2["out"], cov)
    tlc_failed += nf
    merge(total, s)
    per_universe["pipeline"] = {"cases": ps["cases"], "judged": s["cases"] - ls["written"], "rejected_by_pipeline": ps["rejected"]}
    per_universe["loaded"] = {"cases": 2, "judged": ls["written"]}
    for k, v in ps["observations"].items():
        total["observations_for_other_properties"][k] = total["observations_for_other_properties"].get(k, 0) + v
    if not quick:
        r = ctx.run_tlc("BuildersDeepMC", "BuildersDeepMC.cfg", workers=1, timeout=600, constants={"Mode": '"cycles"'})
        tlcs.append(r)
        cycles_isolated(ctx, r["out"], cov)
    s = total
    # vacuity: every way of covering a field, every field kind and every object kind was exercised on real code
    missing = [m for m in MODES if s["per_mode"].get(m, 0) == 0]
    missing += [k for k in FIELD_KINDS + ([] if quick else DEEP_FIELD_KINDS) if s["per_field_kind"].get(k, 0) == 0]
    missing += [k for k in OBJECT_KINDS + ([] if quick else DEEP_OBJECT_KINDS) if s["per_object_kind"].get(k, 0) == 0]
    if missing:
        gate(ctx, "never exercised: %s" % missing)
    try:
        binding = selftest(ctx)
    except core.Inconclusive as e:
        gate(ctx, str(e))
        binding = "not established: %s" % e
    trs = cov.pop("tlc_trace")
    judged = s["cases"] - s["out_of_scope"]
    fields = sum(s["per_field_kind"].values())
    obs = dict(s["observations_for_other_properties"])
    obs.update(cov.pop("observations_for_other_properties", {}))
    cov.update({
        "states": sum(r["distinct"] for r in tlcs + trs),
        "transitions": sum(r["generated"] for r in tlcs + trs),
        "traces_validated_against_impl": s["traced"] - tlc_failed,
        "exhaustive": True,
        "evaluations": s["cases"],
        "distinct_nontrivial": judged,
        "rule": "one evaluation = one schema set (a TLC state) on which the real BuilderGenerator.FromAST ran and was compared, conjunct by "
                "conjunct, with Derive(S), and whose real result was judged again by TLC (C16Violated). Universe 'pairs': object Main with one "
                "field kind or an ordered pair of two of 39 field kinds x 7 surroundings (plain; alias chains whose second hop crosses into a "
                "loaded second package next to same-named objects of another kind; aliases of structs / alias chains / aliases of enums and "
                "constants declared before their targets; non-struct objects; second package not loaded; alias of an unloaded object), next to "
                "object Fixed in every set: required references to / in-place constants of kinds float64, uint8, float32, int32, bool, int64, "
                "string whose value is held in the Go type the loaders produce (int64 in a float64, int in an int32 ...) or is falsy%s. "
                "Universe 'pipeline': 4 schema sets (one package; two packages; three packages with structs written in place in each, "
                "declared in both orders) x 7 lists of final passes (prefix_objects_names, retype_field, omit, rename_object, omit_fields) x 5 "
                "languages through the real codegen.Pipeline.ContextForLanguage: the builders it returns against the schemas it returns, "
                "one builder per object (an object is identified by its own reference). Universe 'loaded': a JSON Schema and a CUE text "
                "with required references to / in-place constants (number, integer, boolean, string; zero, false; through an alias) through "
                "the real loaders, then the real FromAST: binds the value representations the other universes state to the loaders. "
                "Non-trivial = judged (schema sets with a dangling object-level alias make FromAST panic and are out of scope: C05 guarantees "
                "resolvable references)" % (
                    "" if quick else "; thorough adds 'chains' (reference chains of 1..4 hops over three packages, third loaded or not, hop names "
                    "plain / letter-case variants / identical across packages, 10 terminal kinds, decoys of another kind under the same or a "
                    "case-variant name, a twin alias, a struct referring to the chain head as required / optional / array / map), 'fields' (33 base "
                    "field types x required x nullable x default x constraints x 4 schema metadata / struct hint settings), 'walk' (tlc -simulate "
                    "seeded by --seed: schema sets grown to 5 objects from {Foo,foo,FOO,Bar} x {p,q,r} x 40 type templates, every successor a "
                    "case) and 'cycles' (alias cycles, isolated process)"),
        "per_universe": per_universe,
        "fields_judged": fields,
        "per_field_kind": s["per_field_kind"], "per_mode": s["per_mode"], "per_object_kind": s["per_object_kind"],
        "out_of_scope": s["out_of_scope"],
        "observations_for_other_properties": obs,
        "binding_selftest": binding,
        "samples": (s["samples"] or [])[:2] or [{"note": "no sample drawn"}],
        "checker_cmd": "tlc BuildersMC/BuildersMC16.cfg (%s)%s; worker c16-replay; tlc BuildersTrace" % (
            "pairs slice %d/%d" % (ctx.seed % NSLICES, NSLICES) if quick else "all pairs",
            "" if quick else "; tlc BuildersDeepMC chains, fields, cycles; tlc -simulate BuildersDeepMC walk -seed %d" % ctx.seed),
    })
    return ctx.finish("model_checking", cov, [
        "reading rule: an optional (not required or nullable) reference to a constant may be an option or a constructor constant",
        "comments and the order of builders/options are not compared (the property does not mention them)",
        "references are followed through at most 8 aliases",
        "objects whose type is an intersection, a disjunction, an array ... are not structs (no builder), whatever they are composed of",
    ])


def selftest(ctx):
    """A genuine derive record is accepted in Strict mode; the same record with one option default removed is rejected."""
    S = [{"pkg": "p", "meta": {"kind": "", "variant": "", "id": ""}, "entry": "", "entrytype": {"k": "none"},
          "objects": [{"name": "Main", "comments": [], "selfpkg": "p", "selfname": "Main",
                       "type": {"k": "struct", "nullable": False, "def": {"t": "nil", "s": ""}, "hints": [],
                                "fields": [{"name": "sd", "required": True, "comments": [],
                                            "type": {"k": "scalar", "nullable": False, "def": {"t": "string", "s": "dflt"}, "hints": [],
                                                     "sk": "string", "val": {"t": "nil", "s": ""}, "cons": []}}]}}]}]
    d = ctx.sub("selftest16")
    one = os.path.join(d, "one.out")
    # derive with the real code, then corrupt the record
    ft = S[0]["objects"][0]["type"]["fields"][0]["type"]
    arg = {"name": "sd", "type": ft}
    good_b = [{"pkg": "p", "name": "Main", "for": S[0]["objects"][0], "props": [], "factories": [],
               "ctor": {"args": [], "assigns": []},
               "options": [{"name": "sd", "comments": [], "args": [arg], "def": {"set": True, "vals": [{"t": "string", "s": "dflt"}]},
                            "assigns": [{"path": [{"id": "sd", "type": ft, "index": {"k": "none"}, "hint": {"k": "none"}, "root": False}],
                                         "value": {"k": "arg", "arg": arg}, "method": "direct", "cons": [], "nilchecks": []}]}]}]
    # the hand-written record is what the property demands for this schema; the real derivation of the same
    # schema is used for the projection round-trip only (a defective derivation must not hide behind the self-test)
    open(one, "w").write(bc.tlc_line("CASE16", {"case": {"fields": [], "variant": 0}, "S": S, "expect": good_b,
                                               "modes": [{"pkg": "p", "name": "Main", "fields": [{"name": "sd", "mode": "option"}]}]}))
    summ = os.path.join(d, "sum.json")
    trace = os.path.join(d, "t.ndjson")
    ctx.run_worker(["c16-replay", "-in", one, "-trace", trace], stdout_path=summ)
    real = json.loads(open(trace).read())
    rec = {"kind": "derive", "S": S, "B": good_b}
    bad = json.loads(json.dumps(rec))
    bad["B"][0]["options"][0]["def"] = {"set": False, "vals": []}
    res = {}
    for name, r in (("good", rec), ("bad", bad)):
        t = os.path.join(d, name + ".ndjson")
        open(t, "w").write(json.dumps(r) + "\n")
        out, _f, _n, _c = bc.run_trace(ctx, t, bc.EMPTY_TABLES, strict=True, allow_violation=True, timeout=300)
        res[name] = out["violated"]
    if res["good"] or not res["bad"]:
        raise core.Inconclusive("binding self-test failed: good rejected=%s bad rejected=%s" % (res["good"], res["bad"]))
    # the builders projection round-trips on a real result
    rt = os.path.join(d, "rt.ndjson")
    open(rt, "w").write(json.dumps(real["B"]) + "\n" + json.dumps(good_b) + "\n")
    ctx.run_worker(["builders-selftest"], stdin_path=rt)
    return "BuildersTrace(Strict) accepts the derivation the property demands and rejects it with one option default removed; builders projection round-trips"
