"""C07-only corpus entries: builder transformations whose RESULT depends on the schemas they are applied to.

The entries of pipeline_common (veneers, veneerparams) only assign through one-element paths of types every language chain
leaves alone (arrays, required scalars): a rule - or a builder post-processing step - that keeps something from one
application to the next (from one language to the following one, from one builder / package to the following one) gives the
same files there whatever it kept. Here every configured rule resolves PATHS against the language's own schemas:

  * fields the language chains type differently: an optional scalar and an optional reference (nullable in Go / Java / PHP /
    Python, plain in TypeScript), an anonymous struct (named by the Go / Java / PHP / Python chains, kept inline by TypeScript);
  * nested paths (`options.mode`, `options.options.max`, `fieldConfig.defaults.unit`): every intermediate step is a guard
    (`if x.options == nil {...}`) in the constructor (initialize, promote_options_to_constructor) or in an option (add_option,
    merge_into);
  * the SAME shape in every package (`twin packages`): whatever is recorded under a builder-relative or package-relative name
    for one package collides with the next one - alphabetically before, between and after the packages that stay.

One entry = one pipeline over a chosen list of these packages (the veneer files of ALL of them are always configured: only
the inputs change, as in "adding an input"); the inputs are the unit the clauses of PipelineTrace speak about.
"""
import json
import os

from checks import pipeline_common as pc

TWINS = ["alpha", "beta", "delta", "gamma"]       # alphabetical: what Consolidate orders packages by
TWIN_FORMAT = {"alpha": "jsonschema", "beta": "openapi", "delta": "cue", "gamma": "jsonschema"}


def _twin_objects():
    """Chart -> Settings -> Limits, every step optional and called `options` (so the builder-relative paths of Chart and
    Settings coincide: options.<leaf>), a second route fieldConfig.defaults, an optional scalar, an anonymous struct."""
    return [
        ("Chart", "struct", [("name", "string", True, None), ("title", "string", False, None), ("options", ("ref", "Settings"), False, None),
                             ("fieldConfig", ("ref", "FieldConfig"), False, None),
                             ("style", ("struct", [("width", "int", False, None), ("dash", "string", False, None)]), False, None),
                             ("tags", ("array", "string"), False, None)]),
        ("FieldConfig", "struct", [("defaults", ("ref", "Settings"), False, None), ("unit", "string", False, None)]),
        ("Limits", "struct", [("max", "int", False, None), ("min", "int", False, None)]),
        ("Settings", "struct", [("mode", "string", True, None), ("unit", "string", False, None), ("options", ("ref", "Limits"), False, None)]),
    ]


STRING_T = {"kind": "scalar", "scalar": {"scalar_kind": "string"}}
INT_T = {"kind": "scalar", "scalar": {"scalar_kind": "int64"}}


def _arg(name, t):
    return {"name": name, "type": t}


def _add_option(obj, name, path, t):
    return {"add_option": {"by_object": obj, "option": {"name": name, "arguments": [_arg(name, t)], "assignments": [
        {"path": path, "method": "direct", "value": {"argument": _arg(name, t)}}]}}}


def twin_veneers(pkg):
    """The builder rules of one twin package, every one of them for all languages."""
    return {"language": "all", "package": pkg, "builders": [
        # constructor assignments through nullable intermediates
        {"initialize": {"by_object": "Chart", "set": [{"property": "options.mode", "value": "lines"},
                                                      {"property": "fieldConfig.defaults.unit", "value": "short"}]}},
        {"initialize": {"by_object": "Settings", "set": [{"property": "options.max", "value": 10}]}},
        {"initialize": {"by_object": "FieldConfig", "set": [{"property": "defaults.mode", "value": "auto"}]}},
        # options whose paths the rule resolves itself: an optional scalar, nested references, an anonymous struct
        _add_option("Chart", "heading", "title", STRING_T),
        _add_option("Chart", "dash", "style.dash", STRING_T),
        _add_option("Chart", "defaultUnit", "fieldConfig.defaults.unit", STRING_T),
        _add_option("Chart", "mode", "options.mode", STRING_T),
        _add_option("FieldConfig", "mode", "defaults.mode", STRING_T),
        _add_option("Settings", "max", "options.max", INT_T),
        # options of another builder moved under a path
        {"merge_into": {"destination": "Chart", "source": "FieldConfig", "under_path": "fieldConfig", "exclude_options": ["mode"],
                        "rename_options": {"unit": "fieldUnit", "defaults": "fieldDefaults"}}},
        # the same object twice: what a rule keeps `per object` is shared by both builders
        {"duplicate": {"by_object": "Settings", "as": "SettingsCopy", "exclude_options": []}},
    ]}


def twins_entry(base, name="twins", langs=None, pkgs=None):
    d = os.path.join(base, name)
    os.makedirs(d)
    pkgs = list(pkgs or ["alpha", "beta"])
    inputs = []
    for k, p in enumerate(pkgs):
        inputs.append(pc.write_input(d, {"pkg": p, "objects": _twin_objects()}, TWIN_FORMAT[p], tag="in_" + p))
    for p in TWINS:     # the configuration does not change with the inputs
        pc._write(os.path.join(d, "veneers", p + ".yaml"), pc.yaml_dump(twin_veneers(p)))
    langs = list(langs or pc.LANGS)
    y = pc.write_pipeline(d, "pipeline", inputs, langs, types=True, builders=True, converters=False, api_reference=False,
                          veneers=["%__config_dir%/veneers"])
    return {"id": name, "yaml": y, "inspect": False, "outdir": "out", "langs": langs, "pkgs": pkgs, "inputs": ["entry:twins/" + p for p in pkgs],
            "features": {"pkgs": len(pkgs)}, "flags": {}, "source": "twins"}


C07_ENTRIES = {"twins": twins_entry}
