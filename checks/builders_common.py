"""Shared pieces of C16 and C17: running BuildersTrace.tla over records of REAL behaviour.

  trace record {kind:"derive", S, B}                  judged by C16Violated(S, B)
  trace record {kind:"step", s, pre, rule, post, err} judged by StepViolated(S, pre, rule, post)
"""
import json
import os
import re

from vlib import core

EMPTY_TABLES = {"fold": {"p": "p"}, "singular": {"tags": "tag"}, "lcamel": {"Inner": "inner"}, "schemas": []}


def run_trace(ctx, trace_path, tables, strict=False, allow_violation=False, timeout=2400):
    """Returns (tlc result, {record number: [violated...]}, {record number: note}, consumed)."""
    d = ctx.sub("tables")
    tp = os.path.join(d, "tables.json")
    if isinstance(tables, str):
        tp = tables
    else:
        json.dump(tables, open(tp, "w"))
    r = ctx.run_tlc("BuildersTrace", "BuildersTrace.cfg", workers=1, timeout=timeout,
                    files={"trace.ndjson": trace_path, "tables.json": tp},
                    constants={"Strict": "TRUE"} if strict else None, allow_violation=allow_violation)
    fails, notes = {}, {}
    for f in core.tagged_lines(r["out"], "FAIL"):
        fails[f["l"]] = f["violated"]
    for f in core.tagged_lines(r["out"], "NOTE"):
        notes[f["l"]] = f
    consumed = ints(r["out"], "CONSUMED")
    return r, fails, notes, (consumed[-1] if consumed else 0)


def ints(path, tag):
    res = []
    pat = re.compile(r'^<<"%s", (\d+)>>' % tag)
    with open(path, errors="replace") as f:
        for line in f:
            m = pat.match(line)
            if m:
                res.append(int(m.group(1)))
    return res


def split_file(path, nlines, ctx, stem):
    """Cut an ndjson file into chunks of at most nlines records; returns [(path, first_record_number)]."""
    out = []
    n = 0
    cur = None
    with open(path) as f:
        for line in f:
            if n % nlines == 0:
                if cur:
                    cur.close()
                p = os.path.join(ctx.scratch, "%s-%03d.ndjson" % (stem, len(out)))
                cur = open(p, "w")
                out.append((p, n + 1))
            cur.write(line)
            n += 1
    if cur:
        cur.close()
    return out, n


def tlc_line(tag, obj):
    return '<<"%s", %s>>\n' % (tag, json.dumps(json.dumps(obj, separators=(",", ":"))))
