"""C09 - generated builders (Go, Python).

spec: BuilderMachine.tla (the builder state machine: Init = default object with constructor constants, Call = exactly
      the option's target path(s), nil intermediates with their own constructor defaults, errors of constraint-violating
      arguments / failing nested builders, Build), BuilderMC.tla (catalogue of schemas x builder transformations, call
      sequences of <= 3 options, CASE emission), BuilderTrace.tla (TLC re-runs the machine on every real call sequence,
      starting from the REAL default objects).
real code: cog's pipeline generates Go and Python builders (`builders: true`) for each entry rendered as JSON Schema,
      OpenAPI and CUE; typed glue generated from the generated Go builders lets one driver call option N with a JSON
      argument; nested builder arguments are built from nested call plans; one python3 process does the same on the
      Python builders.
"""
import collections
import json
import zlib
import os
import random

from vlib import core
from checks import semantics_common as sc
from checks import buildermachine_common as bc

CLAUSES = ("exact-target", "constants", "invalid-reported", "valid-accepted", "nested-error")


# ----------------------------------------------------------------------------------------------
# classes for signatures
# ----------------------------------------------------------------------------------------------
def arg_kind(S, t):
    k = t["k"]
    if k == "ref":
        return arg_kind(S, S[t["name"]])
    if k == "nullable":
        return arg_kind(S, t["t"])
    if k == "struct":
        return "builder"
    if k == "dunion":
        return "union-of-builders"
    if k == "union":
        return "union"
    if k in ("arr", "map"):
        inner = arg_kind(S, t["t"])
        name = "array" if k == "arr" else "map"
        if inner in ("builder", "union-of-builders"):
            return "collection-of-" + inner + ("s" if inner == "builder" else "")
        if inner.startswith("collection-of-"):
            return inner
        return name
    if k in ("int", "num", "str", "bool"):
        return "scalar"
    return k


def alias_hops(S, t):
    """references crossed before the type is reached, minus the one every named type needs: > 0 means through an alias"""
    n = 0
    while t["k"] in ("ref", "nullable"):
        if t["k"] == "ref":
            n += 1
            t = S[t["name"]]
        else:
            t = t["t"]
    return max(0, n - 1)


def violated_bounds(t, v):
    out = []
    if t["k"] in ("int", "num") and isinstance(v, (int, float)) and not isinstance(v, bool):
        lo, hi = t["lo"], t["hi"]
        if (lo["b"] == "ge" and not v >= lo["v"]) or (lo["b"] == "gt" and not v > lo["v"]):
            out.append(lo["b"])
        if (hi["b"] == "le" and not v <= hi["v"]) or (hi["b"] == "lt" and not v < hi["v"]):
            out.append(hi["b"])
    elif t["k"] == "str" and isinstance(v, str):
        if t["mn"] != -1 and len(v) < t["mn"]:
            out.append("minLength")
        if t["mx"] != -1 and len(v) > t["mx"]:
            out.append("maxLength")
    return out


IR_OPS = {"ge": ">=", "gt": ">", "le": "<=", "lt": "<", "minLength": "minLength", "maxLength": "maxLength"}


def bound_class(pl, shape, t, v, path):
    """Which bound the value at `path` inside the argument violates, and whether cog's IR (the argument type the
    builder jenny received) still carries that constraint: `ge`, `minLength:not-in-ir`, `ge:not-in-ir[unsigned]`."""
    S = pl.S
    for seg in path:
        t = bc.unwrap(S, t)
        if t["k"] == "arr":
            t = t["t"]
            v = v[int(seg[1:])]
            shape = shape["t"] if shape and shape["k"] == "arr" else None
        elif t["k"] == "map":
            t = t["t"]
            v = v[seg]
            shape = shape["t"] if shape and shape["k"] == "map" else None
        elif t["k"] in ("struct", "dunion"):
            if t["k"] == "dunion":
                r = bc.disc_of(S, t, v)
                t = S[r] if r else S[t["refs"][0]]
            f = bc.field_of(t, seg)
            t = f["t"]
            v = v.get(seg)
            nxt = None
            cands = []
            if shape and shape["k"] == "builder":
                cands = [shape]
            elif shape and shape["k"] == "disj":
                cands = [b for b in shape["branches"] if b["k"] == "builder"]
            for sh in cands:
                irb = bc._ir_by_object(pl.ir, sh["obj"])
                if irb is None:
                    continue
                if irb["disjunction"]:   # go: the union struct; look into its branch builders
                    subs = [bc._ir_by_object(pl.ir, o["args"][0]["shape"].get("obj", "")) for o in irb["options"] if o["args"][0]["shape"]["k"] == "builder"]
                else:
                    subs = [irb]
                for sb in subs:
                    for o in bc.pick_named((sb or {}).get("options", []), seg):
                        if len(o["args"]) == 1:
                            nxt = o["args"][0]["shape"]
            shape = nxt
        else:
            break
    t = bc.unwrap(S, t)
    vb = violated_bounds(t, v)
    if not vb:
        return "unknown-bound"
    b = vb[0]
    if shape is not None and shape.get("k") == "plain" and shape.get("ref"):
        return b + ":through-named-type"     # the argument is typed by a NAMED scalar: the constraint sits on the named type
    if shape is None or shape.get("k") != "plain" or "cons" not in shape:
        return b
    if IR_OPS[b] in shape["cons"]:
        return b
    return "%s:not-in-ir%s" % (b, "[unsigned]" if str(shape.get("sk", "")).startswith("uint") and not str(t.get("w", "")).startswith("uint") else "")


def path_class(entry, path):
    S = entry["S"]
    f = bc.field_of(S["Root"], path[0])
    if len(path) == 1:
        return "field" if f["req"] else "optional-field"
    return "nested-path>%s" % ("required-prefix" if f["req"] else "nullable-prefix")


def call_class(entry, info):
    """method@where/argument kind of one executed call (info from the twin machine)"""
    if info["o"] == 0:
        return "constructor-argument"
    vt = info["vt"]
    while vt["k"] in ("arr", "map") or (vt["k"] == "nullable"):
        vt = vt["t"]
    return "%s@%s/%s%s" % (info["m"], path_class(entry, info["paths"][0]), arg_kind(entry["S"], info["vt"]),
                           "@alias" if alias_hops(entry["S"], vt) else "")


def collection_class(entry, info):
    """for a violation INSIDE a collection argument the optionality of the field is immaterial"""
    return "%s@field/%s" % (info["m"], arg_kind(entry["S"], info["vt"]))


def struct_depth(S, t, path):
    """number of struct levels a path inside an argument crosses"""
    n = 0
    for seg in path:
        t = bc.unwrap(S, t)
        if t["k"] in ("arr", "map"):
            t = t["t"]
        elif t["k"] == "struct":
            n += 1
            f = bc.field_of(t, seg)
            if f is None:
                break
            t = f["t"]
        elif t["k"] == "dunion":
            n += 1
            for r in t["refs"]:
                f = bc.field_of(S[r], seg)
                if f is not None:
                    t = f["t"]
                    break
        else:
            break
    return n


def violation_place(viol):
    """where inside the ARGUMENT the violated constraint sits"""
    if not viol:
        return "none"
    p = viol[0]
    if not p:
        return "top"
    if any(seg.startswith("#") for seg in p):
        return "array-element" if len(p) == 1 else "nested:array-element"
    return "member"


# ----------------------------------------------------------------------------------------------
def select_cases(ctx, cases, quick, n2=150, n3=250):
    rng = random.Random(ctx.seed)
    out = {}
    for k, lst in cases.items():
        if not quick:
            out[k] = lst
            continue
        nopt = lambda c: len([x for x in c["seq"] if x["o"] != 0])
        short = [c for c in lst if nopt(c) <= 1]
        two = [c for c in lst if nopt(c) == 2]
        three = [c for c in lst if nopt(c) == 3]
        rng.shuffle(two)
        rng.shuffle(three)
        out[k] = short + two[:n2] + three[:n3]
    return out


def cross_check_twin(entry, lang, c):
    m = bc.Machine(lang, entry, entry["D"]).run(c["pyseq"])
    ok = bc.same_obj(m.obj, c["pyobj"]) and sorted(set(m.errs)) == sorted(tuple(p) for p in c["errs"]) and \
        m.raised == c["raised"] and [ci["bad"] for ci in m.calls] == c["bad"] and m.fails() == c["fails"] and bc.consts_ok(entry["S"], entry["S"]["Root"], m.obj) == c["consts"]
    if not ok:
        raise core.Inconclusive("python twin and TLC disagree on entry %s (%s) seq %s: twin obj %s errs %s raised %s fails %s; TLC obj %s errs %s raised %s fails %s" % (
            entry["name"], lang, sc.dumps(c["pyseq"]), sc.dumps(m.obj), m.errs, m.raised, m.fails(),
            sc.dumps(c["pyobj"]), c["errs"], c["raised"], c["fails"]))


def run(ctx):
    replay = None
    ids, formats = None, bc.FORMATS
    if ctx.replay:
        replay = json.load(open(ctx.replay))["replay"]
        ids, formats = [replay["entry_id"]], (replay["format"],)
    batch = bc.run_bbatch(ctx, ids=ids, formats=formats, converters=False, c09_only=True)
    if replay and batch.cat[replay["entry_id"]]["schema"] != replay["schema"]:
        raise core.Inconclusive("the catalogue changed: entry %d is no longer the replay's schema" % replay["entry_id"])
    # ---- TLC: the builder machine enumerates call sequences and their expected outcome
    if replay:
        cases = collections.defaultdict(list)
        c = {"id": replay["entry_id"], "lang": replay["lang"], "n": 0, "pyseq": replay["seq"], "replayed": True,
             "seq": [{"o": x["o"], "as": [sc.py_to_jv(a) for a in x["as"]]} for x in replay["seq"]]}
        cases[(c["id"], c["lang"])].append(c)
        deep_ids = []
    elif ctx.quick():
        # quick: every single call of every entry; pairs on a seeded third of the entries; triples on one entry
        cases, _ = bc.emit_cases(ctx, batch.ids, maxlen=1)
        rng = random.Random(ctx.seed)
        order = list(batch.ids)
        rng.shuffle(order)
        runs_go = [i for i in order if any(u["id"] == i and u["status"] == "ok" for u in batch.units.values())]
        deep_ids = sorted((runs_go or order)[:1])          # an entry whose Go package compiles, so that both languages see triples
        # pairs: a seeded third of the entries, the triples' entry, and every entry with an appending / indexing option (where the
        # second call must ADD to what the first one left)
        accum = [i for i in batch.ids if any(a["m"] != "direct" for o in batch.cat[i]["B"]["Root"]["opts"] for a in o["asgs"])]
        pair_ids = sorted(set(order[:max(1, len(order) // 3)]) | set(deep_ids) | set(accum))
        for ids_, ml in ((pair_ids, 2), (deep_ids, 3)):
            # a window of the entry's options (rotating with the seed): 8 for pairs, 5 for triples
            more, _ = bc.emit_cases(ctx, ids_, maxlen=ml, win=5 if ml == 3 else 8, start=ctx.seed)
            for k, lst in more.items():
                have = {sc.dumps(c["pyseq"]) for c in cases[k]}
                cases[k] += [c for c in lst if sc.dumps(c["pyseq"]) not in have]
                for i, c in enumerate(cases[k]):
                    c["n"] = i
    else:
        cases, _ = bc.emit_cases(ctx, batch.ids, maxlen=3)
        deep_ids = list(batch.ids)
    n_tlc_cases = sum(len(v) for v in cases.values())
    sel = select_cases(ctx, cases, ctx.quick() and not replay)
    if not replay:
        for (eid, lang), lst in sel.items():
            for c in lst:
                cross_check_twin(batch.cat[eid], lang, c)
    # ---- real defaults, commands
    D, dproblems = bc.real_defaults(ctx, batch)
    if dproblems:
        core.log("default objects not obtainable:", dproblems[:5])
    go_cmds, py_cmds, index = [], [], {}
    plan_errors = collections.Counter()
    for u in batch.units.values():
        entry = batch.cat[u["id"]]
        for lang in bc.LANGS:
            bound = u["bind"].get(lang) if bc.usable(u, lang) else None
            if not bound or (u["pkg"], lang) not in D or not set(entry["B"]) <= set(D[(u["pkg"], lang)]):
                batch.stats["unit_lang_unbound:" + lang] += 1
                continue
            pl = bc.Planner(entry, u, lang, bound)
            pl1 = bc.Planner(entry, u, lang, bound, variant=1)
            has_ctor_args = bool(entry["B"]["Root"]["ctor"]["args"])
            peers = sorted(x["pkg"] for x in batch.units.values() if x["id"] == u["id"] and bc.usable(x, lang) and x["bind"].get(lang)
                           and (x["pkg"], lang) in D)
            for c in sel.get((u["id"], lang), []):
                if ctx.quick() and not replay and peers[(c["n"] + ctx.seed) % len(peers)] != u["pkg"]:
                    continue   # quick: every selected sequence runs on ONE of the entry's input formats (rotating), thorough: on all
                if not ctx.quick() and not replay and u["fmt"] != "jsonschema" and len([x for x in c["pyseq"] if x["o"] != 0]) > 2 \
                        and any(x["fmt"] == "jsonschema" and x["status"] == "ok" for x in batch.units.values() if x["id"] == u["id"]):
                    continue   # thorough: sequences of 3 calls run on one input format (the builders do not depend on it), shorter ones on all
                if has_ctor_args and not (c["pyseq"] and c["pyseq"][0]["o"] == 0):
                    continue   # the machine's initial state: a constructor with arguments has not been called yet
                try:
                    cmd = pl.root_command("Root", c["pyseq"])
                except bc.BindError as e:
                    plan_errors[str(e)[:120]] += 1
                    continue
                cid = "%s/%s/%d" % (u["pkg"], lang, c["n"])
                cmd["id"], cmd["op"] = cid, "seq"
                (go_cmds if lang == "go" else py_cmds).append(cmd)
                index[cid] = (u, lang, c)
                if pl.has_choice:
                    # the same sequence through the duplicated options / copied builders of nested plans
                    pl.has_choice = False
                    try:
                        cmd1 = pl1.root_command("Root", c["pyseq"])
                    except bc.BindError as e:
                        plan_errors[str(e)[:120]] += 1
                        continue
                    cid1 = cid + "/v1"
                    cmd1["id"], cmd1["op"] = cid1, "seq"
                    (go_cmds if lang == "go" else py_cmds).append(cmd1)
                    index[cid1] = (u, lang, c)
                    batch.stats["sequences_rerun_through_copies"] += 1
    if plan_errors:
        core.log("call plans that could not be built:", dict(plan_errors))
    gres = bc.run_go(ctx, batch, go_cmds, "seq") if go_cmds else {}
    pres = bc.run_python(ctx, batch, py_cmds, "seq") if py_cmds else {}
    # ---- judge every real run with the twin on the REAL defaults; record it for TLC
    tdir = ctx.sub("trace-c09")
    tpath = os.path.join(tdir, "trace.ndjson")
    tf = open(tpath, "w")
    entries_idx, entries, defaults_idx, defaults = {}, [], {}, []
    records = []      # (cid, violated set, fail descriptors)
    harness_errs = collections.Counter()
    cnt = collections.Counter()
    samples = []
    # ---- the generated constructors themselves: a crash is a violation; the fresh builder's object must be the TYPE's own default
    #      object plus what the builder's constructor is told to set (constants are in both; `initialize` veneers)
    for pkg_, lang_, key_, what_ in getattr(batch, "construction_failures", []):
        u_ = batch.units[pkg_]
        e_ = batch.cat[u_["id"]]
        if not e_["c09"]:
            continue
        ctx.fail("C09/%s/valid-accepted/%s:constructor" % (lang_, "panic" if what_.startswith("panic") else what_.split(":")[0]),
                 "%s: constructing the %s builder of entry %s fails: %s" % (lang_, key_, e_["name"], what_),
                 {"entry_id": u_["id"], "entry": e_["name"], "format": u_["fmt"], "lang": lang_, "schema": e_["schema"], "schema_text": u_.get("text"),
                  "veneers": u_.get("veneers"), "seq": [], "builder": key_, "real": what_})
    fresh_records = []
    for (pkg_, lang_), tds in sorted(getattr(batch, "type_defaults", {}).items()):
        u_ = batch.units[pkg_]
        e_ = batch.cat[u_["id"]]
        if not e_["c09"] or (pkg_, lang_) not in D:
            continue
        for key_, td in sorted(tds.items()):
            if key_ not in e_["B"] or e_["B"][key_]["ctor"]["args"] or key_ not in D[(pkg_, lang_)] or key_ not in e_["S"]:
                continue
            exp = json.loads(json.dumps(td))
            for r_ in e_["rules"]:
                if r_["k"] == "init" and r_["obj"] == key_:
                    ft_ = bc.unwrap(e_["S"], bc.type_at(e_["S"], key_, e_["S"][key_], r_["fields"][1:])[1])
                    exp = bc.apply_at(e_["S"], D[(pkg_, lang_)], key_, e_["S"][key_], exp, r_["fields"][1:], "direct",
                                      bc.const_of_text(ft_, r_["fields"][0]), None)
            fresh = D[(pkg_, lang_)][key_]
            viol = set() if bc.same_obj(exp, fresh) else {"Fresh"}
            try:
                if u_["id"] not in entries_idx:
                    entries.append({"schema": e_["schema"], "builders": e_["builders"], "rules": e_["rules"]})
                    entries_idx[u_["id"]] = len(entries)
                dk_ = (pkg_, lang_)
                if dk_ not in defaults_idx:
                    defaults.append([{"key": k, "obj": sc.py_to_jv(v)} for k, v in sorted(D[dk_].items())])
                    defaults_idx[dk_] = len(defaults)
                tf.write(json.dumps({"kind": "fresh", "ei": entries_idx[u_["id"]], "di": defaults_idx[dk_], "key": key_,
                                     "typeDefault": sc.py_to_jv(td), "fresh": sc.py_to_jv(fresh)}, separators=(",", ":")) + "\n")
            except sc.NotInUniverse:
                continue
            fresh_records.append(("%s/%s/%s" % (pkg_, lang_, key_), viol))
            cnt["fresh_builders_compared_with_the_type_default"] += 1
            if viol:
                d_ = sc.first_diff(_strip(exp), _strip(fresh))
                ctx.fail("C09/%s/constants/fresh-builder-differs-from-default-object:%s" % (lang_, (d_[1] if d_ else "changed")),
                         "%s: the freshly constructed %s builder holds %s, the default object (plus the constructor's own assignments) is %s"
                         % (lang_, key_, sc.dumps(fresh), sc.dumps(exp)),
                         {"entry_id": u_["id"], "entry": e_["name"], "format": u_["fmt"], "lang": lang_, "schema": e_["schema"], "schema_text": u_.get("text"),
                          "veneers": u_.get("veneers"), "seq": [], "builder": key_, "fresh": fresh, "type_default": td})
    for cid, (u, lang, c) in index.items():
        entry = batch.cat[u["id"]]
        S = entry["S"]
        Dr = D[(u["pkg"], lang)]
        seq = list(c["pyseq"])
        if lang == "go":
            r = gres[cid]
            if r.get("glue_err"):
                if r["glue_err"].startswith("glue: cannot decode"):
                    # The generated parameter type cannot carry this argument value: the (option, value) pair is not expressible
                    # in this unit's API - skipped and counted, never a verdict and never the end of the run. The usual case: the
                    # input format turned `int & >= 0` into an unsigned type (uint64, or a NAMED type over it such as Port) and
                    # the argument is negative.
                    neg = "cannot unmarshal number -" in r["glue_err"]
                    cnt["argument_not_expressible_in_this_api:%s" % ("negative-into-unsigned" if neg else "not-decodable-into-the-parameter-type")] += 1
                    continue
                harness_errs["go: " + r["glue_err"][:100]] += 1
                continue
            n = len(seq)
            real_raised = [False] * n
            has_obj = not r.get("panic")
            kinds = [None] * n
            if r.get("panic"):
                at = r["panic_at"]
                # a panic inside option `at` (the constructor is call -1 when it is not part of the sequence)
                offs = 1 if (seq and seq[0]["o"] == 0) else 0
                i = min(max(at + offs, 0), n - 1) if n else 0
                if n:
                    real_raised[i] = True
                    kinds[i] = "panic"
            real_obj = r.get("peek") if has_obj else None
            has_built = has_obj and r.get("built") is not None
            built = r.get("built") if has_built else None
            real_fails = has_obj and r.get("build_err") is not None
            raw = {"build_err": r.get("build_err"), "errors_map_keys": r.get("errs"), "panic": r.get("panic")}
            unstable = [k for k, bad_ in (("second-build-differs", r.get("build2_same") is False),
                                          ("second-builder-differs", r.get("again_same") is False),
                                          ("fresh-object-drifts", has_obj and r.get("fresh_same") is False)) if bad_]
            if unstable:
                raw["again_diff"] = r.get("again_diff")
        else:
            r = pres[cid]
            if r.get("harness_err"):
                harness_errs["python: " + r["harness_err"][:100]] += 1
                continue
            if r["aborted"]:
                seq = seq[:1]
            real_raised = [x is not None for x in r["raised"]]
            kinds = r["kinds"]
            if len(real_raised) != len(seq):
                harness_errs["python: %d outcomes for %d calls" % (len(real_raised), len(seq))] += 1
                continue
            has_obj = bool(r["has_enc"])
            real_obj = r["enc"] if has_obj else None
            has_built, built = False, None
            real_fails = (not r["aborted"]) and r.get("enc_err") is not None
            if real_fails:
                has_obj = True   # build() raised: the Build verdict is observable, the object is not
                real_obj = None
            raw = {"raised": r["raised"], "build_error": r.get("enc_err")}
            unstable = [k for k, bad_ in (("second-build-differs", r.get("build2_same") is False),
                                          ("second-builder-differs", r.get("again_same") is False),
                                          ("fresh-object-drifts", r.get("fresh_same") is False)) if bad_]
            if unstable:
                raw["again_diff"] = r.get("again_diff")
        m = bc.Machine(lang, entry, Dr).run(seq)
        exp_fails = m.fails()
        judge_build = not m.ambiguous()
        obj_ok = bool(has_obj and real_obj is not None)
        violated = set()
        descr = {}
        # NotReported / SpuriousError
        for i, (e, x) in enumerate(zip(m.raised, real_raised)):
            if e and not x and "NotReported" not in violated:
                violated.add("NotReported")
                descr["NotReported"] = ("call", i)
            if x and not e and "SpuriousError" not in violated:
                violated.add("SpuriousError")
                descr["SpuriousError"] = ("call", i)
        if judge_build and has_obj:
            if exp_fails and not real_fails:
                violated.add("NotReported")
                descr.setdefault("NotReported", ("build", None))
            if real_fails and not exp_fails:
                violated.add("SpuriousError")
                descr.setdefault("SpuriousError", ("build", None))
        same_raised = m.raised == real_raised
        all_good = not any(ci["bad"] for ci in m.calls)
        if obj_ok and same_raised and all_good:
            if not bc.same_obj(real_obj, m.obj) or (has_built and not bc.same_obj(built, m.obj)):
                violated.add("Exact")
        if obj_ok and not bc.consts_ok(S, S["Root"], real_obj):
            violated.add("Consts")
        if unstable:
            violated.add("Stable")
            descr["Stable"] = unstable[0]
        # ---- trace record
        if u["id"] not in entries_idx:
            entries.append({"schema": entry["schema"], "builders": entry["builders"], "rules": entry["rules"]})
            entries_idx[u["id"]] = len(entries)
        dk = (u["pkg"], lang)
        if dk not in defaults_idx:
            defaults.append([{"key": k, "obj": sc.py_to_jv(v)} for k, v in sorted(Dr.items())])
            defaults_idx[dk] = len(defaults)
        try:
            rec = {"kind": "seq", "ei": entries_idx[u["id"]], "di": defaults_idx[dk], "lang": lang, "cid": cid,
                   "seq": [{"o": x["o"], "as": [sc.py_to_jv(a) for a in x["as"]]} for x in seq],
                   "judge": {"build": judge_build},
                   "real": {"obj": sc.py_to_jv(real_obj) if obj_ok else {"j": "none"}, "hasObj": obj_ok, "hasVerdict": bool(has_obj),
                            "built": sc.py_to_jv(built) if has_built else {"j": "none"}, "hasBuilt": bool(has_built),
                            "fails": bool(real_fails), "raised": real_raised, "stable": not unstable}}
        except sc.NotInUniverse:
            cnt["outside_number_universe"] += 1
            continue
        tf.write(json.dumps(rec, separators=(",", ":")) + "\n")
        records.append((cid, violated, descr, m, real_obj, built, real_raised, kinds, real_fails, raw, seq))
    tf.close()
    if not records:
        raise core.Inconclusive("no call sequence was executed")
    # ---- TLC recomputes every verdict from the real defaults and the real outcomes
    ep, dp = os.path.join(tdir, "entries.json"), os.path.join(tdir, "defaults.json")
    json.dump(entries, open(ep, "w"))
    json.dump(defaults, open(dp, "w"))
    tr = ctx.run_tlc("BuilderTrace", "BuilderTrace.cfg", workers=1, timeout=3000,
                     files={"trace.ndjson": tpath, "entries.json": ep, "defaults.json": dp}, constants={"Strict": "FALSE"})
    consumed = None
    for line in open(tr["out"], errors="replace"):
        if line.startswith('<<"CONSUMED", '):
            consumed = int(line[len('<<"CONSUMED", '):].split(">>")[0])
    nfresh = len(fresh_records)
    if consumed != len(records) + nfresh:
        raise core.Inconclusive("BuilderTrace consumed %s of %d records" % (consumed, len(records) + nfresh))
    tlc_viol = {f["l"] - 1: set(f["violated"]) for f in core.tagged_lines(tr["out"], "FAIL")}
    agree = 0
    disagree = []
    for i, (fid, fv) in enumerate(fresh_records):
        if tlc_viol.get(i, set()) != fv:
            disagree.append("%s (fresh builder): TLC %s, python %s" % (fid, sorted(tlc_viol.get(i, set())), sorted(fv)))
        elif not fv:
            agree += 1
    for i, rec in enumerate(records):
        tv = tlc_viol.get(i + nfresh, set())
        if tv != rec[1]:
            disagree.append("%s (seq %s): TLC %s, python %s" % (rec[0], sc.dumps(rec[10]), sorted(tv), sorted(rec[1])))
            rec[1].clear()       # no verdict from a record the two judges do not agree on
        elif not tv:
            agree += 1
    # ---- failures with signatures, coverage counters
    per = collections.Counter()
    for cid, violated, descr, m, real_obj, built, real_raised, kinds, real_fails, raw, seq in records:
        u, lang, c = index[cid]
        entry = batch.cat[u["id"]]
        S = entry["S"]
        nopt = len([x for x in seq if x["o"] != 0])
        # vacuity counters (what this run exercised, independent of the verdict)
        for ci in m.calls:
            if ci["bad"] and ci["nested"]:
                per[lang + ":nested-error"] += 1
            elif ci["bad"]:
                per[lang + ":invalid-reported"] += 1
            else:
                per[lang + ":valid-accepted"] += 1
                if ci["o"] != 0:
                    per["%s:exact-target:%s" % (lang, ci["m"])] += 1
                    if len(ci["paths"][0]) > 1:
                        per[lang + ":exact-target:nested-path"] += 1
                        if not bc.field_of(S["Root"], ci["paths"][0][0])["req"]:
                            per[lang + ":exact-target:nil-intermediate"] += 1
                    if bc.is_builder_arg(S, ci["vt"]):
                        per[lang + ":exact-target:nested-builder"] += 1
        if m.raised == real_raised and real_obj is not None and not any(ci["bad"] for ci in m.calls):
            per[lang + ":exact-target"] += 1
            if nopt == 1:
                per[lang + ":exact-target:single-option"] += 1
            per[lang + ":constants"] += 1
        per["%s:len%d" % (lang, nopt)] += 1
        if not violated:
            if len(samples) < 4 and nopt >= 1 and (zlib.crc32(cid.encode()) + ctx.seed) % 97 == 0:
                samples.append({"package": u["pkg"], "language": lang, "entry": entry["name"], "sequence": seq, "expected_object": m.obj,
                                "real_object": real_obj, "expected_build_fails": m.fails(), "real": raw})
            continue
        base_replay = {"entry_id": u["id"], "entry": entry["name"], "format": u["fmt"], "lang": lang, "schema": entry["schema"],
                       "schema_text": u["text"], "veneers": u.get("veneers"), "seq": seq,
                       "calls": [dict(option=(entry["B"]["Root"]["opts"][x["o"] - 1]["name"] if x["o"] else "<constructor>"), args=x["as"]) for x in seq],
                       "expected": {"object": m.obj, "nested_builder_errors": [list(p) for p in m.errs], "raised": m.raised, "build_fails": m.fails()},
                       "real": dict(raw, object=real_obj, built=built, raised=real_raised, build_fails=real_fails),
                       "default_object": D[(u["pkg"], lang)]["Root"]}
        primary = [v for v in ("SpuriousError", "NotReported", "Exact", "Consts", "Stable") if v in violated][0]
        if primary == "Stable":
            ctx.fail("C09/%s/exact-target/%s" % (lang, descr["Stable"]),
                     "%s: after %s: %s (a second Build(), the same calls on a second fresh builder and every freshly constructed object "
                     "must give what the first ones gave)" % (lang, sc.dumps(base_replay["calls"]), raw),
                     base_replay)
            continue
        if primary == "NotReported":
            where, i = descr["NotReported"]
            if where == "call":
                ci = m.calls[i]
            else:
                # Build() must fail: because of a failed nested builder, or because of a violation that is still in the final object
                final = bc.validate_errs(S, S["Root"], m.obj)
                nested = [x for x in m.calls if x["bad"] and x["nested"]]
                still = [x for x in m.calls if x["bad"] and not x["nested"] and any(tuple(v[:len(p)]) == tuple(p) for v in final for p in x["paths"])]
                ci = (nested or still[::-1] or [None])[0]
            if ci is None:
                # Build() should fail because of the DEFAULT object (or an earlier state), not because of a call
                sig = "C09/%s/invalid-reported/default-object" % lang
            else:
                x = seq[m.calls.index(ci)]
                a0 = (entry["B"]["Root"]["ctor"]["asgs"] if ci["o"] == 0 else entry["B"]["Root"]["opts"][ci["o"] - 1]["asgs"])
                a0 = [a for a in a0 if tuple(a["path"]) == ci["paths"][-1] and a["src"] > 0][0]
                ir_args = (u["bind"][lang]["Root"]["ir"]["ctor"]["args"] if ci["o"] == 0 else u["bind"][lang]["Root"]["opts"][ci["o"] - 1]["args"])
                argv = x["as"][a0["src"] - 1]
                # go judges the value the nested builders produce (their defaults included), python the argument itself
                judged = bc.built(S, D[(u["pkg"], lang)], bc.type_at(S, "Root", S["Root"], a0["path"])[0], ci["vt"], argv) if lang == "go" else argv
                pos = (a0["src"] - 1) if ci["o"] == 0 else u["bind"][lang]["Root"]["opts"][ci["o"] - 1]["argpos"][a0["src"]]
                bcls = bound_class(bc.Planner(entry, u, lang, u["bind"][lang]), ir_args[pos]["shape"], ci["vt"], judged, ci["violations"][0])
                if "through-named-type" in bcls:
                    # the argument's type is a NAMED constrained scalar: one class whatever the option and the bound
                    sig = "C09/%s/invalid-reported/constraint-through-named-type" % lang
                elif "not-in-ir" in bcls:
                    # the constraint never reached the builder jenny (lost between the source schema and the IR): one class per
                    # lost bound, whatever the option looks like
                    sig = "C09/%s/invalid-reported/constraint-%s" % (lang, bcls)
                elif ci["nested"]:
                    twice = any(struct_depth(S, ci["vt"], p) >= 2 for p in ci["violations"])
                    sig = "C09/%s/nested-error/%s%s%s" % (lang, arg_kind(S, ci["vt"]), ":nested-twice" if twice else "",
                                                          "" if lang == "go" else ":" + bcls)
                else:
                    place = violation_place(ci["violations"])
                    sig = "C09/%s/invalid-reported/%s:%s%s" % (lang, call_class(entry, ci) if place == "top" else collection_class(entry, ci),
                                                               place, ":" + bcls if place == "top" else "")
            what = "%s: %s is not reported (%s); expected %s" % (
                lang, "a failing nested builder" if (ci and ci["nested"]) else "a constraint-violating argument",
                "Build() returned no error" if lang == "go" else "the option call did not raise", sc.dumps(base_replay["expected"]))
        elif primary == "SpuriousError":
            where, i = descr["SpuriousError"]
            if where == "call":
                ci = m.calls[i]
                sig = "C09/%s/valid-accepted/%s:%s" % (lang, kinds[i] or "error", call_class(entry, ci))
                what = "%s: option call %d with a schema-satisfying argument fails: %s" % (lang, i, raw)
            else:
                sig = "C09/%s/valid-accepted/build-error" % lang
                what = "%s: Build() fails although every argument satisfies the schema and the expected object has no violation: %s" % (lang, raw)
        elif primary == "Exact":
            shown = built if (built is not None and bc.same_obj(real_obj, m.obj)) else real_obj
            d = sc.first_diff(_strip(m.obj), _strip(shown))
            dpath, dwhat = d if d else ((), "changed")
            owner = None
            for ci in m.calls:
                for p in ci["paths"]:
                    if tuple(dpath[:len(p)]) == tuple(p):
                        owner = ci
            if owner is not None:
                cls = "%s:%s" % (call_class(entry, owner), dwhat)
            else:
                cls = "non-target-field:%s" % dwhat
            if built is not None and bc.same_obj(real_obj, m.obj):
                cls = "build-result-differs-from-internal:" + cls
            sig = "C09/%s/exact-target/%s" % (lang, cls)
            what = "%s: after %s the object is %s, expected %s (default %s)" % (
                lang, sc.dumps(base_replay["calls"]), sc.dumps(shown), sc.dumps(m.obj), sc.dumps(base_replay["default_object"]))
        else:
            mp = bc.first_missing_const(S, S["Root"], real_obj) or ()
            where = "root" if len(mp) <= 1 else "nested-object"
            sig = "C09/%s/constants/%s" % (lang, where)
            what = "%s: constant at %s missing from %s" % (lang, ".".join(mp), sc.dumps(real_obj))
        ctx.fail(sig, what, base_replay)
    # ---- vacuity
    if not replay:
        need = []
        for lang in bc.LANGS:
            need += [lang + ":" + k for k in ("exact-target", "exact-target:single-option", "exact-target:direct", "exact-target:append", "exact-target:index",
                                               "exact-target:nested-path", "exact-target:nil-intermediate", "exact-target:nested-builder",
                                               "constants", "invalid-reported", "valid-accepted", "nested-error", "len1", "len2", "len3")]
        vac = [k for k in need if per[k] == 0]
        if disagree:
            bc.soft_inconclusive(ctx, "TLC and the python twin disagree on %d record(s), first: %s" % (len(disagree), disagree[0]))
        if harness_errs:
            bc.soft_inconclusive(ctx, "the harness could not drive the generated builders: %s" % dict(harness_errs))
        if vac:
            bc.soft_inconclusive(ctx, "vacuous clauses (never exercised on executable code): %s" % vac)
    binding = None
    if not replay:
        try:
            binding = selftest_binding(ctx, tdir, records, entries, defaults, tpath)
        except core.Inconclusive as e:
            bc.soft_inconclusive(ctx, str(e))
    status = collections.Counter(u["status"] for u in batch.units.values())
    not_exec = collections.Counter()
    for u in batch.units.values():
        if u["status"] != "ok":
            not_exec["%s/%s: %s" % (u["fmt"], u["status"], (u.get("why") or "; ".join(u.get("diagnostics", [])))[:160])] += 1
        for lang, e in (u.get("bind_err") or {}).items():
            not_exec["%s/%s bind: %s" % (u["fmt"], lang, e[:160])] += 1
    cov = {
        "states": sum(r["distinct"] for r in ctx.tlc_runs),
        "transitions": sum(r["generated"] for r in ctx.tlc_runs),
        "traces_validated_against_impl": agree,
        "real_records_validated_by_tlc_trace_spec": len(records),
        "exhaustive": not ctx.quick(),
        "evaluations": len(records),
        "distinct_nontrivial": sum(v for k, v in per.items() if k.endswith((":len1", ":len2", ":len3"))),
        "rule": "one evaluation = one (catalogue entry, input format, language, call sequence) run on the really generated builder: constructor, "
                "<= 3 option calls with TLC's argument values (valid, constraint-violating, failing nested builders), Build(); non-trivial = at "
                "least one option call. TLC states = (entry, language, call sequence) of BuilderMC plus one state per trace record of BuilderTrace",
        "tlc_cases": n_tlc_cases, "cases_selected": sum(len(v) for v in sel.values()),
        "entries": [batch.cat[i]["name"] for i in batch.ids], "entries_with_sequences_of_3": [batch.cat[i]["name"] for i in deep_ids],
        "units": dict(status), "units_not_observed": dict(not_exec), "call_plans_not_buildable": dict(plan_errors),
        "derived_options_missing": sorted({x for u in batch.units.values() for x in u.get("derived_options_missing", [])})[:20],
        "ir_differs_from_derivation": sorted({x for u in batch.units.values() for x in u.get("ir_differs_from_derivation", [])})[:20],
        "cases_skipped": dict(cnt),
        "default_objects_not_obtainable": [list(p) for p in dproblems][:10],
        "per_clause": dict(per), "timing": batch.timing, "binding_selftest": binding,
        "unused_imports_removed": sorted({"%s:%s" % (batch.units[p]["fmt"], i) for p, i in batch.unused_imports_removed}),
        "samples": samples or [{"note": "no sample drawn"}],
        "checker_cmd": "tlc BuilderMC (index, cases); worker c09-gen, c09-glue; go build; bdriver; python3 driver; tlc BuilderTrace",
    }
    assumptions = [
        "bounded universe: the catalogue of spec/BuilderMC.tla (10 schemas x builder transformations: none, struct fields as options / as arguments, array "
        "append, map index, options promoted to constructor arguments; unions, builders nested twice, inline structs, enums, defaults), "
        "sequences of <= 3 option calls; arguments = Semantics!Base and its one-place variants that a typed API can carry (every value for "
        "single calls, a valid / a violating / another valid value for longer sequences)",
        "reading rule (DESIGN 6.0): objects are compared on their encoded JSON, where an absent / null collection and an empty one are one value; "
        "the expected object is the REAL freshly constructed default with exactly the options' assignments applied; an intermediate object "
        "missing on an option's path is created with that type's own REAL default",
        "when Go's Build() returns an error no object is returned: the internal object is then read through a read-only accessor generated "
        "into the package (verif_glue_gen.go); it is also compared with what Build() returns whenever Build() succeeds",
        "Go reports a plain constraint violation from the FINAL object (Validate in Build()): a violating value overwritten later is not "
        "expected to be reported; a failed nested builder whose target is assigned again later is not judged for Build() (counted nowhere else)",
        "the option set (which options exist, their argument counts) is taken from the requirement's derivation in BuilderMC and must be "
        "found in cog's builder IR, otherwise the unit is excluded and listed (C16/C17 own that derivation); the option's TARGET paths are "
        "the derived ones: generated code whose IR carries other paths is judged against the derivation (listed under ir_differs_from_derivation)",
        "packages that cog cannot generate or that do not compile are excluded and counted (units_not_observed): C02/C04's subject",
        "python arguments are passed as decoded JSON values (strings for enum members)",
    ]
    if batch.unused_imports_removed:
        assumptions.append("packages whose only compiler diagnostics were `imported and not used` were recompiled after deleting exactly those import lines")
    # IR half of "nil checks generated for nullable path prefixes" (Builders.tla, NilChecksMC.tla): the real
    # GenerateBuilderNilChecks of every language judged by TLC
    from checks import nilchecks_part
    part = nilchecks_part.run_part(ctx)
    for sig, what, replay, key in part["fails"]:
        ctx.fail(sig, what, replay, key=key)
    cov.update(part["coverage"])
    cov["states"] = cov.get("states", 0) + sum(r["distinct"] for r in part["tlc"])
    cov["transitions"] = cov.get("transitions", 0) + sum(r["generated"] for r in part["tlc"])
    return ctx.finish("model_checking", cov, assumptions + batch.assumptions)


def _strip(v):
    """drop null / empty members so that first_diff points at a real difference (comparison itself is bc.same_obj)"""
    if isinstance(v, dict):
        return {k: _strip(x) for k, x in v.items() if bc.canon(x) is not None}
    if isinstance(v, list):
        return [_strip(x) for x in v]
    return v


def selftest_binding(ctx, tdir, records, entries, defaults, tpath):
    """DESIGN 7 rule 6: a genuine record passes BuilderTrace in Strict mode; the same record with the recorded real object
    corrupted (one target value changed) is rejected."""
    lines = open(os.path.join(tdir, "trace.ndjson")).read().split("\n") if os.path.exists(os.path.join(tdir, "trace.ndjson")) else None
    good = None
    # trace.ndjson was moved into the TLC directory by run_tlc: rebuild the record from `records`
    for cid, violated, descr, m, real_obj, built, real_raised, kinds, real_fails, raw, seq in records:
        if not violated and real_obj is not None and any(x["o"] != 0 for x in seq) and not any(real_raised) and isinstance(real_obj, dict) \
                and not any(ci["bad"] for ci in m.calls):
            good = (cid, m, real_obj, built, real_raised, real_fails, seq)
            if (zlib.crc32(cid.encode()) + ctx.seed) % 13 == 0:
                break
    if good is None:
        raise core.Inconclusive("binding self-test: no clean record to corrupt")
    cid, m, real_obj, built, real_raised, real_fails, seq = good
    res = {}
    for name in ("good", "bad"):
        obj = json.loads(json.dumps(real_obj))
        if name == "bad":
            obj["verif-corrupted"] = 1
        rec = {"kind": "seq", "ei": 1, "di": 1, "lang": m.lang, "cid": cid,
               "seq": [{"o": x["o"], "as": [sc.py_to_jv(a) for a in x["as"]]} for x in seq], "judge": {"build": True},
               "real": {"obj": sc.py_to_jv(obj), "hasObj": True, "built": {"j": "none"}, "hasBuilt": False, "fails": bool(real_fails),
                        "raised": real_raised, "hasVerdict": True, "stable": True}}
        d = ctx.sub("selftest-" + name)
        tp, ep, dp = os.path.join(d, "trace.ndjson"), os.path.join(d, "entries.json"), os.path.join(d, "defaults.json")
        open(tp, "w").write(json.dumps(rec) + "\n")
        ent = {"schema": m_entry_schema(m), "builders": m_entry_builders(m)}
        json.dump([ent], open(ep, "w"))
        json.dump([[{"key": k, "obj": sc.py_to_jv(v)} for k, v in sorted(m.D.items())]], open(dp, "w"))
        r = ctx.run_tlc("BuilderTrace", "BuilderTrace.cfg", workers=1, timeout=300,
                        files={"trace.ndjson": tp, "entries.json": ep, "defaults.json": dp}, constants={"Strict": "TRUE"}, allow_violation=True)
        res[name] = r["violated"]
    if res["good"] or not res["bad"]:
        raise core.Inconclusive("binding self-test failed: good rejected=%s, corrupted rejected=%s" % (res["good"], res["bad"]))
    return "BuilderTrace(Strict) accepts a genuine call-sequence record and rejects it once a member is added to the recorded real object"


def m_entry_schema(m):
    return m.entry["schema"]


def m_entry_builders(m):
    return m.entry["builders"]
