"""C10 - default constructors yield the schema's defaults and constants, in Go and in Python, whatever the input format.

spec: SemanticsDefaults.tla (DefaultDoc, FullDefault, FailPaths, DisagreePaths), SemanticsDefaultsMC.tla (catalogue: one
      default of every value type at every position, DEFAULT emission), SemanticsPyTrace.tla (TLC recomputes DefaultDoc on
      the recorded real constructor encodings)
real code: cog's pipeline generates Go and Python for each schema rendered as JSON Schema, OpenAPI and CUE; `New<Obj>()` is
      run by the compiled reflection driver (json.Marshal), `<Obj>()` by one python3 process (generated JSONEncoder);
      the reference validators of the three schema languages decide whether the source schema accepts the defaults.
"""
import collections
import json
import os
import re

from vlib import core
from checks import semantics_common as sc
from checks import python_common as pc

POSITIONS = ("top", "optional", "ref", "anon")
MAX_NOT_ACCEPTED = 0.05


def has_constrained(schema):
    S = sc.defs_of(schema)

    def rec(t):
        if t["k"] == "struct":
            return any(pc.constrained(S, f) or rec(f["t"]) for f in t["fields"])
        if t["k"] in ("arr", "map", "nullable"):
            return rec(t["t"])
        return False
    return any(rec(t) for t in S.values())


def skip_paths(S, t, fmt, path=(), depth=0):
    """Paths (from the object) of constrained fields that are NOT judged in this input format: OpenAPI 3.0 has no `const`;
    the renderer spells a numeric constant as a one-member enum, which declares no constant (strings use an anchored pattern,
    which cog documents as its constant spelling)."""
    out = []
    for f in t["fields"]:
        r = sc.resolve(S, f["t"])
        if fmt == "openapi" and r["k"] == "const" and not isinstance(sc.jv_to_py(r["v"]), str):
            out.append(path + (f["n"],))
        elif r["k"] == "struct" and not pc.constrained(S, f) and depth < 4:      # recursive structs: constructors never nest deeper
            out += skip_paths(S, r, fmt, path + (f["n"],), depth + 1)
    return out


def structs_of(schema):
    return [d["name"] for d in schema["defs"] if d["t"]["k"] == "struct"]


def select_for(ctx, replay):
    def select(cat):
        if replay:
            return [replay["schema_id"]]
        dids = sorted(i for i in cat if pc.ID_BASE < i < pc.DEEP_BASE)
        base = sorted(i for i in cat if i < pc.ID_BASE and has_constrained(cat[i]["schema"]))
        if ctx.quick():
            # every schema of the defaults catalogue (one default per schema: nothing can be sliced away without losing a
            # value type x position cell) + the fixed schemas of the base catalogue + a seeded handful of its constant leaves
            fixed = [i for i in base if cat[i]["pos"] == "fixed"]
            rest = [i for i in base if cat[i]["pos"] != "fixed"]
            import random
            random.Random(ctx.seed).shuffle(rest)
            return dids + fixed + rest[:4]
        # thorough: + SemanticsDefaultsDeepMC (further value types x further positions, spellings) + the seeded generated schemas
        deep = sorted(i for i in cat if pc.DEEP_BASE < i < pc.GEN_BASE)
        gen = sorted(i for i in cat if i > pc.GEN_BASE and has_constrained(cat[i]["schema"]))
        return [i for i in dids if i < pc.DEEP_BASE] + base + deep + gen
    return select


def ir_defaults(ctx, batch):
    """The dynamic Go type of every IR default / constant, per unit (diagnostic attached to failures)."""
    d = ctx.sub("irdefaults")
    inp, out = os.path.join(d, "in.ndjson"), os.path.join(d, "out.ndjson")
    n = 0
    with open(inp, "w") as f:
        for u in batch.units.values():
            if u["status"] in ("not_expressible",):
                continue
            f.write(json.dumps({"id": u["pkg"], "yaml": os.path.join(batch.gen_dir, "_in", u["pkg"] + ".yaml")}) + "\n")
            n += 1
    ctx.run_worker(["c10-irdefaults"], stdin_path=inp, stdout_path=out, cwd=batch.gen_dir)
    res = {}
    for line in open(out):
        r = json.loads(line)
        res[r["id"]] = r
    if len(res) != n:
        raise core.Inconclusive("c10-irdefaults answered %d of %d jobs" % (len(res), n))
    return res


def run(ctx):
    replay = None
    formats = sc.FORMATS
    if ctx.replay:
        replay = json.load(open(ctx.replay))["replay"]
        formats = (replay["format"],)
        if replay["schema_id"] > pc.GEN_BASE:
            ctx.seed = json.load(open(ctx.replay)).get("seed", ctx.seed)      # generated schemas are a function of the seed
    deep = (not ctx.quick() and not replay) or bool(replay and replay["schema_id"] > pc.DEEP_BASE)
    batch = pc.run_batch(ctx, select_for(ctx, replay), want_defaults=True, formats=formats, deep=deep, n_generated=700)
    if replay and batch.cat[replay["schema_id"]]["schema"] != replay["schema"]:
        raise core.Inconclusive("the catalogue changed: schema %d is no longer the replay's schema" % replay["schema_id"])
    ir = ir_defaults(ctx, batch)

    # ---- the source schema accepts the defaults: FullDefault(root) through the reference validator of the format
    rendered = [u for u in batch.units.values() if u["status"] != "not_expressible"]
    ref = pc.ref_validate(ctx, batch, [(u["pkg"], [pc.detok(batch.defaults[u["id"]][batch.cat[u["id"]]["schema"]["root"]]["full"])]) for u in rendered])

    # ---- run the real constructors
    gocmds, pycmds = [], []
    for u in rendered:
        schema = batch.cat[u["id"]]["schema"]
        for obj in structs_of(schema):
            if u["status"] == "ok" and obj in u.get("constructors", []):
                gocmds.append({"op": "newobj", "id": "%s/%s" % (u["pkg"], obj), "type": "%s.%s" % (u["pkg"], obj)})
            if u.get("py") == "ok" and obj in u.get("py_classes", []):
                pycmds.append({"op": "default", "id": "%s/%s" % (u["pkg"], obj), "module": u["pkg"], "cls": obj})
            elif u.get("py") == "ok" and "." in obj:
                # an object of the unit's SECOND package ("x.Name": models/<pkg>x.py); Go reaches it through the objects that refer to it
                pycmds.append({"op": "default", "id": "%s/%s" % (u["pkg"], obj), "module": u["pkg"] + obj.split(".", 1)[0], "cls": obj.split(".", 1)[1]})
            if pc.default_doc(sc.defs_of(schema), sc.defs_of(schema)[obj]):
                # a second construction after the collections of a first instance were mutated in place: defaults are not shared
                if u["status"] == "ok" and obj in u.get("constructors", []):
                    gocmds.append({"op": "newobj2", "id": "%s/%s#2" % (u["pkg"], obj), "type": "%s.%s" % (u["pkg"], obj)})
                if u.get("py") == "ok" and obj in u.get("py_classes", []):
                    pycmds.append({"op": "default2", "id": "%s/%s#2" % (u["pkg"], obj), "module": u["pkg"], "cls": obj})
    gores = pc.run_driver_safe(ctx, batch, gocmds, "new") if gocmds else {}
    pyres = pc.run_pydriver_safe(ctx, batch, pycmds, "default") if pycmds else {}

    # ---- join
    tw = pc.PyTraceWriter(ctx, batch, "c10")
    soft = []           # reasons that make the run inconclusive unless violations were observed (pc.settle)
    if getattr(batch, "python_unusable", None):
        soft.append(batch.python_unusable)
    if getattr(batch, "go_unusable", None):
        soft.append("Go side unusable: " + batch.go_unusable)
    order = []          # (pkg, obj, go, py, python verdict set)
    second = {}         # (pkg, obj) -> (go2, py2, paths that fail only in the second construction)
    dropped = collections.Counter()
    ctor_errors = []
    no_ctor = collections.Counter()
    for u in sorted(rendered, key=lambda u: u["pkg"]):
        pkg = u["pkg"]
        entry = batch.cat[u["id"]]
        schema = entry["schema"]
        S = sc.defs_of(schema)
        if u["status"] != "ok" and u.get("py") != "ok":
            continue
        acc = ref.get(pkg)
        if acc is None:
            dropped["refval_schema_error"] += 1
            u["c10_dropped"] = "refval_schema_error"
            continue
        if acc[0] is not True:
            dropped["default-doc-not-accepted"] += 1
            u["c10_dropped"] = "default-doc-not-accepted"
            continue
        for obj in structs_of(schema):
            t = S[obj]
            if sc.dumps(pc.default_doc(S, t)) != sc.dumps(batch.defaults[u["id"]][obj]["doc"]):
                raise core.Inconclusive("python and TLC disagree on DefaultDoc of %s.%s" % (pkg, obj))
            key = "%s/%s" % (pkg, obj)
            go, py = (False, None), (False, None)
            g = gores.get(key)
            if g is not None:
                if g.get("panic") or g.get("enc_err") or g.get("unknown_type") or "enc" not in g:
                    ctor_errors.append((u, obj, "go", g.get("panic") or g.get("enc_err") or "no encoding"))
                else:
                    go = (True, pc.tok(g["enc"]))
            elif u["status"] == "ok":
                no_ctor["go"] += 1
            p = pyres.get(key)
            if p is not None:
                if not p["ok"]:
                    ctor_errors.append((u, obj, "python", "%s: %s" % (p.get("stage"), p.get("err"))))
                else:
                    py = (True, pc.tok(p["enc"]))
            elif u.get("py") == "ok":
                no_ctor["python"] += 1
            if not go[0] and not py[0]:
                continue
            skip = skip_paths(S, t, u["fmt"])
            verdict = set()
            if go[0]:
                verdict |= {("go",) + p_ for p_ in pc.fail_paths(S, t, go[1])}
            if py[0]:
                verdict |= {("python",) + p_ for p_ in pc.fail_paths(S, t, py[1])}
            if go[0] and py[0]:
                verdict |= {("agree",) + p_ for p_ in pc.disagree_paths(S, t, go[1], py[1])}
            verdict = {v for v in verdict if v[1:] not in skip}
            if tw.add_default(pkg, obj, go, py, skip):
                order.append((pkg, obj, go, py, verdict))
            else:
                dropped["outside-number-universe"] += 1
                continue
            # the second construction (same oracle, same trace record kind; reported only where it differs from the first)
            g2, p2 = gores.get(key + "#2"), pyres.get(key + "#2")
            go2 = (True, pc.tok(g2["enc"])) if (go[0] and g2 is not None and "enc" in g2 and not g2.get("panic") and not g2.get("enc_err")) else (False, None)
            py2 = (True, pc.tok(p2["enc"])) if (py[0] and p2 is not None and p2["ok"]) else (False, None)
            if go2[0] or py2[0]:
                v2 = set()
                if go2[0]:
                    v2 |= {("go",) + p_ for p_ in pc.fail_paths(S, t, go2[1])}
                if py2[0]:
                    v2 |= {("python",) + p_ for p_ in pc.fail_paths(S, t, py2[1])}
                if go2[0] and py2[0]:
                    v2 |= {("agree",) + p_ for p_ in pc.disagree_paths(S, t, go2[1], py2[1])}
                v2 = {v for v in v2 if v[1:] not in skip}
                if tw.add_default(pkg, obj, go2, py2, skip):
                    order.append((pkg, obj + "#2", go2, py2, v2))
                    second[(pkg, obj)] = (go2, py2, v2 - verdict)
            for lang, first, res in (("go", go, g2), ("python", py, p2)):
                if first[0] and res is not None and not (lang == "go" and go2[0]) and not (lang == "python" and py2[0]):
                    ctor_errors.append((u, obj, lang, "second construction after mutating the first instance: %s" % (
                        (res.get("panic") or res.get("enc_err") or "no encoding") if lang == "go" else "%s: %s" % (res.get("stage"), res.get("err")))))

    # ---- TLC recomputes every verdict on the recorded real encodings
    tlc_viol, tr = tw.validate()
    agree_n = 0
    for i, (pkg, obj, go, py, verdict) in enumerate(order):
        tv = tlc_viol.get(i, set())
        if tv != verdict:
            soft.append("TLC and the python join disagree on %s.%s: TLC %s, python %s" % (pkg, obj, sorted(tv), sorted(verdict)))
        elif not tv:
            agree_n += 1

    # ---- failures, coverage
    judged = collections.Counter()       # (value type, format, language) -> constrained fields judged
    skipped = collections.Counter()      # (value type, format) -> fields the format cannot declare (not judged)
    per_pos = collections.Counter()
    per_lang = collections.Counter()
    implied = 0
    samples = []
    witnesses = collections.defaultdict(set)
    for pkg, obj, go, py, verdict in order:
        if obj.endswith("#2"):
            continue
        u = batch.units[pkg]
        entry = batch.cat[u["id"]]
        schema = entry["schema"]
        S = sc.defs_of(schema)
        t = S[obj]
        for v in sorted(second.get((pkg, obj), (None, None, set()))[2]):
            lang, path = v[0], v[1:]
            if lang == "agree":
                continue
            f, _, toks = pc.field_at(S, t, path)
            vt = pc.value_type(S, f) if f is not None else "struct-override"
            val = pc.dig(second[(pkg, obj)][0 if lang == "go" else 1][1], path)
            sig = "C10/%s/shared-between-instances/%s/%s" % (lang, pc.SIG_TYPE.get(vt, vt), u["fmt"])
            witnesses[sig].add("%s@%s" % (entry["leaf"], entry["pos"]))
            ctx.fail(sig, "%s %s@%s, object %s: after the lists / maps of a first %s were mutated in place, a SECOND one encodes field %s as %s, the "
                          "schema declares %s (the first held it)" % (u["fmt"], entry["leaf"], entry["pos"], obj, "New%s()" % obj if lang == "go" else "%s()" % obj,
                                                                       ".".join(path), sc.dumps(val[1]) if val[0] else "<absent>", sc.dumps(pc.expected_at(S, t, path))),
                     {"schema_id": u["id"], "leaf": entry["leaf"], "pos": entry["pos"], "format": u["fmt"], "schema": schema, "schema_text": u["text"],
                      "object": obj, "path": list(path), "language": lang, "second_construction": True,
                      "real": {"go": second[(pkg, obj)][0][1], "python": second[(pkg, obj)][1][1]}})
        irs = [d for d in ir.get(pkg, {}).get("defaults", [])]

        skip = set(skip_paths(S, t, u["fmt"]))

        def count(t_, val, lang, toks, path=()):
            if not isinstance(val, dict):
                return
            for f in t_["fields"]:
                r = sc.resolve(S, f["t"])
                if path + (f["n"],) in skip:
                    skipped[(pc.value_type(S, f), u["fmt"])] += 1
                elif pc.constrained(S, f):
                    judged[(pc.value_type(S, f), u["fmt"], lang)] += 1
                    per_lang[lang] += 1
                    for tok in (toks + ([] if f["req"] else ["optional"])) or ["top"]:
                        per_pos[tok] += 1
                elif r["k"] == "struct" and isinstance(val.get(f["n"]), dict):
                    count(r, val[f["n"]], lang, toks + ["ref" if f["t"]["k"] == "ref" else "anon"], path + (f["n"],))
        pos0 = [] if obj == schema["root"] else ["ref"]
        if go[0]:
            count(t, go[1], "go", pos0)
        if py[0]:
            count(t, py[1], "python", pos0)
        reported = set()
        for v in sorted(verdict):
            lang, path = v[0], pc.report_path(S, t, v[1:])
            if (lang, path) in reported:
                continue
            reported.add((lang, path))
            f, ft, toks = pc.field_at(S, t, path)
            if f is None:
                raise core.Inconclusive("cannot locate %s in %s.%s" % (path, pkg, obj))
            vt = pc.value_type(S, f)
            expected = pc.expected_at(S, t, path)
            gh, gv = pc.dig(go[1], path) if go[0] else (False, None)
            ph, pv = pc.dig(py[1], path) if py[0] else (False, None)
            if lang == "agree":
                if any(w[0] in ("go", "python") and w[1:len(path) + 1] == path for w in verdict):
                    implied += 1          # a language that does not hold the default is reported for itself; the disagreement follows
                    continue
                clause = "differ"
            else:
                clause = pc.clause_of(S, f, expected, gh if lang == "go" else ph, gv if lang == "go" else pv)
            irt = sorted({"%s %s: %s" % (d["what"], d["path"] or d["object"], d["gotype"]) for d in irs
                          if d["path"].split(".")[-1] == path[-1] or d["path"] == ""})
            what = "%s %s@%s, object %s: " % (u["fmt"], entry["leaf"], entry["pos"], obj)
            if lang == "agree":
                what += "Go encodes %s as %s, Python as %s (declared %s)" % (".".join(path), sc.dumps(pc.detok(gv)) if gh else "<absent>",
                                                                          sc.dumps(pc.detok(pv)) if ph else "<absent>", sc.dumps(pc.detok(expected)))
            else:
                has, val = (gh, gv) if lang == "go" else (ph, pv)
                what += "%s encodes field %s as %s, the schema declares %s%s" % (
                    "New%s()" % obj if lang == "go" else "%s()" % obj, ".".join(path), sc.dumps(pc.detok(val)) if has else "<absent>",
                    sc.dumps(pc.detok(expected)), "; IR: " + "; ".join(irt) if irt else "")
            svt = pc.SIG_TYPE.get(vt, vt)
            if pc.nullable_on(S, t, path) and u["fmt"] != "openapi":
                # JSON Schema spells a nullable field oneOf:[T, null] + default, CUE `T | null | *d`: ONE construct (a disjunction with
                # null carrying the default) whatever T is; OpenAPI's `nullable: true` is an attribute of the same schema object
                svt = "nullable-oneOf" if u["fmt"] == "jsonschema" else "nullable-disjunction"
            sig = "C10/%s/%s/%s/%s" % (lang, clause, svt, u["fmt"])
            witnesses[sig].add("%s@%s" % (entry["leaf"], entry["pos"]))
            ctx.fail(sig, what, {
                "schema_id": u["id"], "leaf": entry["leaf"], "pos": entry["pos"], "format": u["fmt"], "schema": schema,
                "schema_text": u["text"], "object": obj, "path": list(path), "language": lang, "position": toks or ["top"], "value_type": vt,
                "expected_default_doc": batch.defaults[u["id"]][obj]["doc"], "expected_field": expected,
                "real": {"go": go[1] if go[0] else None, "python": py[1] if py[0] else None}, "ir_defaults": irs})
        if len(samples) < 3 and (hash(pkg) + ctx.seed) % 5 == 0 and pc.default_doc(S, t):
            samples.append({"package": pkg, "object": obj, "leaf": entry["leaf"], "pos": entry["pos"],
                            "expected_default_doc": batch.defaults[u["id"]][obj]["doc"],
                            "go": go[1] if go[0] else None, "python": py[1] if py[0] else None,
                            "violated": [list(v) for v in sorted(verdict)],
                            "ir_defaults": ["%s %s.%s: %s" % (d["what"], d["object"], d["path"], d["gotype"]) for d in irs][:6]})
    for u, obj, lang, err in ctor_errors:
        entry = batch.cat[u["id"]]
        # class of the error = its message without package / object names (stable across schemas and seeds)
        slug = re.sub(r"@\S+", "", err.replace(u["pkg"], "").replace(obj, "X"))
        slug = "-".join(re.findall(r"[a-z]+", slug.lower())[:9])
        sig = "C10/%s/constructor-error/%s/%s" % (lang, slug, u["fmt"])
        witnesses[sig].add("%s@%s:%s" % (entry["leaf"], entry["pos"], obj))
        ctx.fail(sig,
                 "%s %s@%s: the default constructor of %s cannot be run / encoded in %s: %s" % (u["fmt"], entry["leaf"], entry["pos"], obj, lang, err),
                 {"schema_id": u["id"], "leaf": entry["leaf"], "pos": entry["pos"], "format": u["fmt"], "schema": entry["schema"],
                  "schema_text": u["text"], "object": obj, "path": [], "language": lang, "error": err})
    if replay:
        ctx.failures = [f for f in ctx.failures if f["replay"]["object"] == replay["object"] and f["replay"]["path"] == replay["path"]
                        and f["replay"]["language"] == replay["language"]]

    # ---- IR dynamic types per format (diagnostic, DESIGN 6 "C10")
    ir_types = collections.defaultdict(collections.Counter)
    for u in rendered:
        for d in ir.get(u["pkg"], {}).get("defaults", []):
            if d["what"] == "default":
                ir_types[u["fmt"]]["%s <- %s" % (d["kind"], d["gotype"])] += 1
    ir_errors = collections.Counter("%s: %s" % (batch.units[p]["fmt"], r["err"][:120]) for p, r in ir.items() if r.get("err"))

    # ---- vacuity: value type x format cells
    cells = {}
    unobservable = {}
    want_vts = set()
    for u in rendered:
        entry = batch.cat[u["id"]]
        S = sc.defs_of(entry["schema"])
        for t in S.values():
            def rec(t_):
                if t_["k"] == "struct":
                    for f in t_["fields"]:
                        if pc.constrained(S, f):
                            want_vts.add((pc.value_type(S, f), u["fmt"]))
                            key = (pc.value_type(S, f), u["fmt"])
                            if u["status"] != "ok" and u.get("py") != "ok":
                                why = " ".join((u.get("why") or "; ".join(u.get("diagnostics", [])) or u.get("py_err") or u["status"]).split())[:200]
                                why = why.replace(u["pkg"], "<pkg>")
                                unobservable.setdefault(key, set()).add("%s: %s" % (u["status"], why))
                            elif u.get("c10_dropped"):
                                unobservable.setdefault(key, set()).add(u["c10_dropped"])
                        rec(f["t"])
            rec(t)
    not_expr = collections.Counter(u["fmt"] + ": " + u.get("why", "") for u in batch.units.values() if u["status"] == "not_expressible")
    for vt, fmt in sorted(want_vts):
        n = {lang: judged[(vt, fmt, lang)] for lang in ("go", "python")}
        cells["%s/%s" % (vt, fmt)] = n
    if not replay:
        vac = []
        for (vt, fmt) in sorted(want_vts):
            if judged[(vt, fmt, "go")] + judged[(vt, fmt, "python")] == 0 and not skipped[(vt, fmt)]:
                reasons = unobservable.get((vt, fmt), set())
                cog_side = [r for r in reasons if r.split(":")[0] in ("codegen_error", "codegen_panic", "not_executable")]
                if not cog_side:
                    vac.append("%s/%s (%s)" % (vt, fmt, sorted(reasons) or "never generated"))
        for vt in pc.VALUE_TYPES:
            for lang in ("go", "python"):
                if not any(judged[(vt, fmt, lang)] for fmt in sc.FORMATS):
                    vac.append("value type %s never judged in %s" % (vt, lang))
        for fmt in sc.FORMATS:
            for lang in ("go", "python"):
                if not any(judged[(vt, fmt, lang)] for vt, f2 in want_vts if f2 == fmt):
                    vac.append("format %s never judged in %s" % (fmt, lang))
        vac += ["position " + p for p in POSITIONS if per_pos[p] == 0]
        if vac:
            soft.append("vacuous (never exercised on executable code): %s" % vac)
        n_units = sum(1 for u in rendered if u["status"] == "ok" or u.get("py") == "ok")
        if n_units and dropped["default-doc-not-accepted"] > MAX_NOT_ACCEPTED * n_units:
            soft.append("the reference validators reject FullDefault of %d of %d units" % (dropped["default-doc-not-accepted"], n_units))

    # ---- binding self-test: a genuine record that holds, then the same with one default's recorded value corrupted
    binding = None
    good = [o for o in order if not o[1].endswith("#2") and not o[4] and o[2][0] and o[3][0] and pc.default_doc(sc.defs_of(batch.cat[batch.units[o[0]]["id"]]["schema"]),
                                                                                    sc.defs_of(batch.cat[batch.units[o[0]]["id"]]["schema"])[o[1]])]
    if good and not replay:
        with_default = [o for o in good if any(pc.has_default(f) for f in sc.defs_of(batch.cat[batch.units[o[0]]["id"]]["schema"])[o[1]]["fields"])]
        good = with_default or good
        pkg, obj, go, py, _ = good[ctx.seed % len(good)]
        S = sc.defs_of(batch.cat[batch.units[pkg]["id"]]["schema"])
        k = sorted(f["n"] for f in S[obj]["fields"] if pc.has_default(f) or (not with_default and pc.constrained(S, f)))[0]
        bad_go = dict(go[1])
        bad_go[k] = "corrupted-by-selftest"
        try:
            binding = pc.selftest(ctx, batch, lambda tw_: tw_.add_default(pkg, obj, go, py, []), lambda tw_: tw_.add_default(pkg, obj, (True, bad_go), py, []),
                                  "SemanticsPyTrace(Strict) accepts a genuine constructor record (%s.%s) and rejects it once the recorded value of "
                                  "the defaulted field %s is replaced" % (pkg, obj, k))
        except core.Inconclusive as e:
            soft.append(str(e))
    elif not replay:
        soft.append("no record on which both languages hold every default: binding self-test impossible")

    pc.settle(ctx, soft)
    status = collections.Counter(u["status"] for u in batch.units.values())
    n_fields = sum(judged.values())
    cov = {
        "states": sum(r["distinct"] for r in ctx.tlc_runs),
        "transitions": sum(r["generated"] for r in ctx.tlc_runs),
        "traces_validated_against_impl": agree_n,
        "real_records_validated_by_tlc_trace_spec": len(order),
        "exhaustive": not ctx.quick(),
        "evaluations": len(order),
        "distinct_nontrivial": n_fields,
        "rule": "one evaluation = one (schema, input format, object) triple: the schema term is rendered in that format, the real cog pipeline "
                "generates Go and Python, New<Obj>() is run and json.Marshal'ed by the compiled driver and <Obj>() encoded through the generated "
                "JSONEncoder by python3; non-trivial = constrained fields (declared default or constant) judged, summed over both languages",
        "schemas": len(batch.ids), "catalogue_size": len(batch.cat),
        "units_go": dict(status), "units_python": dict(collections.Counter(u.get("py", "absent") for u in batch.units.values())),
        "units_not_observed": pc.unit_problems(batch), "not_expressible": dict(not_expr),
        "units_dropped": dict(dropped), "objects_without_constructor": dict(no_ctor),
        "judged_fields_per_value_type_format": cells,
        "fields_the_format_cannot_declare": {"%s/%s" % k: v for k, v in skipped.items()},
        "unobservable_cells": {"%s/%s" % k: sorted(v) for k, v in unobservable.items() if judged[(k[0], k[1], "go")] + judged[(k[0], k[1], "python")] == 0},
        "failure_witnesses": {k: sorted(v)[:40] for k, v in sorted(witnesses.items())},
        "per_position": dict(per_pos), "per_language": dict(per_lang),
        "agreement_failures_implied_by_one_language": implied,
        "generated_schema_pool": batch.generated_pool, "generated_schemas_used": sum(1 for i in batch.ids if i > pc.GEN_BASE),
        "ir_default_dynamic_types": {k: dict(v) for k, v in ir_types.items()}, "ir_load_errors": dict(ir_errors),
        "unused_imports_removed": sorted({"%s:%s" % (batch.units[p]["fmt"], i) for p, i in batch.unused_imports_removed}),
        "timing": batch.timing, "binding_selftest": binding,
        "samples": samples or [{"note": "no sample drawn"}],
        "checker_cmd": "tlc SemanticsMC (index) + SemanticsDefaultsMC (index, defaults); worker sem-gen, c10-irdefaults; go build; driver newobj; "
                       "python3 harness/pydriver/driver.py; python3-vt jsonschema + worker sem-validate; tlc SemanticsPyTrace",
    }
    a = [
        "bounded universe: spec/SemanticsDefaultsMC.tla (one default per schema: 21 value types incl. constants, falsy and negative defaults x 4 positions, "
        "plus two schemas carrying everything) and the schemas of spec/SemanticsMC.tla that declare a default or a constant",
        "only the fields C10 speaks about are compared (declared default or constant); a struct-valued default is a set of overrides merged over "
        "the referenced struct's own defaults, compared on the merged members; nested objects present in the encoding are held to their own defaults",
        "JSON comparison (DESIGN 6.0): numbers by value, key order irrelevant, JSON type significant (\"3\" is not 3)",
        "`a default the source schema accepts`: the complete default document (FullDefault) is accepted by the reference validator of the source "
        "format (python jsonschema Draft7, kin-openapi, CUE); units whose document is rejected are dropped and counted",
        "a default on a reference (struct override, named enum) is rendered as allOf:[{$ref}] + default in JSON Schema and OpenAPI, the spelling both "
        "standards define (siblings of $ref are ignored in draft-07 / OpenAPI 3.0); CUE: `T | *default`",
        "packages that cog cannot generate, Go that does not compile and Python that does not import are excluded and counted (units_not_observed, "
        "unobservable_cells): C02/C04's subject. One language failing does not stop the other from being judged",
        "a Go/Python disagreement is reported on its own only when both languages hold the default (a language that misses it is reported "
        "for itself, the disagreement follows from that)",
        "reading rule: an optional field whose declared default is an empty collection holds its default when absent as well (Go's omitempty "
        "cannot spell `[]`); OpenAPI 3.0 has no `const`: numeric constants (rendered as one-member enums) are not judged in that format",
    ]
    if batch.unused_imports_removed:
        a.append("packages whose only compiler diagnostics were `imported and not used` were recompiled after deleting exactly those import lines")
    return ctx.finish("model_checking", cov, a)
