"""C15, library route - "the library's name-prefixing and comment-appending" through the PUBLIC package.

requirement (spec/Library.tla): transformations given to SchemaToTypesPipeline.SchemaTransformations() apply in the order
      they were given - across calls as well as within one call - each with the effect Transforms.tla states.
spec: Library.tla (the fixed input's IR, Expect = objects (name, comments) after the sequence), LibraryMC.tla (every
      sequence of <= 3 transformations over {prefix Outer, prefix Inner, comment c1, comment c2} x every way of splitting it
      over calls; design: prefixes and comments are separable), LibraryTrace.tla.
real code: cog.TypesFromSchema().CUEValue("lib", v).SchemaTransformations(...)...Golang(cfg).Run() with
      cog.PrefixObjectsNames / cog.AppendCommentToObjects; the generated Go is parsed and every declared type is recorded
      with its doc comment lines; TLC judges every record.

run_part(ctx) -> dict(fails=[(signature, what, replay, key)], coverage={...}, tlc=[...]);
signatures C15/library/<Run|Names|Comments>/<calls class>.
"""
import json
import os

from vlib import core

LIB_CUE = """// container comment
Container: {
	item: Item
	name: string
	opts: {
		flag: bool
	}
	either: string | bool
}
Item: {
	value: string
}
Kind: "a" | "b"
"""


def calls_class(rec):
    g = rec["groups"]
    kinds = sorted({a["a"].split("_")[0] for a in rec["hist"]})
    return "%s/%s" % ("one-call" if len(g) == 1 else "several-calls", "+".join(kinds))


def run_trace(ctx, trace_path, strict=False, allow_violation=False):
    r = ctx.run_tlc("LibraryTrace", "LibraryTrace.cfg", workers=1, timeout=900, files={"library_trace.ndjson": trace_path},
                    constants={"Strict": "TRUE"} if strict else None, allow_violation=allow_violation)
    fails = {f["l"]: f["violated"] for f in core.tagged_lines(r["out"], "FAIL")}
    consumed = 0
    for line in open(r["out"], errors="replace"):
        if line.startswith('<<"CONSUMED", '):
            consumed = int(line[len('<<"CONSUMED", '):].rstrip().rstrip(">"))
    return r, fails, consumed


def replay_cases(ctx, tlc_out, tag):
    cue = os.path.join(ctx.scratch, "lib.cue")
    open(cue, "w").write(LIB_CUE)
    trace = os.path.join(ctx.scratch, "lib-%s-trace.ndjson" % tag)
    summ = os.path.join(ctx.scratch, "lib-%s-sum.json" % tag)
    ctx.run_worker(["library-replay", "-in", tlc_out, "-trace", trace, "-cue", cue], stdout_path=summ, timeout=1800)
    return trace, json.load(open(summ))


def judge(ctx, trace):
    recs = [json.loads(x) for x in open(trace)]
    keep = trace + ".kept"
    with open(keep, "w") as f:
        f.writelines(json.dumps(r) + "\n" for r in recs)
    tr, fails, consumed = run_trace(ctx, trace)
    if consumed != len(recs):
        raise core.Inconclusive("LibraryTrace consumed %d of %d records" % (consumed, len(recs)))
    return recs, fails, tr


def selftest(ctx, recs, tfails):
    good = next((r for i, r in enumerate(recs, start=1) if len(r["groups"]) > 1 and not r["got"]["failed"] and i not in tfails), None)
    if good is None:
        if tfails:      # every several-calls record violates the requirement: that is reported; nothing accepted to test the binding with
            return "skipped: no several-calls record was accepted in this run", []
        raise core.Inconclusive("library self-test: no several-calls record")
    bad = json.loads(json.dumps(good))
    bad["got"]["objects"][0]["name"] += "X"
    out = []
    for name, rec, want in (("good", good, False), ("bad", bad, True)):
        p = os.path.join(ctx.scratch, "lib-self-%s.ndjson" % name)
        open(p, "w").write(json.dumps(rec) + "\n")
        r, _f, _c = run_trace(ctx, p, strict=True, allow_violation=True)
        if r["violated"] != want:
            raise core.Inconclusive("library binding self-test: %s record %s" % (name, "accepted" if want else "rejected"))
        out.append(r)
    return "LibraryTrace(Strict) accepts a real several-calls record and rejects it with one declared type renamed", out


def run_part(ctx):
    if not getattr(ctx, "worker", None):
        ctx.build_worker()
    mc = ctx.run_tlc("LibraryMC", "LibraryMC.cfg", workers=4, timeout=900,
                     constants={"MaxLen": "4" if ctx.tier == "thorough" else "3"})
    trace, summ = replay_cases(ctx, mc["out"], "mc")
    recs, tfails, tr = judge(ctx, trace)
    tlc = [mc, tr]
    fails, classes = [], {}
    accepted = 0
    for i, rec in enumerate(recs, start=1):
        cls = calls_class(rec)
        classes[cls] = classes.get(cls, 0) + 1
        v = tfails.get(i)
        if not v:
            accepted += 1
            continue
        for clause in v:
            what = "library route: %s given as calls %s: generated code declares %s%s" % (
                json.dumps(rec["hist"]), rec["groups"], json.dumps(rec["got"]["objects"])[:300],
                (" / run failed: " + rec["got"]["msg"][:200]) if rec["got"]["failed"] else "")
            fails.append(("C15/library/%s/%s" % (clause, cls), what, {"part": "library", "record": rec}, None))
    if not any(k.startswith("several-calls") for k in classes) or accepted + len(tfails) == 0:
        raise core.Inconclusive("library part is vacuous: %s" % classes)
    note, st = selftest(ctx, recs, tfails)
    tlc += st
    cov = {"library_ways_of_giving_transformations": mc["distinct"] - 1, "library_records_judged_by_tlc": len(recs),
           "library_records_accepted": accepted, "library_classes": classes, "library_binding_selftest": note,
           "library_rule": "one record = one real run of the public pipeline (CUE value -> SchemaTransformations calls -> Go types) "
                           "whose generated type names and doc comments TLC compares with Library!Expect"}
    return {"fails": fails, "coverage": cov, "tlc": tlc}


def replay_part(ctx, rp):
    if not getattr(ctx, "worker", None):
        ctx.build_worker()
    rec = rp["record"]
    fake = os.path.join(ctx.scratch, "lib-replay-cases.txt")
    open(fake, "w").write('<<"CASE", %s>>\n' % json.dumps(json.dumps({"hist": rec["hist"], "groups": rec["groups"]})))
    trace, _ = replay_cases(ctx, fake, "rp")
    recs, tfails, _ = judge(ctx, trace)
    out = []
    for i, r in enumerate(recs, start=1):
        for clause in tfails.get(i, []):
            out.append(("C15/library/%s/%s" % (clause, calls_class(r)), "replayed", {"part": "library", "record": r}, None))
    return out
