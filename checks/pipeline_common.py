"""Shared machinery of C03 and C07: scheduler overlay build, real-input corpus, TLC runs of Pipeline2, trace validation.

  harness/cmd/schedrewrite  -> overlay (rewritten copies of every file with a `range` over a map, verifsched runtime,
                               facade extension); worker built with `-tags verif,verifsched -overlay`
  spec/Pipeline.tla, Pipeline2.tla, Pipeline2MC.tla -> design-level check (AsCoded = {}) and witness/case generation
  worker c03-explore / pipe-run / c07-merge / c07-immut -> real runs
  spec/PipelineTrace.tla    -> the hyper-properties evaluated over the records of the real runs
"""
import itertools
import json
import os
import shutil
import subprocess
import time

from vlib import core

LANGS = ["go", "java", "jsonschema", "openapi", "php", "python", "typescript"]
LANGLOOP_SITE = "codegen.(*Pipeline).Run/range targetsByLanguage"


def java_tmp(ctx):
    """TLC's community modules unpack into java.io.tmpdir: keep that inside the scratch directory."""
    d = os.path.join(ctx.scratch, "javatmp")
    os.makedirs(d, exist_ok=True)
    os.environ["JAVA_TOOL_OPTIONS"] = "-Djava.io.tmpdir=" + d


# ------------------------------------------------------------------------------------------------ overlay build
def build_with_scheduler(ctx):
    """Returns dict(mode='overlay'|'repetition', sites=[...], files=n, uncontrolled=[...], build_s=..)."""
    t0 = time.time()
    d = ctx.sub("sched")
    h = os.path.join(d, "h")
    shutil.copytree(os.path.join(core.VERIF, "harness"), h, ignore=shutil.ignore_patterns("facade_ext"))
    shutil.copy(os.path.join(core.REPO, "go.sum"), os.path.join(h, "go.sum"))
    tool = os.path.join(d, "schedrewrite")
    p = subprocess.run(["go", "build", "-o", tool, "./cmd/schedrewrite"], cwd=h, env=ctx.goenv(), capture_output=True, text=True)
    info = {"mode": "repetition", "sites": [], "files": 0, "uncontrolled": [], "why": ""}
    ov = os.path.join(d, "ov")
    if os.environ.get("VERIF_NO_OVERLAY"):
        info["why"] = "VERIF_NO_OVERLAY is set"
    elif p.returncode != 0:
        info["why"] = "schedrewrite does not build: " + (p.stdout + p.stderr)[-400:]
    else:
        p = subprocess.run([tool, "-repo", core.REPO, "-out", ov], env=ctx.goenv(), capture_output=True, text=True)
        if p.returncode != 0:
            info["why"] = "rewrite failed: " + (p.stdout + p.stderr)[-600:]
        else:
            meta = json.load(open(os.path.join(ov, "sites.json")))
            try:
                ctx.build_worker(overlay=os.path.join(ov, "overlay.json"), tags="verif,verifsched")
                info.update(mode="overlay", sites=meta["sites"], files=meta["files"], uncontrolled=meta["uncontrolled"] or [])
            except core.Inconclusive:
                info["why"] = "the rewritten tree does not build"
    if info["mode"] != "overlay":
        core.log("scheduler overlay unavailable (%s): falling back to repetition in fresh processes" % info["why"])
        ctx.build_worker()
    info["build_s"] = round(time.time() - t0, 1)
    core.log("scheduler: mode=%s sites=%d files=%d (%.1fs)" % (info["mode"], len(info["sites"]), info["files"], info["build_s"]))
    return info


# ------------------------------------------------------------------------------------------------ real inputs
# An abstract schema: {"pkg": str, "objects": [(name, kind, payload)]}, the first object is the root and must reach the others.
#   ("struct", [(field, type, required, default)])  type: "string" | "int" | "bool" | ("ref", N) | ("array", "string")
#                                                         | ("map", "string") | ("const", "v")
#   ("enum", [values])      ("union", [names])
# rendered as JSON Schema, OpenAPI or CUE.

def _js_type(t, refprefix):
    if t == "string":
        return {"type": "string"}
    if t == "int":
        return {"type": "integer"}
    if t == "bool":
        return {"type": "boolean"}
    k = t[0]
    if k == "ref":
        return {"$ref": refprefix + t[1]}
    if k == "array":
        return {"type": "array", "items": _js_type(t[1], refprefix)}
    if k == "map":
        return {"type": "object", "additionalProperties": _js_type(t[1], refprefix)}
    if k == "const":
        return {"type": "string", "const": t[1]}
    if k == "struct":      # anonymous struct
        return {"type": "object", "properties": {f: _js_type(ft, refprefix) for (f, ft, _r, _d) in t[1]},
                **({"required": [f for (f, _t, r, _d) in t[1] if r]} if any(r for (_f, _t, r, _d) in t[1]) else {})}
    if k == "enum":        # anonymous enum
        return {"type": "string", "enum": list(t[1])}
    if k == "union":       # union of scalars
        return {"oneOf": [_js_type(x, refprefix) for x in t[1]]}
    raise ValueError(t)


def _js_object(kind, payload, refprefix, openapi=False):
    if kind == "struct":
        props, req = {}, []
        for (f, t, r, d) in payload:
            p = _js_type(t, refprefix)
            if openapi and "const" in p:
                p = {"type": "string", "enum": [p["const"]]}
            if d is not None:
                p = dict(p)
                if "$ref" in p:
                    p = {"allOf": [p]}
                p["default"] = d
            props[f] = p
            if r:
                req.append(f)
        o = {"type": "object", "properties": props}
        if req:
            o["required"] = req
        return o
    if kind == "enum":
        return {"type": "string", "enum": list(payload)}
    if kind == "union":
        return {"oneOf": [{"$ref": refprefix + n} for n in payload]}
    raise ValueError(kind)


def render_jsonschema(spec):
    defs = {n: _js_object(k, p, "#/definitions/") for (n, k, p) in spec["objects"]}
    return json.dumps({"$schema": "http://json-schema.org/draft-07/schema#", "$ref": "#/definitions/" + spec["objects"][0][0],
                       "definitions": defs}, indent=1)


def render_openapi(spec, mapping=None):
    schemas = {n: _js_object(k, p, "#/components/schemas/", openapi=True) for (n, k, p) in spec["objects"]}
    for n, m in (mapping or {}).items():
        schemas[n]["discriminator"] = m
    return json.dumps({"openapi": "3.0.0", "info": {"title": spec["pkg"], "version": "0.0"}, "paths": {},
                       "components": {"schemas": schemas}}, indent=1)


def _cue_type(t):
    if t == "string":
        return "string"
    if t == "int":
        return "int64"
    if t == "bool":
        return "bool"
    k = t[0]
    if k == "ref":
        return t[1]
    if k == "array":
        return "[...%s]" % _cue_type(t[1])
    if k == "map":
        return "[string]: %s" % _cue_type(t[1])
    if k == "const":
        return json.dumps(t[1])
    if k == "struct":
        return "{ " + ", ".join("%s%s: %s" % (f, "" if r else "?", ("{%s}" % _cue_type(ft)) if isinstance(ft, tuple) and ft[0] == "map" else _cue_type(ft))
                                 for (f, ft, r, _d) in t[1]) + " }"
    if k == "enum":
        return " | ".join(json.dumps(v) for v in t[1])
    if k == "union":
        return " | ".join(_cue_type(x) for x in t[1])
    raise ValueError(t)


def render_cue(spec, cuepkg):
    out = ["package %s" % cuepkg, ""]
    for (n, k, p) in spec["objects"]:
        if k == "struct":
            out.append("%s: {" % n)
            for (f, t, r, d) in p:
                ty = _cue_type(t)
                if isinstance(t, tuple) and t[0] == "map":
                    out.append("  %s%s: {%s}" % (f, "" if r else "?", ty))
                    continue
                if d is not None:
                    ty = "%s | *%s" % (ty, json.dumps(d))
                out.append("  %s%s: %s" % (f, "" if r else "?", ty))
            out.append("}")
        elif k == "enum":
            out.append("%s: %s" % (n, " | ".join(json.dumps(v) for v in p)))
        elif k == "union":
            out.append("%s: %s" % (n, " | ".join(p)))
        out.append("")
    return "\n".join(out)


def write_input(d, spec, fmt, tag=None, extra=None):
    """Writes the schema file(s) under d and returns the YAML `inputs:` entry (a dict)."""
    tag = tag or spec["pkg"]
    extra = dict(extra or {})
    if fmt == "jsonschema":
        p = os.path.join(d, tag + ".schema.json")
        open(p, "w").write(render_jsonschema(spec))
        e = {"path": "%__config_dir%/" + os.path.basename(p), "package": spec["pkg"]}
    elif fmt == "openapi":
        p = os.path.join(d, tag + ".openapi.json")
        open(p, "w").write(render_openapi(spec, extra.pop("_mapping", None)))
        e = {"path": "%__config_dir%/" + os.path.basename(p), "package": spec["pkg"]}
    elif fmt == "cue":
        cd = os.path.join(d, "cue_" + tag)
        os.makedirs(cd, exist_ok=True)
        open(os.path.join(cd, tag + ".cue"), "w").write(render_cue(spec, "cue_" + tag))
        e = {"entrypoint": "%__config_dir%/cue_" + tag, "package": spec["pkg"]}
    else:
        raise ValueError(fmt)
    e.update(extra)
    return {fmt: e}


LANG_CFG = {
    "go": {"package_root": "example.com/gen/go", "generate_json_marshaller": True, "generate_strict_unmarshaller": True,
           "generate_equal": True, "generate_validate": True},
    "java": {"package_path": "com.example.gen", "generate_json_marshaller": True},
    "jsonschema": {"compact": False},
    "openapi": {"compact": False},
    "php": {"namespace_root": "Example\\Gen", "generate_json_marshaller": True},
    "python": {"path_prefix": "gen", "generate_json_marshaller": True},
    "typescript": {"path_prefix": "src"},
}


def yaml_dump(v):
    """JSON is YAML (flow style): the real loaders (yaml.v3, KnownFields) read it like any other document."""
    return json.dumps(v, indent=1) + "\n"


def write_pipeline(d, name, inputs, langs, types=True, builders=False, converters=False, api_reference=False,
                   parameters=None, common_passes=None, veneers=None, templates_data=None, repository_templates=None,
                   lang_cfg=None, directory="out/%l"):
    cfg = {}
    if parameters:
        cfg["parameters"] = parameters
    cfg["inputs"] = inputs
    tr = {}
    if common_passes:
        tr["schemas"] = common_passes
    if veneers:
        tr["builders"] = veneers
    if tr:
        cfg["transformations"] = tr
    out = {"directory": directory, "types": types, "builders": builders, "converters": converters, "api_reference": api_reference}
    if repository_templates:
        out["repository_templates"] = repository_templates
    if templates_data:
        out["templates_data"] = templates_data
    out["languages"] = [{l: dict((lang_cfg or {}).get(l) or LANG_CFG[l])} for l in langs]
    cfg["output"] = out
    p = os.path.join(d, name + ".yaml")
    open(p, "w").write(yaml_dump(cfg))
    return p


# ------------------------------------------------------------------------------------------------ corpus (C03)
FEATURES = ["pkgs", "cands", "defaults", "compose", "nested", "collide"]


def _shape_objects(cands):
    objs = [("Root", "struct", [("name", "string", True, "n"), ("mode", ("ref", "Mode"), False, None),
                                 ("tags", ("array", "string"), False, ["t1", "t2"]), ("labels", ("map", "string"), False, None)]),
            ("Mode", "enum", ["a", "b"])]
    if cands:
        objs[0][2].append(("shape", ("ref", "Shape"), False, None))
        objs += [("Shape", "union", ["Circle", "Square"]),
                 ("Circle", "struct", [("kind", ("const", "circle"), True, None), ("type", ("const", "c"), True, None), ("r", "int", False, None)]),
                 ("Square", "struct", [("kind", ("const", "square"), True, None), ("type", ("const", "s"), True, None), ("side", "int", False, None)])]
    return objs


def feature_entry(base, name, f, langs=None, flags=None):
    """One real pipeline for a feature vector f (dict over FEATURES, the witness shape TLC printed)."""
    langs = langs or LANGS
    d = os.path.join(base, name)
    os.makedirs(d)
    inputs, pkgs = [], []
    alpha = {"pkg": "alpha", "objects": _shape_objects(f.get("cands"))}
    if f.get("collide"):
        # two definitions whose names collide (last path segment "C"), reached through two properties of the root
        doc = json.loads(render_jsonschema(alpha))
        doc["definitions"]["Root"]["properties"]["pa"] = {"$ref": "#/definitions/a/C"}
        doc["definitions"]["Root"]["properties"]["pb"] = {"$ref": "#/definitions/b/C"}
        doc["definitions"]["a"] = {"C": {"type": "object", "properties": {"fromA": {"type": "string"}}}}
        doc["definitions"]["b"] = {"C": {"type": "object", "properties": {"fromB": {"type": "integer"}}}}
        open(os.path.join(d, "alpha.schema.json"), "w").write(json.dumps(doc, indent=1))
        inputs.append({"jsonschema": {"path": "%__config_dir%/alpha.schema.json", "package": "alpha"}})
    else:
        inputs.append(write_input(d, alpha, "jsonschema"))
    pkgs.append("alpha")
    if f.get("pkgs"):
        beta = {"pkg": "beta", "objects": _shape_objects(f.get("cands"))}
        mapping = {"Shape": {"propertyName": "kind", "mapping": {"circle": "Circle", "square": "Square"}}} if f.get("cands") else None
        inputs.append(write_input(d, beta, "openapi", extra={"_mapping": mapping} if mapping else None))
        pkgs.append("beta")
        if f["pkgs"] >= 2:
            inputs.append(write_input(d, {"pkg": "gamma", "objects": _shape_objects(f.get("cands"))}, "cue"))
            pkgs.append("gamma")
    veneers = None
    builders = bool((flags or {}).get("builders", True))
    if f.get("compose"):
        builders = True
        dash = {"$schema": "http://json-schema.org/draft-07/schema#", "$ref": "#/definitions/Panel", "definitions": {
            "Panel": {"type": "object", "required": ["type"], "properties": {
                "type": {"type": "string"}, "title": {"type": "string"}, "options": {}, "fieldConfig": {}}}}}
        open(os.path.join(d, "dash.schema.json"), "w").write(json.dumps(dash, indent=1))
        inputs.append({"jsonschema": {"path": "%__config_dir%/dash.schema.json", "package": "dash",
                                      "metadata": {"kind": "core", "identifier": "Dashboard"}}})
        pkgs.append("dash")
        for i in range(f["compose"] + 1 if f["compose"] > 1 else 2):
            t = "plug%d" % (i + 1)
            sch = {"$schema": "http://json-schema.org/draft-07/schema#", "$ref": "#/definitions/Options", "definitions": {
                "Options": {"type": "object", "properties": {"legend" + str(i): {"type": "string"}, "show": {"type": "boolean"}}}}}
            open(os.path.join(d, t + ".schema.json"), "w").write(json.dumps(sch, indent=1))
            inputs.append({"jsonschema": {"path": "%__config_dir%/" + t + ".schema.json", "package": t,
                                          "metadata": {"kind": "composable", "variant": "panelcfg", "identifier": t}}})
            pkgs.append(t)
        vd = os.path.join(d, "veneers")
        os.makedirs(vd)
        open(os.path.join(vd, "dash.yaml"), "w").write(yaml_dump({"language": "all", "package": "dash", "builders": [
            {"compose": {"by_variant": "panelcfg", "source_builder_name": "dash.Panel", "plugin_discriminator_field": "type",
                         "composition_map": {"Options": "options"}}}]}))
        veneers = ["%__config_dir%/veneers"]
    passes = None
    if f.get("defaults"):
        open(os.path.join(d, "common.yaml"), "w").write(yaml_dump({"passes": [
            {"fields_set_default": {"defaults": {"alpha.Root.name": "v1", "alpha.root.NAME": "v2"}}},
            {"hint_object": {"object": "alpha.Root", "hints": {"h_one": "1", "h_two": "2"}}}]}))
        passes = ["%__config_dir%/common.yaml"]
    params = {"a": "%b%", "b": "o"} if f.get("nested") else None
    lang_cfg = None
    directory = "out/%l"
    tdata = None
    if f.get("nested"):
        directory = "out-%a%/%l"
        tdata = {"k1": "%a%", "k2": "w"}
        lang_cfg = {l: dict(LANG_CFG[l]) for l in langs}
        if "go" in lang_cfg:
            lang_cfg["go"]["package_root"] = "example.com/%a%/go"
    fl = dict(types=True, builders=builders, converters=builders, api_reference=True)
    fl.update(flags or {})
    y = write_pipeline(d, "pipeline", inputs, langs, parameters=params, common_passes=passes, veneers=veneers,
                       templates_data=tdata, lang_cfg=lang_cfg, directory=directory, **fl)
    return {"id": name, "yaml": y, "inspect": True, "outdir": "out", "langs": list(langs), "pkgs": pkgs,
            "features": {k: f.get(k, 0) for k in FEATURES}, "flags": fl}


def testdata_entries(base, tier_quick, seed):
    """Pipelines over the repository's own schemas (offline): testdata/jsonschema|openapi|simplecue and
    config/foundation_sdk.tests.yaml (the only example pipeline that needs no network)."""
    out = []
    repo = core.REPO
    d = os.path.join(base, "repo")
    os.makedirs(d)
    cands = []
    for fmt, sub, fname in (("jsonschema", "jsonschema", "schema.json"), ("openapi", "openapi", "schema.json")):
        root = os.path.join(repo, "testdata", sub)
        for n in sorted(os.listdir(root)) if os.path.isdir(root) else []:
            p = os.path.join(root, n, fname)
            if os.path.exists(p):
                cands.append((fmt, n, {"path": p, "package": n}))
    root = os.path.join(repo, "testdata", "simplecue")
    for n in sorted(os.listdir(root)) if os.path.isdir(root) else []:
        if os.path.exists(os.path.join(root, n, "schema.cue")):
            cands.append(("cue", n, None))
    # groups of three inputs of different packages, one pipeline per group
    groups = []
    byfmt = {}
    for c in cands:
        byfmt.setdefault(c[0], []).append(c)
    n = max(len(v) for v in byfmt.values()) if byfmt else 0
    for i in range(n):
        g = []
        names = set()
        for fmt in ("jsonschema", "openapi"):
            lst = byfmt.get(fmt, [])
            if lst:
                c = lst[(i + seed) % len(lst)]
                pkg = c[1] + "_" + fmt[:2]
                if pkg not in names:
                    names.add(pkg)
                    g.append({fmt: dict(c[2], package=pkg)})
        groups.append((g, sorted(names)))
    take = 3 if tier_quick else len(groups)
    start = (seed * 3) % max(1, len(groups))
    for k in range(min(take, len(groups))):
        g, names = groups[(start + k) % len(groups)]
        name = "repo-testdata-%02d" % ((start + k) % len(groups))
        dd = os.path.join(d, name)
        os.makedirs(dd)
        y = write_pipeline(dd, "pipeline", g, LANGS, types=True, builders=True, converters=False, api_reference=False)
        out.append({"id": name, "yaml": y, "inspect": True, "outdir": "out", "langs": LANGS, "pkgs": names,
                    "features": {}, "flags": {"types": True, "builders": True}, "source": "testdata"})
    tests_yaml = os.path.join(repo, "config", "foundation_sdk.tests.yaml")
    if os.path.exists(tests_yaml):
        out.append({"id": "repo-foundation_sdk.tests", "yaml": tests_yaml, "inspect": True, "outdir": "testdata/generated", "langs": ["go"],
                    "pkgs": ["defaults", "equality", "validation"], "features": {}, "flags": {"types": True}, "source": "config",
                    "params": {"output_dir": "testdata/generated/%l"}})
    return out


# ------------------------------------------------------------------------------------------------ TLC (design level)
ALL_STAGES = '{"interpolate", "defnames", "consolidate", "setdefault", "langloop", "infer", "compose"}'
NSLICES = 4


def tlc_requirement(ctx, rels, want_cases=False):
    """Pipeline2 with every stage at requirement level: the six hyper-properties must hold (pass/fail run)."""
    quick = ctx.quick()
    consts = {"Rels": "{%s}" % ", ".join('"%s"' % r for r in rels),
              "Universe": 1 if quick else 0, "DrawAll": "FALSE" if quick else "TRUE",
              "Slice": ctx.seed % NSLICES if quick else 0, "NSlices": NSLICES if quick else 1}
    r = ctx.run_tlc("Pipeline2MC", "Pipeline2MC.cfg", workers=4 if quick else 8, timeout=1500, constants=consts)
    cases = []
    if want_cases:
        seen = set()
        for c in core.tagged_lines(r["out"], "CASE"):
            k = json.dumps([c["rel"], c["inputs1"], c["inputs2"], c["allowed"], c["ndefkeys"]], sort_keys=True)
            if k not in seen:
                seen.add(k)
                cases.append(c)
    os.remove(r["out"])
    return r, cases


def run_tlc_expect_violation(ctx, module, cfg, invariant, **kw):
    """run_tlc for a run that is expected to stop at a counterexample. core.run_tlc looks for the verdict in the last 20 kB of
    the output, which a long counterexample can push out of sight: print changed variables only, and on doubt scan the file."""
    try:
        r = ctx.run_tlc(module, cfg, allow_violation=True, extra=["-difftrace"], **kw)
        hit = r["violated"]
    except core.Inconclusive:
        dirs = sorted(d for d in os.listdir(ctx.scratch) if d.endswith("tlc-" + module))
        out = os.path.join(ctx.scratch, dirs[-1], "tlc.out")
        txt = open(out, errors="replace").read()
        if ("Invariant %s is violated" % invariant) not in txt:
            raise
        m = None
        import re
        for m in re.finditer(r"(\d+) states generated, (\d+) distinct states found", txt):
            pass
        r = {"out": out, "violated": True, "generated": int(m.group(1)) if m else 0, "distinct": int(m.group(2)) if m else 0, "wall": 0.0}
        ctx.tlc_runs.append({"cmd": "tlc %s %s (counterexample)" % (module, cfg), "generated": r["generated"], "distinct": r["distinct"],
                             "wall": 0.0, "module": module, "cfg": cfg})
        hit = True
    if hit:
        txt = core._tail(r["out"], 4000000)
        hit = ("Invariant %s is violated" % invariant) in txt
    if os.path.exists(r["out"]):
        os.remove(r["out"])
    r["violated"] = hit
    return r


def tlc_witnesses(ctx):
    """Pipeline2 with the stages as coded: (1) Deterministic IS violated (strict run stops at the first counterexample),
    (2) witness generation: every (shape, differing components) for which some schedule disagrees with the canonical one."""
    strict = run_tlc_expect_violation(ctx, "Pipeline2MC", "Pipeline2AsCodedStrict.cfg", "Deterministic", workers=4, timeout=600)
    if not strict["violated"]:
        raise core.Inconclusive("the as-coded model is not order-sensitive: the witness generator is vacuous")
    r = ctx.run_tlc("Pipeline2MC", "Pipeline2AsCoded.cfg", workers=4, timeout=1500, extra=["-continue"])
    shapes = {}
    n = 0
    for w in core.tagged_lines(r["out"], "WITNESS"):
        n += 1
        sh = w["shape"]
        f = (max(0, sh["npkgs"] - 1), 1 if sh["ncands"] >= 2 else 0, 1 if sh["ndefvals"] >= 2 else 0,
             sh["ncompose"] if sh["ncompose"] >= 2 else 0, 1 if sh["nested"] else 0, 1 if sh["collide"] else 0)
        shapes.setdefault(f, set()).update(w["differs"])
    os.remove(r["out"])
    minimal = [f for f in shapes if not any(g != f and all(a <= b for a, b in zip(g, f)) for g in shapes)]
    top = tuple(max(f[i] for f in shapes) for i in range(len(FEATURES))) if shapes else None
    return {"strict": strict, "run": r, "witness_lines": n, "shapes": shapes, "minimal": sorted(minimal), "top": top}


def tlc_faults(ctx, only=None):
    """Model self-test for C07: each seeded design fault must violate the invariant that names it."""
    expect = {"nocopy": "InputsNeverMutated", "overwrite": "MergeIsUnionOrConflict", "dropgroup": "MergeIsUnionOrConflict",
              # a builder rule keeping what it resolved for the language before; a post-processing step keeping what it recorded
              # for the package before (only visible when the unrelated package is ordered BEFORE one that stays)
              "rulememo": "LanguageIndependent", "carry": "UnrelatedInputIrrelevant"}
    rels = {"carry": '{"extra"}'}
    res = {}
    for fault, inv in sorted(expect.items()):
        if only and fault != only:
            continue
        r = run_tlc_expect_violation(ctx, "Pipeline2MC", "Pipeline2MC.cfg", inv, workers=4, timeout=900,
                                     constants={"Faults": '{"%s"}' % fault, "Universe": 2, "Rels": rels.get(fault, '{"same", "langs"}')})
        if not r["violated"]:
            raise core.Inconclusive("model self-test: fault %s did not violate %s" % (fault, inv))
        res[fault] = inv
    return res


# ------------------------------------------------------------------------------------------------ running jobs
def run_jobs(ctx, command, jobs, args=None, parallel=12, timeout=3000, max_timeouts=4, cwd=None):
    """Feed jobs (dicts) to a worker sub-command over P parallel processes; returns the list of output records.

    A worker that hits its per-run watchdog reports the job (a record with "timeout"), exits with code 3 and is restarted
    on the jobs that follow it."""
    if not jobs:
        return []
    p = max(1, min(parallel, len(jobs)))
    d = ctx.sub(command)
    env = ctx.goenv()
    pending = [(k, jobs[k::p], 0) for k in range(p)]
    out = []
    ntimeouts = 0
    deadline = time.time() + timeout
    while pending:
        procs = []
        for (k, part, gen) in pending:
            fin = os.path.join(d, "in-%d-%d.ndjson" % (k, gen))
            fout = os.path.join(d, "out-%d-%d.ndjson" % (k, gen))
            open(fin, "w").write("".join(json.dumps(j) + "\n" for j in part))
            pr = subprocess.Popen([ctx.worker, command] + (args or []), stdin=open(fin), stdout=open(fout, "w"), stderr=subprocess.PIPE, env=env, cwd=cwd)
            procs.append((pr, fout, k, part, gen))
        pending = []
        for pr, fout, k, part, gen in procs:
            try:
                _, err = pr.communicate(timeout=max(1, deadline - time.time()))
            except subprocess.TimeoutExpired:
                for q in procs:
                    q[0].kill()
                raise core.Inconclusive("worker %s timed out" % command)
            recs = [json.loads(x) for x in open(fout) if x.strip()]
            out += recs
            if pr.returncode == 3:
                timed = [r for r in recs if r.get("timeout") or r.get("kind") == "timeout"]
                if not timed:
                    raise core.Inconclusive("worker %s exited on its watchdog without naming the job" % command)
                last = timed[-1].get("id") or timed[-1].get("job")
                idx = [j.get("id") for j in part].index(last)
                rest = part[idx + 1:]
                ntimeouts += 1
                if rest and ntimeouts <= max_timeouts:
                    pending.append((k, rest, gen + 1))
                elif rest:
                    ctx.notes.append("%s: %d jobs not run after %d watchdog timeouts" % (command, len(rest), ntimeouts))
            elif pr.returncode != 0:
                core.log(err.decode(errors="replace")[-3000:])
                raise core.Inconclusive("worker %s failed (exit %d)" % (command, pr.returncode))
    return out


# ------------------------------------------------------------------------------------------------ trace validation
def _nonempty(m):
    m = dict(m or {})
    m["_"] = "-"        # the TLA+ Json module has no empty record
    return m


def run_record(inputs, cfg, langs, outcome, nsched=1):
    files = _nonempty(outcome.get("files"))
    # files specific to a package only ("" collects the shared runtime / index / registry files: not compared)
    pk = {l: _nonempty({p: h for p, h in v.items() if p}) for l, v in (outcome.get("pkgfiles") or {}).items()}
    ir = outcome.get("ir") or {}
    return {"kind": "run", "inputs": list(inputs), "cfg": cfg, "langs": sorted(langs), "err": bool(outcome.get("err")),
            "files": files, "pkgfiles": dict(pk, **{"_": {"_": "-"}}),
            "ir": "|".join("%s=%s" % (k, ir[k]) for k in sorted(ir)) or "-", "nsched": nsched,
            "parts": [[["-", "-"]]], "whole": {"err": True, "defs": [["-", "-"]]}, "before": "-", "after": "-", "step": "-"}


def merge_record(parts, whole_err, whole_defs, tag):
    def defs(d):
        return [[n, h] for n, h in sorted(d.items())] or [["-", "-"]]
    r = run_record([], "-", [], {})
    r.update(kind="merge", step=tag, parts=[defs(p) for p in parts], whole={"err": bool(whole_err), "defs": defs(whole_defs or {})})
    r["inputs"] = ["-"]
    r["langs"] = ["-"]
    return r


def immut_record(step, before, after):
    r = run_record([], "-", [], {})
    r.update(kind="immut", step=step, before=before, after=after, inputs=["-"], langs=["-"])
    return r


def validate_trace(ctx, records, inputs_table, strict=False, allow_violation=False):
    d = ctx.sub("trace")
    t = os.path.join(d, "pipeline_trace.ndjson")
    open(t, "w").write("".join(json.dumps(r) + "\n" for r in records))
    tb = os.path.join(d, "pipeline_inputs.json")
    tab = dict(inputs_table)
    tab["-"] = {"pkg": "-"}
    json.dump(tab, open(tb, "w"))
    r = ctx.run_tlc("PipelineTrace", "PipelineTrace.cfg", workers=1, timeout=1500,
                    files={"pipeline_trace.ndjson": t, "pipeline_inputs.json": tb},
                    constants={"Strict": "TRUE" if strict else "FALSE"}, allow_violation=allow_violation)
    fails = list(core.tagged_lines(r["out"], "FAIL"))
    consumed = None
    for line in open(r["out"], errors="replace"):
        if line.startswith('<<"CONSUMED", '):
            consumed = int(line[len('<<"CONSUMED", '):].rstrip(">\n"))
    if not strict and consumed != len(records):
        raise core.Inconclusive("PipelineTrace consumed %s of %d records" % (consumed, len(records)))
    return r, fails


def sink_entry(base, name="sink"):
    """A pipeline that reaches map-ranging sites the witness shapes do not: repository templates (AsLanguageRefs),
    CLI parameters, templates_data, packages_import_map, a renamed discriminator target, a struct-valued default,
    CUE library imports."""
    d = os.path.join(base, name)
    os.makedirs(d)
    langs = LANGS
    inputs = [write_input(d, {"pkg": "alpha", "objects": _shape_objects(1)}, "jsonschema")]
    beta = {"pkg": "beta", "objects": _shape_objects(1)}
    inputs.append(write_input(d, beta, "openapi", extra={"_mapping": {"Shape": {"propertyName": "kind", "mapping": {"circle": "Circle", "square": "Square"}}}}))
    # CUE with a struct-valued default and two imported libraries
    for lib in ("libone", "libtwo"):
        os.makedirs(os.path.join(d, lib))
        open(os.path.join(d, lib, lib + ".cue"), "w").write("package %s\n\nLabel: {\n  text: string\n}\n" % lib)
    os.makedirs(os.path.join(d, "cue_gamma"))
    open(os.path.join(d, "cue_gamma", "gamma.cue"), "w").write(
        'package cue_gamma\n\nimport (\n  one "example.com/libone"\n  two "example.com/libtwo"\n)\n\n'
        'Opt: {\n  a: string\n  b: string\n}\n\nThing: {\n  id: string\n  cfg: Opt | *{a: "x", b: "y"}\n  first?: one.Label\n  second?: two.Label\n}\n')
    inputs.append({"cue": {"entrypoint": "%__config_dir%/cue_gamma", "package": "gamma",
                           "cue_imports": ["%__config_dir%/libone:example.com/libone", "%__config_dir%/libtwo:example.com/libtwo"]}})
    inputs.append({"cue": {"entrypoint": "%__config_dir%/libone", "package": "libone"}})
    inputs.append({"cue": {"entrypoint": "%__config_dir%/libtwo", "package": "libtwo"}})
    open(os.path.join(d, "common.yaml"), "w").write(yaml_dump({"passes": [
        {"rename_object": {"from": "beta.Circle", "to": "Round"}},
        {"hint_object": {"object": "alpha.Root", "hints": {"h_one": "1", "h_two": "2"}}}]}))
    rt = os.path.join(d, "repo_templates")
    for sub, fn, body in (("common", "README.md", "languages: {{ .Extra.k1 }}\n"), ("go", "go.txt", "go {{ .Extra.k2 }}\n"),
                          ("python", "py.txt", "python\n"), ("typescript", "ts.txt", "ts\n")):
        os.makedirs(os.path.join(rt, sub))
        open(os.path.join(rt, sub, fn), "w").write(body)
    lang_cfg = {l: dict(LANG_CFG[l]) for l in langs}
    lang_cfg["typescript"]["packages_import_map"] = {"alpha": "@x/alpha", "beta": "@x/beta"}
    y = write_pipeline(d, "pipeline", inputs, langs, types=True, builders=True, converters=True, api_reference=True,
                       parameters={"p1": "one", "p2": "two"}, common_passes=["%__config_dir%/common.yaml"],
                       templates_data={"k1": "%p1%", "k2": "%p2%"}, repository_templates="%__config_dir%/repo_templates", lang_cfg=lang_cfg)
    return {"id": name, "yaml": y, "inspect": True, "outdir": "out", "langs": list(langs), "pkgs": ["alpha", "beta", "gamma", "libone", "libtwo"],
            "features": {"pkgs": 2, "cands": 1}, "flags": {}, "source": "sink", "params": {"x1": "1", "x2": "2"}}


# ------------------------------------------------------------------------------------------------ corpus growth (C03): reach more sites with >= 2 keys
def _write(p, text):
    os.makedirs(os.path.dirname(p), exist_ok=True)
    open(p, "w").write(text)


def constants_entry(base, name="constants"):
    """Top-level constants whose names differ only in letter case (Java Constants.java, every other language's constants)."""
    d = os.path.join(base, name)
    _write(os.path.join(d, "cue_units", "units.cue"),
           'package cue_units\n\nms: "ms"\nMs: "Ms"\nMS: "MS"\nkb: "kb"\nkB: "kB"\nzeta: "z"\nHolder: {\n  unit: string\n  size?: int64\n}\n')
    _write(os.path.join(d, "cue_other", "other.cue"), 'package cue_other\n\nalpha: "a"\nAlpha: "A"\nThing: {\n  id: string\n}\n')
    inputs = [{"cue": {"entrypoint": "%__config_dir%/cue_units", "package": "units"}},
              {"cue": {"entrypoint": "%__config_dir%/cue_other", "package": "other"}}]
    # no API reference: two constants whose names differ only in case map to one documentation file (a duplicate-path error)
    y = write_pipeline(d, "pipeline", inputs, LANGS, types=True, builders=True, converters=False, api_reference=False)
    return {"id": name, "yaml": y, "inspect": True, "outdir": "out", "langs": list(LANGS), "pkgs": ["units", "other"],
            "features": {"pkgs": 1}, "flags": {}, "source": "constants"}


def veneers_entry(base, name="veneers", langs=None):
    """Builder transformations in both rule groups (common `all` and per language) that do not commute, factories in two
    packages (java/php factory jennies, API reference virtual objects), options on disjunctions (converters)."""
    d = os.path.join(base, name)
    os.makedirs(d)
    inputs = [write_input(d, {"pkg": "alpha", "objects": _shape_objects(1)}, "jsonschema"),
              write_input(d, {"pkg": "beta", "objects": _shape_objects(1)}, "cue")]
    string_t = {"kind": "scalar", "scalar": {"scalar_kind": "string"}}
    for pkg in ("alpha", "beta"):
        _write(os.path.join(d, "veneers", "all_%s.yaml" % pkg), yaml_dump({"language": "all", "package": pkg,
               "builders": [{"add_factory": {"by_object": "Root", "factory": {"name": "quick", "arguments": [{"name": "name", "type": string_t}],
                                                                              "options": [{"name": "name", "parameters": [{"argument": {"name": "name", "type": string_t}}]}]}}}],
               "options": [{"rename": {"by_name": "Root.name", "as": "title"}},
                           {"rename": {"by_name": "Root.mode", "as": "kind"}}]}))
        for lang in ("go", "java", "php", "python", "typescript"):
            _write(os.path.join(d, "veneers", "%s_%s.yaml" % (lang, pkg)), yaml_dump({"language": lang, "package": pkg,
                   "options": [{"omit": {"by_name": "Root.kind"}}, {"rename": {"by_name": "Root.title", "as": "heading"}}]}))
    langs = list(langs or LANGS)
    y = write_pipeline(d, "pipeline", inputs, langs, types=True, builders=True, converters=True, api_reference=True,
                       veneers=["%__config_dir%/veneers"])
    return {"id": name, "yaml": y, "inspect": True, "outdir": "out", "langs": langs, "pkgs": ["alpha", "beta"],
            "features": {"pkgs": 1, "cands": 1}, "flags": {}, "source": "veneers"}


def passes_entry(base, name="passes"):
    """Schema transformations and language passes that range over hints / mappings: a hinted disjunction, a hinted alias whose
    reference is replaced, an intersection over a hinted object (Java removes intersections), a map-valued default."""
    d = os.path.join(base, name)
    os.makedirs(d)
    doc = {"$schema": "http://json-schema.org/draft-07/schema#", "$ref": "#/definitions/Root", "definitions": {
        "Root": {"type": "object", "required": ["name"], "properties": {
            "name": {"type": "string"}, "shape": {"$ref": "#/definitions/Shape"}, "alias": {"$ref": "#/definitions/Alias"},
            "mix": {"$ref": "#/definitions/Mix"}, "choice": {"$ref": "#/definitions/Choice"},
            "limits": {"type": "object", "additionalProperties": {"type": "number"}, "default": {"low": 1, "high": 2.5, "mid": 2}},
            "words": {"type": "object", "additionalProperties": {"type": "string"}, "default": {"a": "x", "b": "y"}}}},
        "Shape": {"oneOf": [{"$ref": "#/definitions/Circle"}, {"$ref": "#/definitions/Square"}]},
        "Circle": {"type": "object", "required": ["kind"], "properties": {"kind": {"type": "string", "const": "circle"}, "r": {"type": "integer"}}},
        "Square": {"type": "object", "required": ["kind"], "properties": {"kind": {"type": "string", "const": "square"}, "side": {"type": "integer"}}},
        "Alias": {"$ref": "#/definitions/Mode"},
        "Mode": {"type": "string", "enum": ["a", "b"]},
        "Other": {"type": "string", "enum": ["o", "p"]},
        "Base": {"type": "object", "properties": {"id": {"type": "string"}}},
        # a union of intersections: Java turns the union into a struct that keeps the union as a hint, then removes the intersections
        "PartA": {"allOf": [{"$ref": "#/definitions/Base"}, {"type": "object", "required": ["kind"], "properties": {"kind": {"type": "string", "const": "a"}}}]},
        "PartB": {"allOf": [{"$ref": "#/definitions/Base"}, {"type": "object", "required": ["kind"], "properties": {"kind": {"type": "string", "const": "b"}}}]},
        "Choice": {"oneOf": [{"$ref": "#/definitions/PartA"}, {"$ref": "#/definitions/PartB"}]},
        "Mix": {"allOf": [{"$ref": "#/definitions/Base"}, {"type": "object", "properties": {
            "extra": {"type": "string"}, "inner": {"type": "object", "properties": {"deep": {"type": "string"}}}}}]}}}
    _write(os.path.join(d, "alpha.schema.json"), json.dumps(doc, indent=1))
    _write(os.path.join(d, "common.yaml"), yaml_dump({"passes": [
        {"hint_object": {"object": "alpha.Shape", "hints": {"h_one": "1", "h_two": "2"}}},
        {"hint_object": {"object": "alpha.Alias", "hints": {"h_one": "1", "h_two": "2"}}},
        {"hint_object": {"object": "alpha.Base", "hints": {"h_one": "1", "h_two": "2"}}},
        {"replace_reference": {"from": "alpha.Mode", "to": "alpha.Other"}}]}))
    inputs = [{"jsonschema": {"path": "%__config_dir%/alpha.schema.json", "package": "alpha"}}]
    # Python has no intersections (explicit panic, C04's finding); the Go jenny prints the map-valued defaults as invalid Go
    langs = ["java", "typescript", "jsonschema", "openapi"]      # PHP has no intersections either
    # types only: deriving builders for an object that is a bare reference crashes (nil struct), not this property's business
    y = write_pipeline(d, "pipeline", inputs, langs, types=True, builders=False, converters=False, api_reference=False,
                       common_passes=["%__config_dir%/common.yaml"])
    return {"id": name, "yaml": y, "inspect": True, "outdir": "out", "langs": langs, "pkgs": ["alpha"],
            "features": {"cands": 0}, "flags": {}, "source": "passes"}


def culibs_entry(base, name="cuelibs"):
    """CUE libraries whose import paths overlap (one is a prefix of the other) and that hold lists of their own types."""
    d = os.path.join(base, name)
    for lib in ("lib", "libtwo"):
        _write(os.path.join(d, lib, lib + ".cue"),
               "package %s\n\nLabel: {\n  text: string\n}\nLabels: {\n  items: [...Label]\n  first?: Label\n}\n" % lib)
    _write(os.path.join(d, "cue_main", "main.cue"),
           'package cue_main\n\nimport (\n  one "example.com/lib"\n  two "example.com/libtwo"\n)\n\nThing: {\n  id: string\n  a?: one.Labels\n  b?: two.Labels\n  c?: [...two.Label]\n}\n')
    imports = ["%__config_dir%/lib:example.com/lib", "%__config_dir%/libtwo:example.com/libtwo"]
    inputs = [{"cue": {"entrypoint": "%__config_dir%/cue_main", "package": "main", "cue_imports": imports}},
              {"cue": {"entrypoint": "%__config_dir%/lib", "package": "lib", "cue_imports": imports}},
              {"cue": {"entrypoint": "%__config_dir%/libtwo", "package": "libtwo", "cue_imports": imports}}]
    langs = ["go", "typescript", "jsonschema"]
    y = write_pipeline(d, "pipeline", inputs, langs, types=True, builders=False)
    return {"id": name, "yaml": y, "inspect": True, "outdir": "out", "langs": langs, "pkgs": ["main", "lib", "libtwo"],
            "features": {"pkgs": 2}, "flags": {}, "source": "cuelibs"}


GROWTH_ENTRIES = {"constants": constants_entry, "veneers": veneers_entry, "passes": passes_entry, "cuelibs": culibs_entry}


def veneer_params_entry(base, name="veneerparams", langs=None):
    """Every builder / option rule that takes a map- or list-valued parameter, with >= 2 entries that OVERLAP (a rename map whose
    values are also keys, lists whose items differ only in letter case or name the same thing twice)."""
    d = os.path.join(base, name)
    os.makedirs(d)
    doc = {"$schema": "http://json-schema.org/draft-07/schema#", "$ref": "#/definitions/Root", "definitions": {
        "Root": {"type": "object", "required": ["name"], "properties": {
            "name": {"type": "string"}, "enabled": {"type": "boolean"}, "tags": {"type": "array", "items": {"type": "string"}},
            "labels": {"type": "object", "additionalProperties": {"type": "string"}},
            "limits": {"$ref": "#/definitions/Limits"}, "point": {"$ref": "#/definitions/Point"}, "extent": {"$ref": "#/definitions/Extent"}}},
        "Limits": {"type": "object", "properties": {"min": {"type": "integer"}, "max": {"type": "integer"}, "step": {"type": "integer"}, "Step": {"type": "integer"}}},
        "Extent": {"type": "object", "properties": {"a": {"type": "integer"}, "b": {"type": "integer"}, "c": {"type": "integer"}}},
        "Point": {"type": "object", "properties": {"x": {"type": "integer"}, "y": {"type": "integer"}, "z": {"type": "integer"}}}}}
    _write(os.path.join(d, "alpha.schema.json"), json.dumps(doc, indent=1))
    string_t = {"kind": "scalar", "scalar": {"scalar_kind": "string"}}
    strings_t = {"kind": "array", "array": {"value_type": string_t}}
    # an object default on a struct-typed field: struct_fields_as_arguments spreads it over the new arguments
    _write(os.path.join(d, "common.yaml"), yaml_dump({"passes": [
        {"fields_set_default": {"defaults": {"alpha.Root.point": {"x": 1, "y": 2}, "alpha.Point.x": 5}}}]}))
    for lang in ("go", "java"):
        _write(os.path.join(d, "veneers", lang + ".yaml"), yaml_dump({"language": lang, "package": "alpha", "options": [
            {"array_to_append": {"by_name": "Root.extraTags"}}]}))
    _write(os.path.join(d, "veneers", "all.yaml"), yaml_dump({"language": "all", "package": "alpha", "builders": [
        # rename map: a swap; exclude list: two spellings of one name
        {"merge_into": {"destination": "Root", "source": "Limits", "under_path": "limits",
                        "exclude_options": ["step", "Step"], "rename_options": {"min": "max", "max": "min"}}},
        # rename map: a chain
        {"merge_into": {"destination": "Root", "source": "Extent", "under_path": "extent", "rename_options": {"a": "b", "b": "c", "c": "d"}}},
        {"duplicate": {"by_object": "Point", "as": "PointCopy", "exclude_options": ["x", "X", "x"]}},
        {"promote_options_to_constructor": {"by_object": "Point", "options": ["y", "x", "y"]}},
        {"properties": {"by_object": "Root", "set": [{"name": "scratch", "type": string_t}, {"name": "Scratch", "type": string_t}]}},
        {"initialize": {"by_object": "Root", "set": [{"property": "name", "value": "first"}, {"property": "name", "value": "second"}]}},
        # an option created by a common rule, which language-specific option rules then act on (array_to_append in go.yaml)
        {"add_option": {"by_object": "Root", "option": {"name": "extraTags", "arguments": [{"name": "extraTags", "type": strings_t}],
                        "assignments": [{"path": "tags", "method": "direct", "value": {"argument": {"name": "extraTags", "type": strings_t}}}]}}},
    ], "options": [
        {"rename_arguments": {"by_name": "Root.name", "as": ["title"]}},
        {"unfold_boolean": {"by_name": "Root.enabled", "true_as": "enable", "false_as": "disable"}},
        {"array_to_append": {"by_name": "Root.tags"}},
        {"map_to_index": {"by_name": "Root.labels"}},
        {"struct_fields_as_arguments": {"by_name": "Root.point", "fields": ["x", "y", "x"]}},
        {"add_comments": {"by_names": {"object": "Root", "options": ["name", "tags", "name"]}, "comments": ["one", "two"]}},
    ]}))
    inputs = [{"jsonschema": {"path": "%__config_dir%/alpha.schema.json", "package": "alpha"}}]
    langs = list(langs or LANGS)
    y = write_pipeline(d, "pipeline", inputs, langs, types=True, builders=True, converters=True, api_reference=True,
                       veneers=["%__config_dir%/veneers"], common_passes=["%__config_dir%/common.yaml"])
    return {"id": name, "yaml": y, "inspect": True, "outdir": "out", "langs": langs, "pkgs": ["alpha"],
            "features": {}, "flags": {}, "source": "veneerparams"}


GROWTH_ENTRIES["veneerparams"] = veneer_params_entry


def write_constref_cue(d, cuepkg, pkg):
    """A CUE package with a named enum and CONSTANT REFERENCES to its members (`kind: Kind & "circle"`)."""
    _write(os.path.join(d, cuepkg, "s.cue"),
           'package %s\n\nKind: "circle" | "square" @cog(kind="enum")\n\nCircle: {\n  kind: Kind & "circle"\n  radius: number\n}\n\n'
           'Square: {\n  kind: Kind & "square"\n  side: number\n}\n\nDrawing: {\n  title: string\n  first?: Circle\n  second?: Square\n}\n' % cuepkg)
    return {"cue": {"entrypoint": "%__config_dir%/" + cuepkg, "package": pkg}}


def constref_entry(base, name="constref"):
    """Constant references + name-changing transformations: as an explicit chain (rename_object on the enum) and, for the
    callers that support it, as a final pass of every language chain (final_prefix)."""
    d = os.path.join(base, name)
    os.makedirs(d)
    inputs = [write_constref_cue(d, "cue_shapes", "alpha")]
    _write(os.path.join(d, "chain_rename_enum.yaml"), yaml_dump({"passes": [{"rename_object": {"from": "alpha.Kind", "to": "Sort"}}]}))
    y = write_pipeline(d, "pipeline", inputs, LANGS, types=True, builders=True, converters=False, api_reference=False)
    return {"id": name, "yaml": y, "inspect": True, "outdir": "out", "langs": list(LANGS), "pkgs": ["alpha"], "features": {}, "flags": {},
            "source": "constref", "chains": [os.path.join(d, "chain_rename_enum.yaml")], "final_prefix": "Geo"}


GROWTH_ENTRIES["constref"] = constref_entry


def nested_defaults_entry(base, name="nesteddefaults", langs=None):
    """Struct-valued defaults nested three levels deep with >= 2 keys at EVERY level (a default that overrides a struct-typed
    field whose value again overrides a struct-typed field ...), set through fields_set_default and through CUE defaults."""
    d = os.path.join(base, name)
    os.makedirs(d)
    strp = lambda: {"type": "string"}
    doc = {"$schema": "http://json-schema.org/draft-07/schema#", "$ref": "#/definitions/Panel", "definitions": {
        "Panel": {"type": "object", "properties": {"title": strp(), "fieldConfig": {"$ref": "#/definitions/FieldConfig"}, "other": {"$ref": "#/definitions/FieldConfig"}}},
        "FieldConfig": {"type": "object", "properties": {"title": strp(), "unit": strp(), "thresholds": {"$ref": "#/definitions/Thresholds"}}},
        "Thresholds": {"type": "object", "properties": {"mode": strp(), "color": strp(), "unit": strp(), "style": {"$ref": "#/definitions/Style"}}},
        "Style": {"type": "object", "properties": {"width": {"type": "integer"}, "dash": strp(), "cap": strp()}}}}
    _write(os.path.join(d, "alpha.schema.json"), json.dumps(doc, indent=1))
    nested = {"title": "t", "unit": "u", "thresholds": {"mode": "absolute", "color": "red", "unit": "ms",
                                                         "style": {"width": 2, "dash": "solid", "cap": "round"}}}
    _write(os.path.join(d, "common.yaml"), yaml_dump({"passes": [
        {"fields_set_default": {"defaults": {"alpha.Panel.fieldConfig": nested, "alpha.Panel.other": {"unit": "s", "title": "o", "thresholds": {"color": "blue", "mode": "pct"}}}}}]}))
    _write(os.path.join(d, "cue_beta", "beta.cue"),
           'package cue_beta\n\nStyle: {\n  width: int64 | *1\n  dash: string | *"none"\n}\nThresholds: {\n  mode: string\n  color: string\n  style: Style\n}\n'
           'FieldConfig: {\n  title: string\n  unit: string\n  thresholds: Thresholds\n}\n'
           'Panel: {\n  name: string\n  fieldConfig: FieldConfig | *{title: "t", unit: "u", thresholds: {mode: "abs", color: "red", style: {width: 3, dash: "dot"}}}\n}\n')
    inputs = [{"jsonschema": {"path": "%__config_dir%/alpha.schema.json", "package": "alpha"}},
              {"cue": {"entrypoint": "%__config_dir%/cue_beta", "package": "beta"}}]
    # TypeScript panics on a struct default that overrides a struct-typed field (nil struct in defaultValueForStructs): C04's business
    langs = list(langs or [l for l in LANGS if l != "typescript"])
    y = write_pipeline(d, "pipeline", inputs, langs, types=True, builders=True, converters=False, api_reference=False,
                       common_passes=["%__config_dir%/common.yaml"])
    return {"id": name, "yaml": y, "inspect": True, "outdir": "out", "langs": langs, "pkgs": ["alpha", "beta"],
            "features": {"pkgs": 1}, "flags": {}, "source": "nesteddefaults"}


GROWTH_ENTRIES["nesteddefaults"] = nested_defaults_entry


def pets_entry(base, name="pets", langs=None):
    """An undiscriminated union of THREE struct branches whose discriminator has to be inferred: every branch carries two
    constant fields, `api` (v1 / v2 / v1: the same value in two NON-adjacent branches, not a discriminator) and `kind`
    (different everywhere). `api` sorts first, so it has to be rejected whatever order the branches are visited in. A second
    union has four branches and three candidate fields."""
    d = os.path.join(base, name)
    os.makedirs(d)
    const = lambda v: {"type": "string", "const": v}
    def branch(**consts):
        props = {k: const(v) for k, v in consts.items()}
        props["label"] = {"type": "string"}
        return {"type": "object", "required": sorted(consts), "properties": props}
    doc = {"$schema": "http://json-schema.org/draft-07/schema#", "$ref": "#/definitions/Holder", "definitions": {
        "Holder": {"type": "object", "required": ["pet"], "properties": {"pet": {"$ref": "#/definitions/Pet"}, "vehicle": {"$ref": "#/definitions/Vehicle"}}},
        "Pet": {"oneOf": [{"$ref": "#/definitions/Cat"}, {"$ref": "#/definitions/Dog"}, {"$ref": "#/definitions/Bird"}]},
        "Cat": branch(api="v1", kind="cat"), "Dog": branch(api="v2", kind="dog"), "Bird": branch(api="v1", kind="bird"),
        "Vehicle": {"oneOf": [{"$ref": "#/definitions/Car"}, {"$ref": "#/definitions/Bus"}, {"$ref": "#/definitions/Van"}, {"$ref": "#/definitions/Tram"}]},
        "Car": branch(axles="2", fuel="petrol", type="car"), "Bus": branch(axles="2", fuel="diesel", type="bus"),
        "Van": branch(axles="3", fuel="petrol", type="van"), "Tram": branch(axles="2", fuel="none", type="tram")}}
    _write(os.path.join(d, "alpha.schema.json"), json.dumps(doc, indent=1))
    inputs = [{"jsonschema": {"path": "%__config_dir%/alpha.schema.json", "package": "alpha"}}]
    langs = list(langs or LANGS)
    y = write_pipeline(d, "pipeline", inputs, langs, types=True, builders=True, converters=False, api_reference=False)
    return {"id": name, "yaml": y, "inspect": True, "outdir": "out", "langs": langs, "pkgs": ["alpha"],
            "features": {"pkgs": 1}, "flags": {}, "source": "pets"}


GROWTH_ENTRIES["pets"] = pets_entry


def shareddir_entry(base, name="shareddir", langs=None):
    """Two languages generated into ONE directory (no %l in output.directory) with the API reference on: both want to write
    docs/Reference/<pkg>/index.md. cog's answer is an error (codejen.FS.Merge refuses a path that exists); whichever language
    the run visits first, the outcome has to be the same. (Both runs failing is agreement; one of them producing files is not.)"""
    d = os.path.join(base, name)
    os.makedirs(d)
    inputs = [write_input(d, {"pkg": "alpha", "objects": _shape_objects(1)}, "jsonschema")]
    langs = list(langs or ["go", "typescript", "python"])
    y = write_pipeline(d, "pipeline", inputs, langs, types=True, builders=True, converters=False, api_reference=True, directory="out")
    return {"id": name, "yaml": y, "inspect": True, "outdir": "out", "langs": langs, "pkgs": ["alpha"],
            "features": {"pkgs": 1}, "flags": {}, "source": "shareddir"}


GROWTH_ENTRIES["shareddir"] = shareddir_entry
