"""Generated-code batch pipeline shared by the Semantics.tla properties (DESIGN 4.5).

  TLC SemanticsMC (index)   ->  catalogue: id, tags, schema term
  TLC SemanticsMC (cases)   ->  per selected schema: documents (base + one-place variants) with the
                                spec's expectations accepts / norm / strictRejects / validateErrs
  render()                  ->  each schema term as JSON Schema, OpenAPI and CUE text
  worker sem-gen            ->  the REAL codegen.Pipeline (PipelineFromFile on a generated YAML) writes
                                Go into ONE scratch module, one package per (schema, format): c0001j/o/c
  go build (one invocation) ->  per-package failure attribution; `imported and not used` only => those
                                imports are removed and the package recompiled (assumption in evidence);
                                anything else => not_executable (C02's business), excluded
  driver (one binary)       ->  generated registry + reflection; ndjson commands in, records out
  reference validators      ->  python jsonschema Draft7 (python3-vt), kin-openapi, CUE (worker sem-validate)
  join + SemanticsTrace.tla ->  verdict per document / per Equals matrix, recomputed by TLC on the REAL outcomes

See checks/README_semantics.md for how to add a property on top of this.
"""
import collections
import json
import os
import random
import re
import shutil
import subprocess
import time

from vlib import core

FORMATS = ("jsonschema", "openapi", "cue")
FMT_LETTER = {"jsonschema": "j", "openapi": "o", "cue": "c", "kind": "k"}
# "kind": the same schema as a composable DataQuery KIND (kindsys_composable input): its root struct becomes the object
# `dataquery` implementing the dataquery VARIANT - the only route to dataquery_equality_method.tmpl and the variant code paths
FORMATS_WITH_KIND = FORMATS + ("kind",)
KIND_ROOT = "Dataquery"
GO_FLAGS_FULL = {"generate_json_marshaller": True, "generate_strict_unmarshaller": True,
                 "generate_equal": True, "generate_validate": True}
MODULE = "genmod"
NSHARDS = 8


class NotExpressible(Exception):
    """The schema term has no rendering in this input format (counted, never a verdict)."""


# ----------------------------------------------------------------------------------------------
# JSON value universe JV  <->  python values / JSON text
# ----------------------------------------------------------------------------------------------
def jv_to_py(v):
    j = v["j"]
    if j == "null":
        return None
    if j == "bool":
        return v["b"]
    if j == "num":
        n = v["n"]
        return n // 10 if n % 10 == 0 else n / 10
    if j == "str":
        return v["s"]
    if j == "big":
        return int(v["s"])      # an integer beyond TLC's 32 bits: exact decimal text (Semantics!JBig, C12)
    if j == "arr":
        return [jv_to_py(x) for x in v["xs"]]
    if j == "obj":
        return {p["k"]: jv_to_py(p["v"]) for p in v["ps"]}
    raise ValueError("not a JSON value: %r" % (v,))


class NotInUniverse(Exception):
    pass


def py_to_jv(x):
    """Real JSON -> JV term (no JSON null: TLC's ndJsonDeserialize cannot read it)."""
    if x is None:
        return {"j": "null"}
    if isinstance(x, bool):
        return {"j": "bool", "b": x}
    if isinstance(x, int) and abs(x) > 10 ** 8:
        return {"j": "big", "s": str(x)}
    if isinstance(x, float) and abs(x) > 10 ** 8 and x == int(x):
        return {"j": "big", "s": str(int(x))}       # a float64 spelling of a big integer: whatever it rounds to
    if isinstance(x, (int, float)):
        n = x * 10
        if isinstance(n, float):
            if abs(n - round(n)) > 1e-9:
                raise NotInUniverse("number %r is not a multiple of 0.1" % x)
            n = int(round(n))
        return {"j": "num", "n": n}
    if isinstance(x, str):
        return {"j": "str", "s": x}
    if isinstance(x, list):
        return {"j": "arr", "xs": [py_to_jv(e) for e in x]}
    if isinstance(x, dict):
        return {"j": "obj", "ps": [{"k": k, "v": py_to_jv(v)} for k, v in x.items()]}
    raise NotInUniverse(repr(x))


def dumps(x):
    return json.dumps(x, separators=(",", ":"), sort_keys=True)


def json_equal(a, b):
    """Numbers by value (1 == 1.0), key order irrelevant (DESIGN 6.0)."""
    if isinstance(a, bool) or isinstance(b, bool):
        return isinstance(a, bool) and isinstance(b, bool) and a == b
    if isinstance(a, (int, float)) and isinstance(b, (int, float)):
        return a == b
    if type(a) is not type(b):
        return False
    if isinstance(a, list):
        return len(a) == len(b) and all(json_equal(x, y) for x, y in zip(a, b))
    if isinstance(a, dict):
        return a.keys() == b.keys() and all(json_equal(a[k], b[k]) for k in a)
    return a == b


# ----------------------------------------------------------------------------------------------
# schema terms (as printed by TLC: see spec/Semantics.tla "schema terms")
# ----------------------------------------------------------------------------------------------
def defs_of(schema):
    return {d["name"]: d["t"] for d in schema["defs"]}


def resolve(S, t):
    while t["k"] == "ref":
        t = S[t["name"]]
    return t


def norm_py(S, t, v):
    """python twin of Semantics!Norm (cross-checked against TLC's own value on every accepted document)."""
    k = t["k"]
    if k == "arr" and isinstance(v, list):
        return [norm_py(S, t["t"], x) for x in v]
    if k == "map" and isinstance(v, dict):
        return {key: norm_py(S, t["t"], x) for key, x in v.items()}
    if k == "nullable" and v is not None:
        return norm_py(S, t["t"], v)
    if k == "ref":
        return norm_py(S, S[t["name"]], v)
    if k == "dunion" and isinstance(v, dict):
        for r in t["refs"]:
            if accepts_py(S, S[r], v):
                return norm_py(S, S[r], v)
        return v
    if k == "struct" and isinstance(v, dict):
        fs = {f["n"]: f for f in t["fields"]}
        out = {}
        for key, x in v.items():
            f = fs.get(key)
            if x is None and f is not None and not f["req"]:
                continue
            out[key] = x if (x is None or f is None) else norm_py(S, f["t"], x)
        return out
    return v


def _bounds_ok(t, x):
    lo, hi = t["lo"], t["hi"]
    if lo["b"] == "ge10" and not x >= lo["v"] / 10:
        return False
    if hi["b"] == "le10" and not x <= hi["v"] / 10:
        return False
    if lo["b"] == "ge" and not x >= lo["v"]:
        return False
    if lo["b"] == "gt" and not x > lo["v"]:
        return False
    if hi["b"] == "le" and not x <= hi["v"]:
        return False
    if hi["b"] == "lt" and not x < hi["v"]:
        return False
    # one side carrying both keywords (Semantics!GeGt / LeLt): both must hold
    if lo["b"] == "gegt" and not (x >= lo["v"] and x > lo["x"]):
        return False
    if hi["b"] == "lelt" and not (x <= hi["v"] and x < hi["x"]):
        return False
    # bounds given in tenths (Semantics!Ge10 ...): fractional bounds, compared exactly on integers
    x10 = x * 10
    if lo["b"] == "ge10" and not x10 >= lo["v"]:
        return False
    if lo["b"] == "gt10" and not x10 > lo["v"]:
        return False
    if hi["b"] == "le10" and not x10 <= hi["v"]:
        return False
    if hi["b"] == "lt10" and not x10 < hi["v"]:
        return False
    return True


TIMES = ("2024-01-02T03:04:05Z", "2025-06-07T08:09:10Z")


def accepts_py(S, t, v):
    """python twin of Semantics!Accepts, used to pick union branches and to classify; TLC's value is the one compared."""
    k = t["k"]
    if k == "any":
        return True
    if k == "bool":
        return isinstance(v, bool)
    if k in ("int", "num"):
        if isinstance(v, bool) or not isinstance(v, (int, float)):
            return False
        if k == "int" and v != int(v):
            return False
        return _bounds_ok(t, v)
    if k == "str":
        return isinstance(v, str) and (t["mn"] == -1 or len(v) >= t["mn"]) and (t["mx"] == -1 or len(v) <= t["mx"])
    if k == "time":
        return v in TIMES
    if k == "bytes":
        return v in ("YQ==", "YWI=")
    if k == "enum":
        return isinstance(v, str) and v in t["vals"]
    if k == "ienum":
        return not isinstance(v, bool) and isinstance(v, (int, float)) and v in t["vals"]
    if k == "const":
        c = jv_to_py(t["v"])
        return type(c) is type(v) and c == v
    if k == "nullable":
        return v is None or accepts_py(S, t["t"], v)
    if k == "arr":
        return isinstance(v, list) and all(accepts_py(S, t["t"], x) for x in v)
    if k == "map":
        return isinstance(v, dict) and all(accepts_py(S, t["t"], x) for x in v.values())
    if k == "ref":
        return accepts_py(S, S[t["name"]], v)
    if k == "union":
        return any(accepts_py(S, b, v) for b in t["ts"])
    if k == "dunion":
        return any(accepts_py(S, S[r], v) for r in t["refs"])
    if k == "struct":
        if not isinstance(v, dict):
            return False
        fs = {f["n"]: f for f in t["fields"]}
        if any(key not in fs for key in v):
            return False
        for f in t["fields"]:
            if f["n"] in v:
                x = v[f["n"]]
                if x is None:
                    if not (f["null"] or f["t"]["k"] == "any"):
                        return False
                elif not accepts_py(S, f["t"], x):
                    return False
            elif f["req"]:
                return False
        return True
    return False


def walk(schema, path, doc=None):
    """Follow a path (field names, "#i", map keys) through the schema.

    Returns (position class, kind of the node reached, bound kinds of that node). The position class is the
    sequence of containers crossed - optional, nullable, array, map, ref, union-branch, anon-struct - or "top".
    """
    S = defs_of(schema)
    t = S[schema["root"]]
    toks = []
    v = doc
    named = [False]

    def enter(t, v):
        # resolve refs / nullable / unions at the current node; returns the structural node
        while True:
            if t["k"] == "ref":
                if S[t["name"]]["k"] in ("arr", "map"):
                    # reference to a NAMED collection (a definition that is an array / a map): one token, not ref + array
                    toks.append("named-array" if S[t["name"]]["k"] == "arr" else "named-map")
                    named[0] = True
                else:
                    toks.append("ref")
                t = S[t["name"]]
            elif t["k"] == "nullable":
                toks.append("nullable")
                t = t["t"]
            elif t["k"] == "dunion":
                toks.append("union-branch")
                pick = None
                for r in t["refs"]:
                    if v is not None and isinstance(v, dict):
                        disc = [f for f in S[r]["fields"] if f["n"] == t["disc"]]
                        if disc and disc[0]["t"]["k"] == "const" and v.get(t["disc"]) == jv_to_py(disc[0]["t"]["v"]):
                            pick = r
                if pick is None:
                    pick = t["refs"][0]
                t = S[pick]
            else:
                return t

    for seg in path:
        t = enter(t, v)
        k = t["k"]
        if k == "struct":
            f = [f for f in t["fields"] if f["n"] == seg]
            if not f:
                return (">".join(toks) or "top", "undeclared", [])
            f = f[0]
            if not f["req"]:
                toks.append("optional")
            if f["null"]:
                toks.append("nullable")
            if f["def"]["j"] != "none":
                toks.append("defaulted")
            if f["t"]["k"] == "struct":
                toks.append("anon-struct")
            t = f["t"]
            v = v.get(seg) if isinstance(v, dict) else None
        elif k == "arr":
            if not named[0]:
                toks.append("array")
            named[0] = False
            if t["t"]["k"] == "struct":
                toks.append("anon-struct")
            t = t["t"]
            try:
                v = v[int(seg[1:])] if isinstance(v, list) else None
            except (ValueError, IndexError):
                v = None
        elif k == "map":
            if not named[0]:
                toks.append("map")
            named[0] = False
            if t["t"]["k"] == "struct":
                toks.append("anon-struct")
            t = t["t"]
            v = v.get(seg) if isinstance(v, dict) else None
        else:
            return (">".join(toks) or "top", k, [])
    # kind of the node itself (without entering unions)
    node = t
    while node["k"] in ("ref", "nullable"):
        if node["k"] == "nullable":
            toks.append("nullable")
        elif S[node["name"]]["k"] not in ("struct", "ref", "arr", "map", "dunion"):
            toks.append("named-scalar")      # reference to a NAMED scalar / enum object
        node = S[node["name"]] if node["k"] == "ref" else node["t"]
    bk = []
    if node["k"] in ("int", "num"):
        bk = [b for b in (node["lo"]["b"], node["hi"]["b"]) if b != "none"]
    elif node["k"] == "str":
        bk = (["minLength"] if node["mn"] != -1 else []) + (["maxLength"] if node["mx"] != -1 else [])
    # dedupe consecutive tokens
    out = []
    for x in toks:
        if not out or out[-1] != x:
            out.append(x)
    return (">".join(out) or "top", node["k"], bk)


def walk_loose(schema, fields):
    """Position class of a path given by FIELD NAMES only (arrays, maps, nullables, union branches are crossed implicitly)."""
    S = defs_of(schema)
    t = S[schema["root"]]
    toks = []

    def settle(t):
        for _ in range(32):
            k = t["k"]
            if k == "ref":
                tk = S[t["name"]]["k"]
                toks.append("named-array" if tk == "arr" else "named-map" if tk == "map" else "ref" if tk in ("struct", "ref", "dunion") else "named-scalar")
                t = S[t["name"]]
                if tk in ("arr", "map"):
                    t = t["t"]
            elif k == "nullable":
                toks.append("nullable")
                t = t["t"]
            elif k == "arr":
                toks.append("array")
                t = t["t"]
            elif k == "map":
                toks.append("map")
                t = t["t"]
            else:
                return t
        return t

    for i, name in enumerate(fields):
        t = settle(t)
        if t["k"] == "dunion":
            toks.append("union-branch")
            hit = [S[r] for r in t["refs"] if any(f["n"] == name for f in S[r]["fields"])]
            if not hit:
                break
            t = hit[0]
        if t["k"] != "struct":
            break
        f = [f for f in t["fields"] if f["n"] == name]
        if not f:
            break
        f = f[0]
        if not f["req"]:
            toks.append("optional")
        if f["null"]:
            toks.append("nullable")
        if f["def"]["j"] != "none":
            toks.append("defaulted")
        t = f["t"]
    t = settle(t)
    out = []
    for x in toks:
        if not out or out[-1] != x:
            out.append(x)
    return ">".join(out) or "top", t["k"]


def union_branch_names(schema):
    """Names the Go representation of a union uses as an extra path segment (struct field per branch)."""
    names = set()
    S = defs_of(schema)

    def rec(t):
        k = t["k"]
        if k == "dunion":
            names.update(t["refs"])
        elif k == "union":
            pass
        elif k in ("arr", "map", "nullable"):
            rec(t["t"])
        elif k == "struct":
            for f in t["fields"]:
                rec(f["t"])
    for t in S.values():
        rec(t)
    return names


_SEG = re.compile(r"([^.\[\]]+)|\[([^\]]*)\]")


def norm_path(path, schema):
    """`kids[1].next.id` / `labels[k1]` / `du.A.x` -> ["kids","#1","next","id"] (DESIGN 6.0, C08).

    A segment naming a union branch right where the schema has a discriminated union is the Go
    representation's branch selector, not a field of the document: it is dropped (stated assumption).
    """
    segs = []
    for m in _SEG.finditer(path):
        if m.group(1) is not None:
            segs.append(m.group(1))
        else:
            s = m.group(2)
            segs.append("#" + s if s.isdigit() else s)
    S = defs_of(schema)
    t = S[schema["root"]]
    out = []
    for seg in segs:
        while t is not None and t["k"] in ("ref", "nullable"):
            t = S[t["name"]] if t["k"] == "ref" else t["t"]
        if t is None:
            out.append(seg)
            continue
        if t["k"] == "dunion":
            hit = [r for r in t["refs"] if r.lower() == seg.lower()]
            if hit:
                t = S[hit[0]]
                continue
            # no selector: stay permissive, descend into the first branch declaring the field
            nxt = None
            for r in t["refs"]:
                if any(f["n"] == seg for f in S[r]["fields"]):
                    nxt = S[r]
                    break
            t = nxt
            if t is None:
                out.append(seg)
                continue
        k = t["k"]
        out.append(seg)
        if k == "struct":
            f = [f for f in t["fields"] if f["n"] == seg]
            t = f[0]["t"] if f else None
        elif k in ("arr", "map"):
            t = t["t"]
        else:
            t = None
    return out


# ----------------------------------------------------------------------------------------------
# renderers: schema term -> JSON Schema / OpenAPI / CUE text (constraints must survive parsing)
# ----------------------------------------------------------------------------------------------
def _num_bounds_js(t, openapi):
    out = {}
    lo, hi = t["lo"], t["hi"]
    if lo["b"].endswith("10") or hi["b"].endswith("10"):
        # bounds in tenths: the same keywords with the fractional value
        def val(b):
            return b["v"] / 10 if b["b"].endswith("10") else b["v"]
        t = dict(t, lo={"b": lo["b"].replace("10", ""), "v": val(lo)}, hi={"b": hi["b"].replace("10", ""), "v": val(hi)})
        lo, hi = t["lo"], t["hi"]
    # both keywords on one side (Semantics!GeGt / LeLt). draft-07: both are numbers and both are spelled. OpenAPI 3.0 has ONE number
    # per side (exclusiveMinimum is a flag on `minimum`): the pair is spelled as the single bound it amounts to
    if lo["b"] == "gegt":
        if not openapi:
            out["minimum"], out["exclusiveMinimum"] = lo["v"], lo["x"]
        else:
            lo = {"b": "gt", "v": lo["x"]} if lo["x"] >= lo["v"] else {"b": "ge", "v": lo["v"]}
    if hi["b"] == "lelt":
        if not openapi:
            out["maximum"], out["exclusiveMaximum"] = hi["v"], hi["x"]
        else:
            hi = {"b": "lt", "v": hi["x"]} if hi["x"] <= hi["v"] else {"b": "le", "v": hi["v"]}
    if lo["b"] == "ge":
        out["minimum"] = lo["v"]
    elif lo["b"] == "gt":
        if openapi:
            out["minimum"], out["exclusiveMinimum"] = lo["v"], True
        else:
            out["exclusiveMinimum"] = lo["v"]
    if hi["b"] == "le":
        out["maximum"] = hi["v"]
    elif hi["b"] == "lt":
        if openapi:
            out["maximum"], out["exclusiveMaximum"] = hi["v"], True
        else:
            out["exclusiveMaximum"] = hi["v"]
    return out


def _js_type(t, openapi, refprefix):
    k = t["k"]
    if k == "int":
        out = {"type": "integer"}
        if openapi and t["w"] in ("int32", "int64"):
            out["format"] = t["w"]
        out.update(_num_bounds_js(t, openapi))
        return out
    if k == "num":
        out = {"type": "number"}
        if openapi:
            out["format"] = "float" if t["w"] == "float32" else "double"
        out.update(_num_bounds_js(t, openapi))
        return out
    if k == "str":
        out = {"type": "string"}
        if t["mn"] != -1:
            out["minLength"] = t["mn"]
        if t["mx"] != -1:
            out["maxLength"] = t["mx"]
        return out
    if k == "bool":
        return {"type": "boolean"}
    if k == "time":
        return {"type": "string", "format": "date-time"}
    if k == "bytes":
        if not openapi:
            raise NotExpressible("bytes: cog's JSON Schema parser has no byte strings")
        return {"type": "string", "format": "byte"}
    if k == "enum":
        return {"type": "string", "enum": list(t["vals"])}
    if k == "ienum":
        return {"type": "integer", "enum": list(t["vals"])}
    if k == "const":
        c = jv_to_py(t["v"])
        ty = "string" if isinstance(c, str) else "boolean" if isinstance(c, bool) else "integer" if isinstance(c, int) else "number"
        if not openapi:
            return {"type": ty, "const": c}
        if ty == "string":
            # OpenAPI 3.0 has no `const`; cog reads a constant out of an anchored literal pattern
            if not re.fullmatch(r"[A-Za-z0-9]+", c):
                raise NotExpressible("openapi: constant string needs a literal pattern")
            return {"type": "string", "pattern": "^%s$" % c}
        if ty == "boolean":
            raise NotExpressible("openapi: boolean constant")
        return {"type": ty, "enum": [c]}
    if k == "any":
        return {}
    if k == "arr":
        return {"type": "array", "items": _js_type(t["t"], openapi, refprefix)}
    if k == "map":
        return {"type": "object", "additionalProperties": _js_type(t["t"], openapi, refprefix)}
    if k == "ref":
        if "." in t["name"]:
            # a definition of the second package ("x.Name"): only the OpenAPI rendering spells cross-file references cog reads
            if not openapi or _AUX[0] is None:
                raise NotExpressible("cross-package reference")
            return {"$ref": _AUX[0] + ".json#/components/schemas/" + t["name"].split(".", 1)[1]}
        return {"$ref": refprefix + t["name"]}
    if k == "nullable":
        return _js_nullable(t["t"], openapi, refprefix)
    if k == "union":
        # branches that overlap (integer / number, two integer widths) cannot be a oneOf: 1 would match twice
        nums = [b for b in t["ts"] if b["k"] in ("int", "num", "ienum")]
        return {("anyOf" if len(nums) > 1 else "oneOf"): [_js_type(b, openapi, refprefix) for b in t["ts"]]}
    if k == "dunion":
        out = {"oneOf": [{"$ref": refprefix + r} for r in t["refs"]]}
        if openapi:
            out["discriminator"] = {"propertyName": t["disc"]}
            if t.get("mapping"):      # explicit, possibly non-injective value -> type mapping (schema NAMES: the spelling cog reads;
                # with "#/components/schemas/X" references the Go jenny emits code that does not parse - C02)
                out["discriminator"]["mapping"] = {m["v"]: m["ref"] for m in t["mapping"]}
        return out
    if k == "struct":
        props, req = {}, []
        for f in t["fields"]:
            ft = _js_nullable(f["t"], openapi, refprefix) if f["null"] else _js_type(f["t"], openapi, refprefix)
            if f["def"]["j"] != "none":
                ft = dict(ft)
                if "$ref" in ft:
                    # draft-07 and OpenAPI 3.0 ignore the siblings of $ref: the standard spelling wraps the reference
                    ft = {"allOf": [ft]}
                ft["default"] = jv_to_py(f["def"])
            if openapi and f["n"] in OPENAPI_ANNOTATIONS and "$ref" not in ft:
                ft = dict(ft)
                ft[OPENAPI_ANNOTATIONS[f["n"]]] = True       # annotation only: must not change required-ness / type
            props[f["n"]] = ft
            if f["req"]:
                req.append(f["n"])
        out = {"type": "object", "properties": props}
        if req:
            out["required"] = req
        return out
    if k in JS_EXT:          # kinds added by later properties (checks/gencode_common.py)
        return JS_EXT[k](t, openapi, refprefix)
    raise NotExpressible("unknown kind " + k)


JS_EXT = {}      # kind -> f(t, openapi, refprefix) -> JSON Schema / OpenAPI fragment
CUE_EXT = {}     # kind -> f(cue_renderer, t) -> CUE expression


# field names that make the OpenAPI rendering carry an annotation (catalogue schema `openapi-annotations`)
OPENAPI_ANNOTATIONS = {"ro": "readOnly", "oro": "readOnly", "wo": "writeOnly", "dep": "deprecated"}


def _js_nullable(t, openapi, refprefix):
    if not openapi:
        if t["k"] == "union":
            # a nullable union is ONE union with a null branch (string | boolean | null), not a union inside a union
            inner = _js_type(t, openapi, refprefix)
            key = "anyOf" if "anyOf" in inner else "oneOf"
            return {key: inner[key] + [{"type": "null"}]}
        return {"oneOf": [_js_type(t, openapi, refprefix), {"type": "null"}]}
    if t["k"] in ("int", "num", "str", "time"):
        out = dict(_js_type(t, openapi, refprefix))
        out["nullable"] = True
        return out
    raise NotExpressible("openapi: nullable " + t["k"])


def render_jsonschema(schema):
    if has_second_package(schema):
        raise NotExpressible("two packages: cog's JSON Schema parser resolves every reference into its own package")
    doc = {"$schema": "http://json-schema.org/draft-07/schema#", "$ref": "#/definitions/" + schema["root"],
           "definitions": {d["name"]: _js_type(d["t"], False, "#/definitions/") for d in schema["defs"]}}
    return json.dumps(doc, indent=1)


_AUX = [None]   # file stem of the second package while an OpenAPI schema with "x." definitions is rendered


def has_second_package(schema):
    return any("." in d["name"] for d in schema["defs"])


def render_openapi(schema, package=None):
    """Definitions named "x.Name" form a second package: they go into <package>x.json and are referenced across files."""
    head = {"openapi": "3.0.0", "info": {"title": "t", "version": "0.0"}, "paths": {}}
    _AUX[0] = (package + "x") if (package and has_second_package(schema)) else None
    try:
        main = dict(head, components={"schemas": {d["name"]: _js_type(d["t"], True, "#/components/schemas/")
                                                  for d in schema["defs"] if "." not in d["name"]}})
        aux = None
        if _AUX[0]:
            stem = _AUX[0]
            _AUX[0] = None    # inside the second file its own definitions are local; it never refers back
            aux = dict(head, components={"schemas": {d["name"].split(".", 1)[1]: _js_type(_strip_pkg(d["t"]), True, "#/components/schemas/")
                                                     for d in schema["defs"] if "." in d["name"]}})
            return json.dumps(main, indent=1), {stem + ".json": json.dumps(aux, indent=1)}
        return json.dumps(main, indent=1), None
    finally:
        _AUX[0] = None


def _strip_pkg(t):
    """References between definitions of the second package are local there."""
    if t["k"] == "ref" and "." in t["name"]:
        return dict(t, name=t["name"].split(".", 1)[1])
    if t["k"] in ("arr", "map", "nullable"):
        return dict(t, t=_strip_pkg(t["t"]))
    if t["k"] == "struct":
        return dict(t, fields=[dict(f, t=_strip_pkg(f["t"])) for f in t["fields"]])
    if t["k"] == "union":
        return dict(t, ts=[_strip_pkg(b) for b in t["ts"]])
    return t


class _Cue:
    def __init__(self):
        self.imports = set()
        self.hoisted = []  # (name, text)

    def lit(self, c):
        return json.dumps(c)

    def ty(self, t, field_ctx=False):
        k = t["k"]
        if k in ("int", "num"):
            base = t["w"]  # NB `number & >0` is simplified to `>0` by CUE and cog then cannot infer the type
            parts = [base]
            lo, hi = t["lo"], t["hi"]
            op = {"ge": ">=", "gt": ">", "le": "<=", "lt": "<"}
            if lo["b"].endswith("10") or hi["b"].endswith("10"):
                raise NotExpressible("cue: fractional bound on a typed number (cog's CUE input parses integer bounds with ParseInt)")
            for b, incl, excl in ((lo, ">=", ">"), (hi, "<=", "<")):
                if b["b"] in ("gegt", "lelt"):       # both keywords on one side: both are spelled
                    parts += ["%s%d" % (incl, b["v"]), "%s%d" % (excl, b["x"])]
                elif b["b"] != "none":
                    parts.append("%s%d" % (op[b["b"]], b["v"]))
            return " & ".join(parts)
        if k == "str":
            parts = ["string"]
            if t["mn"] != -1:
                self.imports.add("strings")
                parts.append("strings.MinRunes(%d)" % t["mn"])
            if t["mx"] != -1:
                self.imports.add("strings")
                parts.append("strings.MaxRunes(%d)" % t["mx"])
            return " & ".join(parts)
        if k == "bool":
            return "bool"
        if k == "bytes":
            raise NotExpressible("bytes: a JSON string is not a CUE bytes value for the reference validator")
        if k == "time":
            self.imports.add("time")
            return "time.Time"
        if k == "enum":
            return " | ".join(self.lit(v) for v in t["vals"])
        if k == "ienum":
            # integer enums need member names, which only a field attribute can carry: hoist into a definition
            name = "#IEnum%d" % (len(self.hoisted) + 1)
            self.hoisted.append("%s: %s @cog(kind=\"enum\",memberNames=\"%s\")" % (
                name, " | ".join(str(v) for v in t["vals"]), "|".join("V%d" % v for v in t["vals"])))
            return name
        if k == "const":
            return self.lit(jv_to_py(t["v"]))
        if k == "any":
            return "_"
        if k == "arr":
            return "[...%s]" % self.wrap(self.ty(t["t"]))
        if k == "map":
            return "{[string]: %s}" % self.ty(t["t"])
        if k == "ref":
            return "#" + t["name"]
        if k == "nullable":
            return "%s | null" % self.wrap(self.ty(t["t"]))
        if k == "union":
            return " | ".join(self.wrap(self.ty(b)) for b in t["ts"])
        if k == "dunion":
            return " | ".join("#" + r for r in t["refs"])
        if k == "struct":
            lines = []
            for f in t["fields"]:
                ft = self.ty(f["t"])
                if f["null"]:
                    ft = "%s | null" % self.wrap(ft)
                if f["def"]["j"] != "none":
                    # a union of scalars keeps the idiomatic flat spelling `string | int64 | *"x"` (same CUE value)
                    base = ft if (f["t"]["k"] == "union" and not f["null"]) else self.wrap(ft)
                    consts = [b for b in f["t"]["ts"] if b["k"] == "const"] if f["t"]["k"] == "union" else []
                    if f["t"]["k"] == "ref" and not f["null"] and getattr(self, "defs", {}).get(f["t"]["name"], {}).get("k") == "enum":
                        # a named enum keeps its name only in this (equivalent) spelling: `#E | *"b"` is read as a plain string
                        ft = "%s & (*%s | string)" % (ft, self.lit(jv_to_py(f["def"])))
                    elif consts and not f["null"] and any(b["v"] == f["def"] for b in consts):
                        # a disjunction of constants marks the default in place: `1 | 2 | *3`
                        ft = " | ".join(("*" if b["k"] == "const" and b["v"] == f["def"] else "") + self.wrap(self.ty(b)) for b in f["t"]["ts"])
                    else:
                        ft = "%s | *%s" % (base, self.lit(jv_to_py(f["def"])))
                # names that are not plain identifiers (or would be hidden `_x` / definition `#x` fields) are quoted
                fname = f["n"] if re.fullmatch(r"[A-Za-z][A-Za-z0-9_]*", f["n"]) else json.dumps(f["n"], ensure_ascii=False)
                lines.append("%s%s: %s" % (fname, "" if f["req"] else "?", ft))
            return "{\n" + "\n".join("\t" + ln.replace("\n", "\n\t") for ln in lines) + "\n}"
        if k in CUE_EXT:
            return CUE_EXT[k](self, t)
        raise NotExpressible("unknown kind " + k)

    @staticmethod
    def wrap(s):
        return "(%s)" % s if (" | " in s or " & " in s) and not s.startswith("(") else s


def render_cue(schema, package):
    if has_second_package(schema):
        raise NotExpressible("two packages: not rendered for CUE (needs a library import path)")
    c = _Cue()
    c.defs = defs_of(schema)
    bodies = ["#%s: %s" % (d["name"], c.ty(d["t"])) for d in schema["defs"]]
    head = "package %s\n\n" % package
    if c.imports:
        head += "import (\n%s)\n\n" % "".join('\t"%s"\n' % i for i in sorted(c.imports))
    return head + "\n\n".join(c.hoisted + bodies) + "\n"


def render_kind(schema, package):
    """Composable DataQuery kind: `package grafanaplugin`, the root struct's fields are the lineage schema, the other
    definitions are definitions inside it."""
    if has_second_package(schema):
        raise NotExpressible("two packages: not rendered as a kind")
    c = _Cue()
    c.defs = defs_of(schema)
    root = [d for d in schema["defs"] if d["name"] == schema["root"]][0]
    if root["t"]["k"] != "struct":
        raise NotExpressible("kind: the root is not a struct")
    body = c.ty(root["t"]).strip()[1:-1].strip("\n")            # the field lines of the root struct
    others = ["#%s: %s" % (d["name"], c.ty(d["t"])) for d in schema["defs"] if d["name"] != schema["root"]]
    inner = "\n".join([body] + ["\t" + x.replace("\n", "\n\t") for x in c.hoisted + others])
    inner = inner.replace("\n", "\n\t")
    head = "package grafanaplugin\n\n"
    if c.imports:
        head += "import (\n%s)\n\n" % "".join('\t"%s"\n' % i for i in sorted(c.imports))
    name = package[0].upper() + package[1:]
    return head + 'name: "%sDataQuery"\nschemaInterface: "DataQuery"\nlineage: schemas: [{\n\tversion: [0, 0]\n\tschema: {\n\t%s\n\t}\n}]\n' % (name, inner)


def render(schema, fmt, package):
    if fmt == "kind":
        return render_kind(schema, package)
    if fmt == "jsonschema":
        return render_jsonschema(schema)
    if fmt == "openapi":
        return render_openapi(schema, package)[0]
    if fmt == "cue":
        return render_cue(schema, package)
    raise ValueError(fmt)


def cue_doc_text(S, t, v):
    """The document as handed to the CUE reference validator: numbers in float-typed positions are spelled
    with a fraction (CUE distinguishes 1 from 1.0, JSON does not; same JSON value)."""
    k = t["k"]
    if k == "ref":
        return cue_doc_text(S, S[t["name"]], v)
    if k == "nullable" and v is not None:
        return cue_doc_text(S, t["t"], v)
    if k == "num" and isinstance(v, int) and not isinstance(v, bool):
        return "%d.0" % v
    if k == "union" and isinstance(v, int) and not isinstance(v, bool):
        if any(b["k"] == "num" for b in t["ts"]) and not any(b["k"] in ("int", "ienum") for b in t["ts"]):
            return "%d.0" % v
    if k == "arr" and isinstance(v, list):
        return "[" + ",".join(cue_doc_text(S, t["t"], x) for x in v) + "]"
    if k == "map" and isinstance(v, dict):
        return "{" + ",".join("%s:%s" % (json.dumps(key), cue_doc_text(S, t["t"], x)) for key, x in v.items()) + "}"
    if k == "dunion" and isinstance(v, dict):
        for r in t["refs"]:
            if accepts_py(S, S[r], v):
                return cue_doc_text(S, S[r], v)
        return dumps(v)
    if k == "struct" and isinstance(v, dict):
        fs = {f["n"]: f for f in t["fields"]}
        return "{" + ",".join("%s:%s" % (json.dumps(key), cue_doc_text(S, fs[key]["t"], x) if key in fs and x is not None else dumps(x))
                              for key, x in v.items()) + "}"
    return dumps(v)


# ----------------------------------------------------------------------------------------------
# TLC: catalogue and cases
# ----------------------------------------------------------------------------------------------
def _mc(deep):
    return ("SemanticsDeepMC", "SemanticsDeepMC.cfg") if deep else ("SemanticsMC", "SemanticsMC.cfg")


def _extra_file(ctx, extra):
    d = ctx.sub("extra")
    p = os.path.join(d, "extra.json")
    json.dump([{"schema": e["schema"], "leaf": e["leaf"], "pos": e["pos"], "cons": bool(e.get("cons", True))} for e in (extra or [])], open(p, "w"))
    return p


def load_catalogue(ctx, deep=False, extra=None):
    """deep=False: the catalogue of SemanticsMC (both tiers of every check that does not ask for more).
    deep=True: SemanticsDeepMC = the same catalogue as a prefix + the thorough-tier sections + `extra` entries
    (seeded draws of SemanticsSim, or the schema of a replay file)."""
    mod, cfg = _mc(deep)
    consts = {"Mode": '"index"', "Ids": "{}", "Fuel": 3}
    files = None
    if deep:
        consts["TwoIds"] = "{}"
        files = {"extra.json": _extra_file(ctx, extra)}
    r = ctx.run_tlc(mod, cfg, workers=4, timeout=300, constants=consts, files=files)
    cat = {o["id"]: o for o in core.tagged_lines(r["out"], "INDEX")}
    if len(cat) != r["distinct"]:
        raise core.Inconclusive("%s index: %d INDEX lines for %d states" % (mod, len(cat), r["distinct"]))
    os.remove(r["out"])
    return cat


def sim_draw(ctx, n, max_lvl=5, traces=60):
    """Seeded draws from the unbounded catalogue SemanticsSim (tlc -simulate, -seed = ctx.seed): n distinct schemas,
    deeper ones preferred. Returns catalogue entries (schema, leaf, pos, cons)."""
    r = ctx.run_tlc("SemanticsSim", "SemanticsSim.cfg", workers=1, timeout=600, simulate="num=%d" % traces, depth=max_lvl + 1,
                    constants={"MaxLvl": max_lvl}, files={"extra.json": _extra_file(ctx, [])})
    seen, pool = set(), []
    for e in core.tagged_lines(r["out"], "SIM"):
        k = dumps(e["schema"])
        if k not in seen and e["lvl"] >= 2:
            seen.add(k)
            pool.append(e)
    os.remove(r["out"])
    rng = random.Random(ctx.seed)
    rng.shuffle(pool)
    pool.sort(key=lambda e: -min(e["lvl"], 4))     # levels 4 and 5 first, then 3, then 2
    return pool[:n]


def select_schemas(ctx, cat, n, must=()):
    """Seeded slice: the fixed schemas named in `must` plus seeded others up to three, then one schema per position,
    then one per leaf kind, then a random fill."""
    ids = sorted(cat)
    if n >= len(ids):
        return ids
    rng = random.Random(ctx.seed)
    rng.shuffle(ids)
    fixed = [i for i in ids if cat[i]["pos"] == "fixed"]
    chosen = [i for i in fixed if cat[i]["leaf"] in must]
    chosen += [i for i in fixed if i not in chosen][:max(0, 3 - len(chosen))]
    seen_pos, seen_leaf = set(), set()
    for i in chosen:
        seen_leaf.add(cat[i]["leaf"])
    # every position first (constraint-carrying leaves preferred), then every leaf kind
    for key, seen in (("pos", seen_pos), ("leaf", seen_leaf)):
        for want_cons in (True, False):
            for i in ids:
                if len(chosen) >= n:
                    break
                e = cat[i]
                if i in chosen or e["pos"] == "fixed" or e["cons"] != want_cons or e[key] in seen:
                    continue
                chosen.append(i)
                seen_pos.add(e["pos"])
                seen_leaf.add(e["leaf"])
    for i in ids:
        if len(chosen) >= n:
            break
        if i not in chosen:
            chosen.append(i)
    return sorted(chosen)


def emit_cases(ctx, ids, deep=False, two_ids=(), fuel=3, extra=None):
    mod, cfg = _mc(deep)
    consts = {"Mode": '"cases"', "Ids": "{%s}" % ",".join(str(i) for i in ids), "Fuel": fuel}
    files = None
    if deep:
        consts["TwoIds"] = "{%s}" % ",".join(str(i) for i in two_ids)
        files = {"extra.json": _extra_file(ctx, extra)}
    r = ctx.run_tlc(mod, cfg, workers=16 if deep else 8, timeout=2400, constants=consts, files=files)
    cases = collections.defaultdict(list)
    n = 0
    for c in core.tagged_lines(r["out"], "CASE"):
        cases[c["id"]].append(c)
        n += 1
    if n != r["distinct"]:
        raise core.Inconclusive("%s cases: %d CASE lines for %d states" % (mod, n, r["distinct"]))
    os.remove(r["out"])
    for i in cases:
        cases[i].sort(key=lambda c: (c["f"] != "base", c["f"], c["p"], dumps(c["doc"])))
        for k, c in enumerate(cases[i]):
            c["n"] = k
            c["py"] = jv_to_py(c["doc"])
    return cases, r


# ----------------------------------------------------------------------------------------------
# generation: real pipeline per (schema, format) into one scratch Go module
# ----------------------------------------------------------------------------------------------
def pkg_name(sid, fmt):
    return "c%04d%s" % (sid, FMT_LETTER[fmt])


def pipeline_yaml(fmt, path, package, go_flags, extra_languages=(), aux=()):
    if fmt == "cue":
        inp = "  - cue:\n      entrypoint: '%s'\n      package: %s\n" % (path, package)
    elif fmt == "kind":
        inp = "  - kindsys_composable:\n      entrypoint: '%s'\n      package: %s\n" % (path, package)
    else:
        inp = "  - %s:\n      path: '%s'\n      package: %s\n" % (fmt, path, package)
    for apath, apkg in aux:
        inp += "  - %s:\n      path: '%s'\n      package: %s\n" % (fmt, apath, apkg)
    y = "debug: false\ninputs:\n" + inp + "output:\n  directory: '%l'\n  types: true\n  languages:\n"
    y += "    - go:\n        package_root: '%s/go'\n" % MODULE
    for k, v in sorted(go_flags.items()):
        y += "        %s: %s\n" % (k, "true" if v else "false")
    for lang in extra_languages:
        y += lang
    return y


class Batch:
    """Everything one run of the common pipeline produced; the checks read it, nothing is cached across runs."""

    def __init__(self):
        self.cat = {}          # id -> catalogue entry (schema, leaf, pos, cons)
        self.ids = []          # selected ids
        self.cases = {}        # id -> [case]
        self.units = {}        # pkg -> dict(id, fmt, pkg, status, text, ...)
        self.gen_dir = None
        self.driver = None
        self.stats = collections.Counter()
        self.timing = {}
        self.unused_imports_removed = []   # (pkg, import)
        self.tlc_cases = None
        self.deep = False
        self.base_len = 0
        self.extra = []
        self.two_ids = []


def generate(ctx, batch, go_flags=None, extra_languages=(), formats=FORMATS):
    go_flags = dict(GO_FLAGS_FULL if go_flags is None else go_flags)
    t0 = time.time()
    gen = ctx.sub("gen")
    batch.gen_dir = gen
    inputs = os.path.join(gen, "_in")
    os.makedirs(inputs)
    open(os.path.join(gen, "go.mod"), "w").write("module %s\n\ngo 1.21\n" % MODULE)
    jobs = []
    for sid in batch.ids:
        schema = batch.cat[sid]["schema"]
        for fmt in formats:
            if fmt == "kind" and batch.deep and sid > batch.base_len and sid % 3 != ctx.seed % 3:
                continue     # thorough: the kind rendering covers the whole base catalogue and a seeded third of the deep sections
            pkg = pkg_name(sid, fmt)
            u = {"id": sid, "fmt": fmt, "pkg": pkg, "status": "pending",
                 "type": pkg + "." + (KIND_ROOT if fmt == "kind" else schema["root"])}
            batch.units[pkg] = u
            try:
                text = render(schema, fmt, pkg)
                if getattr(batch, "render_hook", None):     # optional post-processing of the schema TEXT (spellings, tokens: python_common)
                    text = batch.render_hook(sid, fmt, pkg, text)
            except NotExpressible as e:
                u["status"] = "not_expressible"
                u["why"] = str(e)
                batch.stats["not_expressible"] += 1
                continue
            u["text"] = text
            if fmt == "kind":
                u["ref_text"] = render_cue(schema, pkg)     # what the CUE reference validator judges the documents against
            if fmt in ("cue", "kind"):
                d = os.path.join(inputs, pkg)
                os.makedirs(d)
                open(os.path.join(d, pkg + ".cue"), "w").write(text)
                path = d
            else:
                path = os.path.join(inputs, pkg + ".json")
                open(path, "w").write(text)
            aux = []
            if fmt == "openapi" and has_second_package(schema):
                for fname, atext in render_openapi(schema, pkg)[1].items():
                    apath = os.path.join(inputs, fname)
                    open(apath, "w").write(atext)
                    aux.append((apath, fname[:-5]))
                u["path"] = path      # the reference validator has to load it from disk (cross-file references)
                u["aux_text"] = {f: t for f, t in render_openapi(schema, pkg)[1].items()}
            yp = os.path.join(inputs, pkg + ".yaml")
            ytext = pipeline_yaml(fmt, path, pkg, go_flags, extra_languages, aux)
            if getattr(batch, "yaml_hook", None):       # optional per-unit addition to the pipeline YAML (compiler passes: python_common)
                ytext = batch.yaml_hook(sid, fmt, pkg, ytext)
            open(yp, "w").write(ytext)
            jobs.append({"id": pkg, "yaml": yp, "root": gen})
    # shard over processes: one cog pipeline per job, isolated from each other's failures
    shards = [jobs[i::NSHARDS] for i in range(NSHARDS)]
    procs = []
    for i, sh in enumerate(shards):
        if not sh:
            continue
        inp = os.path.join(inputs, "jobs-%d.ndjson" % i)
        out = os.path.join(inputs, "jobs-%d.out" % i)
        open(inp, "w").write("".join(json.dumps(j) + "\n" for j in sh))
        p = subprocess.Popen([ctx.worker, "sem-gen"], stdin=open(inp), stdout=open(out, "w"), stderr=subprocess.PIPE,
                             env=ctx.goenv(), cwd=gen)
        procs.append((p, out, sh))
    for p, out, sh in procs:
        _, err = p.communicate(timeout=1800)
        res = [json.loads(x) for x in open(out)]
        if p.returncode != 0 or len(res) != len(sh):
            core.log(err.decode(errors="replace")[-2000:])
            raise core.Inconclusive("sem-gen failed (exit %s, %d/%d results)" % (p.returncode, len(res), len(sh)))
        for r in res:
            u = batch.units[r["id"]]
            u["gen_ms"] = r["ms"]
            if r.get("panic"):
                u["status"], u["why"] = "codegen_panic", r["panic"]
                batch.stats["codegen_panic"] += 1
            elif not r["ok"]:
                u["status"], u["why"] = "codegen_error", r.get("err", "")
                batch.stats["codegen_error"] += 1
            else:
                u["status"] = "generated"
                u["files"] = r["files"]
    _supply_variants(batch, gen)
    batch.timing["generate_s"] = round(time.time() - t0, 2)
    return batch


_VARIANTS_STUB = """// Supplied by the verification harness, NOT generated by cog: at this commit cog's Go runtime jenny does not emit the
// `cog/variants` package that dataquery_equality_method.tmpl refers to (it lives in the foundation-sdk templates, whose
// submodule is empty here). This is the minimal interface the emitted code needs.
package variants

type Dataquery interface {
	ImplementsDataqueryVariant()
	Equals(other Dataquery) bool
}
"""


def _supply_variants(batch, gen):
    """Kind units: the emitted `Equals(otherCandidate variants.Dataquery)` names a package cog neither imports nor emits.
    The harness adds the import line and a minimal `cog/variants` package (both listed in the evidence, C02's defect)."""
    kinds = [u for u in batch.units.values() if u["fmt"] == "kind" and u["status"] == "generated"]
    if not kinds:
        return
    d = os.path.join(gen, "go", "cog", "variants")
    if not os.path.exists(os.path.join(d, "variants.go")):
        os.makedirs(d, exist_ok=True)
        open(os.path.join(d, "variants.go"), "w").write(_VARIANTS_STUB)
        batch.stats["variants_package_supplied"] = 1
    imp = '%s/go/cog/variants' % MODULE
    for u in kinds:
        p = os.path.join(gen, "go", u["pkg"], "types_gen.go")
        if not os.path.exists(p):
            continue
        src = open(p).read()
        if "variants." in src and imp not in src:
            m = re.search(r"^import \(\n", src, re.M)
            if m:
                src = src[:m.end()] + '\tvariants "%s"\n' % imp + src[m.end():]
            else:
                src = re.sub(r"^(package \w+\n)", r'\1\nimport variants "%s"\n' % imp, src, count=1, flags=re.M)
            open(p, "w").write(src)
            u["variants_import_added"] = True
            batch.stats["variants_import_added"] += 1


_DIAG = re.compile(r"^(go/([^/\s]+)/[^:\s]+):(\d+):(\d+): (.*)$")
_UNUSED = re.compile(r'^"([^"]+)" imported (as \S+ )?and not used$')


def _go_build(ctx, gen, targets, out=None):
    cmd = ["go", "build", "-gcflags=-e"] + (["-o", out] if out else []) + targets
    p = subprocess.run(cmd, cwd=gen, env=ctx.goenv(), capture_output=True, text=True)
    diags = collections.defaultdict(list)
    other = []
    for line in (p.stdout + p.stderr).splitlines():
        m = _DIAG.match(line.strip())
        if m:
            diags[m.group(2)].append((m.group(1), int(m.group(3)), m.group(5)))
        elif line.startswith("#") or not line.strip() or "too many errors" in line:
            continue
        else:
            other.append(line)
    return p.returncode, diags, other


def build(ctx, batch):
    """`go build` of every generated package in ONE invocation, per-package attribution, then the driver."""
    t0 = time.time()
    gen = batch.gen_dir
    todo = [u for u in batch.units.values() if u["status"] == "generated"]
    if not todo:
        raise core.Inconclusive("no package was generated")
    rc, diags, other = _go_build(ctx, gen, ["./go/..."])
    if rc != 0 and not diags:
        core.log("\n".join(other[-30:]))
        raise core.Inconclusive("go build failed without attributable diagnostics")
    for k in list(diags):
        if k not in batch.units and k.endswith("x") and k[:-1] in batch.units:
            diags[k[:-1]] = diags.get(k[:-1], []) + diags.pop(k)     # second package of a two-package unit
    retry = []
    for u in todo:
        ds = diags.get(u["pkg"], [])
        if not ds:
            u["status"] = "ok"
            continue
        u["diagnostics"] = [d[2] for d in ds][:8]
        if all(_UNUSED.match(d[2]) for d in ds):
            # DESIGN 4.5: keep the semantic properties observable; C02 owns the defect itself
            by_file = collections.defaultdict(list)
            for f, line, msg in ds:
                by_file[f].append((line, _UNUSED.match(msg).group(1)))
            for f, items in by_file.items():
                p = os.path.join(gen, f)
                lines = open(p).read().split("\n")
                for line, imp in sorted(items, reverse=True):
                    if '"%s"' % imp not in lines[line - 1]:
                        raise core.Inconclusive("cannot locate unused import %s in %s:%d" % (imp, f, line))
                    del lines[line - 1]
                    batch.unused_imports_removed.append((u["pkg"], imp))
                open(p, "w").write("\n".join(lines))
            u["status"] = "retry"
            retry.append(u)
        else:
            u["status"] = "not_executable"
            batch.stats["not_executable"] += 1
    if "cog" in diags:
        raise core.Inconclusive("the generated runtime package does not compile: %s" % diags["cog"][:3])
    if retry:
        rc, diags2, other = _go_build(ctx, gen, ["./go/" + u["pkg"] for u in retry])
        for u in retry:
            ds = diags2.get(u["pkg"], [])
            if ds:
                u["status"] = "not_executable"
                u["diagnostics"] += [d[2] for d in ds][:8]
                batch.stats["not_executable"] += 1
            else:
                u["status"] = "ok"
                u["unused_imports_removed"] = True
                batch.stats["ok_after_unused_import_removal"] += 1
    good = sorted(u["pkg"] for u in batch.units.values() if u["status"] == "ok")
    batch.stats["executable"] = len(good)
    if not good:
        raise core.Inconclusive("no generated package compiles")
    # registry: type constructors, plus the generated New<Root>() where present
    drv = os.path.join(gen, "driver")
    os.makedirs(drv)
    shutil.copy(os.path.join(core.VERIF, "harness", "semdriver", "driver.go.txt"), os.path.join(drv, "main.go"))
    reg = ["package main", "", "import ("] + ['\t"%s/go/%s"' % (MODULE, p) for p in good] + [")", ""]
    reg.append("var registry = map[string]func() any{")
    ctor = ["var constructors = map[string]func() any{"]
    for p in good:
        u = batch.units[p]
        root = u["type"].split(".")[1]
        src = open(os.path.join(gen, "go", p, "types_gen.go")).read()
        if not re.search(r"^type %s struct" % re.escape(root), src, re.M):
            u["status"] = "no_root_type"
            batch.stats["no_root_type"] += 1
            reg.append("\t// %s: no struct type %s" % (p, root))
            reg[3 + good.index(p)] = '\t_ "%s/go/%s"' % (MODULE, p)
            continue
        reg.append('\t"%s": func() any { return &%s.%s{} },' % (u["type"], p, root))
        if re.search(r"^func New%s\(\) \*%s " % (re.escape(root), re.escape(root)), src, re.M):
            ctor.append('\t"%s": func() any { return %s.New%s() },' % (u["type"], p, root))
    reg.append("}")
    ctor.append("}")
    open(os.path.join(drv, "registry_gen.go"), "w").write("\n".join(reg + [""] + ctor) + "\n")
    _object_constructors(batch, drv)
    batch.driver = os.path.join(gen, "drv")
    rc, diags, other = _go_build(ctx, gen, ["./driver"], out=batch.driver)
    if rc != 0:
        core.log("\n".join(other[-20:]), dict(diags))
        raise core.Inconclusive("the generic driver does not build")
    batch.timing["build_s"] = round(time.time() - t0, 2)
    return batch


def _object_constructors(batch, drv):
    """driver/objctors_gen.go: every generated `func New<Obj>() *<Obj>` of every executable package (driver op
    `newobj`, C10: "for every object"); batch.units[pkg]["constructors"] lists them."""
    imports, out = [], ["var objectConstructors = map[string]func() any{"]
    for p in sorted(u["pkg"] for u in batch.units.values() if u["status"] == "ok"):
        src = open(os.path.join(batch.gen_dir, "go", p, "types_gen.go")).read()
        names = [m.group(1) for m in re.finditer(r"^func New(\w+)\(\) \*(\w+) ", src, re.M) if m.group(1) == m.group(2)]
        batch.units[p]["constructors"] = names
        if names:
            imports.append('\t"%s/go/%s"' % (MODULE, p))
        for n in names:
            out.append('\t"%s.%s": func() any { return %s.New%s() },' % (p, n, p, n))
    out.append("}")
    head = ["package main", ""] + (["import ("] + imports + [")", ""] if imports else [])
    open(os.path.join(drv, "objctors_gen.go"), "w").write("\n".join(head + out) + "\n")


def run_driver(ctx, batch, commands, name="cmds"):
    """commands: list of dicts; returns {id: record}."""
    d = ctx.sub("drv-" + name)
    inp, out = os.path.join(d, "in.ndjson"), os.path.join(d, "out.ndjson")
    with open(inp, "w") as f:
        for c in commands:
            f.write(json.dumps(c, separators=(",", ":")) + "\n")
    t0 = time.time()
    p = subprocess.run([batch.driver], stdin=open(inp), stdout=open(out, "w"), stderr=subprocess.PIPE, timeout=3600)
    if p.returncode != 0:
        core.log(p.stderr.decode(errors="replace")[-3000:])
        raise core.Inconclusive("driver exited with %d" % p.returncode)
    res = {}
    with open(out) as f:
        for line in f:
            r = json.loads(line)
            res[r["id"]] = r
    if len(res) != len(commands):
        raise core.Inconclusive("driver answered %d of %d commands" % (len(res), len(commands)))
    batch.timing["driver_%s_s" % name] = round(time.time() - t0, 2)
    return res


# ----------------------------------------------------------------------------------------------
# reference validators ("the source schema accepts", DESIGN 7 rule 4: they are the authority)
# ----------------------------------------------------------------------------------------------
_JS_VALIDATOR = r'''
import json, sys
from jsonschema import Draft7Validator, FormatChecker
for line in sys.stdin:
    job = json.loads(line)
    try:
        Draft7Validator.check_schema(job["schema"])
        v = Draft7Validator(job["schema"], format_checker=FormatChecker())
        acc = [v.is_valid(d) for d in job["docs"]]
        print(json.dumps({"id": job["id"], "accepts": acc}))
    except Exception as e:
        print(json.dumps({"id": job["id"], "schema_err": repr(e)[:300], "accepts": [False] * len(job["docs"])}))
'''


def ref_validate(ctx, batch, items):
    """items: list of (pkg, [python docs]); returns {pkg: [bool] | None when the validator cannot load the schema}."""
    t0 = time.time()
    d = ctx.sub("refval")
    by_fmt = collections.defaultdict(list)
    for pkg, docs in items:
        u = batch.units[pkg]
        by_fmt["cue" if u["fmt"] == "kind" else u["fmt"]].append((pkg, docs))
    out = {}
    # JSON Schema: python jsonschema (Draft7) in one subprocess
    js = by_fmt.get("jsonschema", [])
    if js:
        inp = os.path.join(d, "js.ndjson")
        with open(inp, "w") as f:
            for pkg, docs in js:
                f.write(json.dumps({"id": pkg, "schema": json.loads(batch.units[pkg]["text"]), "docs": docs}) + "\n")
        script = os.path.join(d, "jsval.py")
        open(script, "w").write(_JS_VALIDATOR)
        p = subprocess.run(["python3-vt", script], stdin=open(inp), capture_output=True, timeout=1800)
        if p.returncode != 0:
            core.log(p.stderr.decode(errors="replace")[-2000:])
            raise core.Inconclusive("python jsonschema reference validator failed")
        for line in p.stdout.decode().splitlines():
            r = json.loads(line)
            out[r["id"]] = None if r.get("schema_err") else r["accepts"]
            if r.get("schema_err"):
                batch.units[r["id"]]["refval_err"] = r["schema_err"]
    go_items = by_fmt.get("openapi", []) + by_fmt.get("cue", [])
    if go_items:
        inp, outp = os.path.join(d, "go.ndjson"), os.path.join(d, "go.out")
        with open(inp, "w") as f:
            for pkg, docs in go_items:
                u = batch.units[pkg]
                schema = batch.cat[u["id"]]["schema"]
                if u["fmt"] in ("cue", "kind"):
                    S = defs_of(schema)
                    raw = "[" + ",".join(cue_doc_text(S, S[schema["root"]], x) for x in docs) + "]"
                    text = u.get("ref_text") or u["text"]
                else:
                    raw = json.dumps(docs)
                    text = u["text"]
                f.write('{"id":%s,"fmt":%s,"schema":%s,"path":%s,"root":%s,"docs":%s}\n' % (
                    json.dumps(pkg), json.dumps("cue" if u["fmt"] == "kind" else u["fmt"]), json.dumps(text), json.dumps(u.get("path", "")), json.dumps(schema["root"]), raw))
        ctx.run_worker(["sem-validate"], stdin_path=inp, stdout_path=outp, timeout=1800)
        for line in open(outp):
            r = json.loads(line)
            out[r["id"]] = None if r.get("schema_err") else r["accepts"]
            if r.get("schema_err"):
                batch.units[r["id"]]["refval_err"] = r["schema_err"]
    batch.timing["refval_s"] = round(batch.timing.get("refval_s", 0) + time.time() - t0, 2)
    return out


# ----------------------------------------------------------------------------------------------
# the common batch
# ----------------------------------------------------------------------------------------------
NSIM = 240          # seeded draws from SemanticsSim per thorough run
MAX_TWO = 900       # schemas whose two-place documents are enumerated


def run_batch(ctx, nquick=80, go_flags=None, extra_languages=(), formats=FORMATS, select=None, must=(), deep=False, extra=None):
    """Catalogue -> selection -> cases -> generation -> build -> driver binary. Returns a Batch.

    select(cat) may return the list of ids to use (later properties pick schemas by tag, e.g. defaults).
    deep=True (thorough tier of C01/C08/C13): SemanticsDeepMC's catalogue, seeded SemanticsSim draws and two-place documents.
    """
    if ctx.worker is None:
        ctx.build_worker()
    b = Batch()
    b.deep = deep
    if deep and extra is None:
        extra = sim_draw(ctx, NSIM)
    b.extra = extra or []
    b.base_len = len(load_catalogue(ctx)) if deep else 0
    b.cat = load_catalogue(ctx, deep=deep, extra=extra)
    if select is not None:
        b.ids = sorted(select(b.cat))
    else:
        b.ids = select_schemas(ctx, b.cat, nquick if ctx.quick() else len(b.cat), must)
    if deep:
        # two-place documents for the constraint-carrying, non-fixed schemas; deeper reference chains need more fuel,
        # recursive schemas keep 3 (their documents grow with it)
        two = [i for i in b.ids if b.cat[i]["cons"] and b.cat[i]["pos"] != "fixed"][:MAX_TWO]
        rec = [i for i in b.ids if "recursive" in b.cat[i]["pos"] or b.cat[i]["leaf"] in ("tree", "kitchen-sink")]
        rest = [i for i in b.ids if i not in set(rec)]
        b.two_ids = two
        c1, r1 = emit_cases(ctx, rest, deep=True, two_ids=two, fuel=5, extra=extra)
        c2, r2 = emit_cases(ctx, rec, deep=True, two_ids=two, fuel=3, extra=extra) if rec else ({}, None)
        b.cases = dict(c1)
        b.cases.update(c2)
        b.tlc_cases = r1
    else:
        b.cases, b.tlc_cases = emit_cases(ctx, b.ids)
    missing = [i for i in b.ids if not b.cases.get(i)]
    if missing:
        raise core.Inconclusive("no documents for schemas %s" % missing[:5])
    generate(ctx, b, go_flags, extra_languages, formats)
    build(ctx, b)
    st = collections.Counter(u["status"] for u in b.units.values())
    bad = st["codegen_error"] + st["codegen_panic"] + st["not_executable"] + st["no_root_type"]
    if bad > 0.2 * max(1, len(b.units) - st["not_expressible"]):
        why = collections.Counter((u.get("why") or "; ".join(u.get("diagnostics", [])))[:100] for u in b.units.values()
                                  if u["status"] in ("codegen_error", "codegen_panic", "not_executable"))
        raise core.Inconclusive("%d of %d generated packages cannot be executed (%s): nothing can be concluded about their behaviour" % (
            bad, len(b.units) - st["not_expressible"], why.most_common(2)))
    core.log("batch: %d schemas, %d units: %s; gen %.1fs build %.1fs" % (
        len(b.ids), len(b.units), dict(collections.Counter(u["status"] for u in b.units.values())),
        b.timing["generate_s"], b.timing["build_s"]))
    return b


# ----------------------------------------------------------------------------------------------
# observation of documents (C08, C01) and of Equals matrices (C13) on the real generated code
# ----------------------------------------------------------------------------------------------
STRICT_FAULTS = {"AddUndeclared": "undeclared-field", "DropRequired": "missing-required",
                 "NullRequired": "null-required", "WrongType": "wrong-type"}
JUDGED_LABELS = {"base", "alt", "BreakBound", "DropDefaulted"} | set(STRICT_FAULTS)
NOENC = object()


def parts(label):
    """Labels of two-place documents are "A+B"."""
    return label.split("+")


def _paths(vres, schema):
    """Validate() outcome -> sorted list of normalised paths; an error without (path, message) pairs is one
    path-less entry, so that it can never be mistaken for 'the right path was reported'."""
    if vres is None or not vres.get("ran"):
        return None
    if vres.get("plain"):
        return [["?error-without-path"]]
    seen = []
    for e in vres["errs"]:
        p = norm_path(e["path"], schema)
        if p not in seen:
            seen.append(p)
    return sorted(seen)


def observe_docs(ctx, batch, reaccept=True):
    """Every document of every executable unit: driver `doc` op + reference validator (+ re-accept of encodings).

    Returns {pkg: [obs]} with obs = dict(case, rec, ref, std_ok, strict_rejects, verrs, verrs_strict, enc, reaccepted,
    dropped, judge). `judge` is decided from the document's label and the validator's verdict only.
    """
    cmds, items = [], []
    units = [u for u in batch.units.values() if u["status"] == "ok"]
    for u in units:
        cs = batch.cases[u["id"]]
        for c in cs:
            cmds.append({"op": "doc", "id": "%s/%d" % (u["pkg"], c["n"]), "type": u["type"], "doc": c["py"]})
        items.append((u["pkg"], [c["py"] for c in cs]))
    recs = run_driver(ctx, batch, cmds, "docs")
    ref = ref_validate(ctx, batch, items)
    obs = {}
    items2 = []
    for u in units:
        schema = batch.cat[u["id"]]["schema"]
        S = defs_of(schema)
        if ref.get(u["pkg"]) is None:
            u["status"] = "refval_schema_error"
            batch.stats["refval_schema_error"] += 1
            continue
        lst = []
        for c, racc in zip(batch.cases[u["id"]], ref[u["pkg"]]):
            r = recs["%s/%d" % (u["pkg"], c["n"])]
            o = {"case": c, "rec": r, "ref": racc, "dropped": None, "reaccepted": None}
            if r.get("panic") or r.get("unknown_type"):
                o["dropped"] = "driver:" + (r.get("panic") or "unknown type")
            o["std_ok"] = r.get("std_err") is None
            o["has_strict"] = bool(r.get("has_strict"))
            o["strict_rejects"] = r.get("strict_err") is not None
            o["verrs"] = _paths(r.get("validate"), schema) if o["std_ok"] else None
            o["verrs_strict"] = _paths(r.get("validate_strict"), schema) if not o["strict_rejects"] else None
            o["enc"] = r["enc"] if (o["std_ok"] and "enc" in r and not r.get("enc_err")) else NOENC
            label = c["f"]
            lp = parts(label)
            if "AddUndeclared" not in lp and racc != c["accepts"]:
                # DESIGN 7 rule 4: the validators are the authority; the case is dropped and counted
                o["dropped"] = "spec-validator-disagree"
            if "BreakBound" in lp and not o["std_ok"] and not (set(lp) & set(STRICT_FAULTS)):
                # the generated Go type cannot hold the value at all (e.g. CUE `int64 & >=0` becomes uint64): the bound is enforced
                # by the type, no Go value exists that Validate() could be asked about; permissive reading, counted
                o["dropped"] = "bound-enforced-by-go-type"
            accepted = c["accepts"] and racc is True and o["dropped"] is None
            judged = all(x in JUDGED_LABELS for x in lp) and o["dropped"] is None
            o["judge"] = {
                "accepted": accepted,
                "strict": judged and o["has_strict"],
                # DropDefaulted: the document lacks the field while the Go value holds a zero value there; C08 speaks about the value
                "validate": judged and "DropDefaulted" not in lp and not c["strictRejects"] and o["verrs"] is not None,
                "validateStrict": judged and "DropDefaulted" not in lp and not c["strictRejects"] and o["has_strict"] and o["verrs_strict"] is not None,
            }
            lst.append(o)
        obs[u["pkg"]] = lst
        if reaccept:
            encs = [(i, o["enc"]) for i, o in enumerate(lst) if o["judge"]["accepted"] and o["enc"] is not NOENC]
            if encs:
                items2.append((u["pkg"], encs))
    if reaccept and items2:
        ref2 = ref_validate(ctx, batch, [(pkg, [e for _, e in encs]) for pkg, encs in items2])
        for pkg, encs in items2:
            if ref2.get(pkg) is None:
                continue
            for (i, _), acc in zip(encs, ref2[pkg]):
                obs[pkg][i]["reaccepted"] = acc
    return obs


def first_diff(a, b, path=()):
    """First path at which two JSON values differ: (path, what) with what in dropped/added/changed/length."""
    if isinstance(a, dict) and isinstance(b, dict):
        for k in sorted(set(a) | set(b)):
            if k not in b:
                return path + (k,), "dropped"
            if k not in a:
                return path + (k,), "added"
            d = first_diff(a[k], b[k], path + (k,))
            if d:
                return d
        return None
    if isinstance(a, list) and isinstance(b, list):
        if len(a) != len(b):
            return path, "length"
        for i, (x, y) in enumerate(zip(a, b)):
            d = first_diff(x, y, path + ("#%d" % i,))
            if d:
                return d
        return None
    return None if json_equal(a, b) else (path, "changed")


def diff_class(schema, a, b):
    """Witness class of a pair of encodings: where and how they first differ. Two maps with different key sets are one
    class whatever the position (`map-key-set`); otherwise <dropped|added|changed|length>:<kind>@<position class>."""
    d = first_diff(a, b)
    if d is None:
        return "no-difference"
    path, what = d
    if what in ("dropped", "added") and path:
        parent = walk(schema, list(path[:-1]), a)[1]
        if parent == "map":
            return "map-key-set"
    pos, kind, _ = walk(schema, list(path), a)
    return "%s:%s@%s" % (what, kind, pos)


def _slug(msg, words=5):
    msg = re.sub(r"'[^']*'|`[^`]*`|\"[^\"]*\"", "", msg.lower())
    msg = re.sub(r"\[.*?\]|\d+", "", msg)
    return "-".join(re.findall(r"[a-z]+", msg)[:words]) or "error"


def _site(line):
    line = re.sub(r"\b(resource|other)\.\w+", r"\1.F", line)
    line = re.sub(r"\b(result|i|key|parsedMap|partialArray|partialMap)\d+\b", r"\1N", line)
    line = re.sub(r"\b[A-Z]\w*\{\}", "T{}", line)
    line = re.sub(r"\s+", " ", line).strip()
    return line[:90] or "?"


def reject_class(o, which, entry, schema):
    """Witness class of a decoder refusal, computed from what the decoder said (never from the input's label):
    (message class, position class). which = "strict" | "std"."""
    rec = o["rec"]
    fam = entry["leaf"] + "@fixed" if entry["pos"] == "fixed" else entry["pos"]
    pan = rec.get(which + "_panic")
    if pan:
        # witness class of a panic: its kind and the emitted statement it happened in (identifiers normalised),
        # not the schema: the same template line panics whatever the surrounding shape
        msg, _, site = pan.partition(" @@ ")
        return "panic:" + _slug(msg), "at:" + _site(site)
    paths = rec.get("strict_paths") if which == "strict" else None
    if paths:
        # several errors come in Go map order: pick a canonical one so that the signature is stable
        paths = sorted(paths, key=lambda e: (e["path"], e["msg"]))
        msg = paths[0]["msg"]
        known = (("required field is missing", "missing-required"), ("required field is null", "null-required"),
                 ("unexpected field", "unexpected-field"), ("cannot unmarshal", "cannot-unmarshal"),
                 ("discriminator field", "discriminator-missing"), ("could not unmarshal resource", "discriminator-unknown"))
        mc = next((v for k, v in known if k in msg), None) or _slug(msg)
        segs = norm_path(paths[0]["path"], schema)
        # the strict decoder names the struct type as last segment for unexpected fields
        pos, kind, _ = walk(schema, segs, o["case"]["py"])
        if mc == "cannot-unmarshal":
            mc += ":" + kind        # which kind of value the decoder could not take: part of the class
        return mc, pos
    msg = rec.get(which + "_err") or ""
    mc = "cannot-unmarshal" if "cannot unmarshal" in msg else _slug(msg)
    m = re.search(r"Go struct field (\S+) of type", msg)
    if m:
        # encoding/json names the field path (Root.v.c, JSON names, collections skipped): a position independent of the schema family
        pos, kind = walk_loose(schema, m.group(1).split(".")[1:])
        return (mc + ":" + kind if mc == "cannot-unmarshal" else mc), pos
    return mc, fam


def judge_docs(batch, obs, clauses):
    """python-side verdicts (quick feedback; TLC recomputes them in SemanticsTrace). Returns list of failures
    dict(pkg, n, clause, signature_parts, what, replay)."""
    fails = []
    for pkg, lst in obs.items():
        u = batch.units[pkg]
        entry = batch.cat[u["id"]]
        schema = entry["schema"]
        S = defs_of(schema)
        root = S[schema["root"]]
        for o in lst:
            c, j = o["case"], o["judge"]
            o["violated"] = set()
            if o["dropped"]:
                continue
            pos, kind, bk = walk(schema, c["p"], c["py"])
            exp_paths = sorted(c["validateErrs"])

            fam_key = entry["leaf"] + "@fixed" if entry["pos"] == "fixed" else entry["pos"]

            def add(clause, sig, what, top=None):
                o["violated"].add(clause)
                if clause in clauses:
                    # key: schema family and the top-level field concerned - a known finding that lists keys only covers those
                    fails.append({"pkg": pkg, "n": c["n"], "clause": clause, "sig": sig, "what": what,
                                  "key": "%s|%s" % (fam_key, top if top is not None else (c["p"][0] if c["p"] else "")),
                                  "replay": {"schema_id": u["id"], "leaf": entry["leaf"], "pos": entry["pos"], "format": u["fmt"],
                                             "schema": schema, "schema_text": u["text"], "doc": c["py"], "label": c["f"], "path": c["p"],
                                             "expected": {"accepts": c["accepts"], "strictRejects": c["strictRejects"],
                                                          "validateErrs": exp_paths,
                                                          "norm": jv_to_py(c["norm"]) if c["accepts"] else None},
                                             "real": {k: o["rec"].get(k) for k in ("std_err", "strict_err", "validate", "validate_strict", "enc")},
                                             "ref_accepts": o["ref"], "reaccepted": o["reaccepted"]}})

            if j["strict"] and o["strict_rejects"] != c["strictRejects"]:
                lp = parts(c["f"])
                if c["strictRejects"]:
                    faults = sorted({STRICT_FAULTS[x] for x in lp if x in STRICT_FAULTS})
                    clause = "+".join(faults) + "-accepted"
                    if lp == ["WrongType"]:
                        clause += ":" + kind
                    spos = pos
                else:
                    mc, spos = reject_class(o, "strict", entry, schema)
                    # the witness class is what the decoder said and where; only the defaulted-field case is named after the input
                    if "DropDefaulted" in lp and mc == "missing-required":
                        sp_ = sorted(o["rec"].get("strict_paths") or [], key=lambda e: (e["path"], e["msg"]))
                        dkind = walk(schema, norm_path(sp_[0]["path"], schema), c["py"])[1] if sp_ else kind
                        clause = "missing-defaulted-rejected:" + dkind
                    else:
                        clause = "rejected:" + mc
                add("Strict", "C08/go/Strict/%s/%s" % (clause, spos),
                    "strict decoder %s %s (label %s at %s): %s" % ("accepts" if c["strictRejects"] else "rejects", dumps(c["py"]), c["f"],
                                                                    ".".join(c["p"]) or "<root>", o["rec"].get("strict_err")),
                    top=((norm_path(sorted(o["rec"].get("strict_paths") or [{"path": ""}], key=lambda e: (e["path"], e.get("msg", "")))[0]["path"], schema) or [None])[0]
                         if (not c["strictRejects"] and o["rec"].get("strict_paths")) else None))
            for key, name in (("validate", "Validate"), ("validateStrict", "ValidateStrict")):
                real = o["verrs"] if key == "validate" else o["verrs_strict"]
                if j[key] and real != exp_paths:
                    missing = [p for p in exp_paths if p not in real]
                    extra = [p for p in real if p not in exp_paths]
                    wp = (missing or extra)[0]
                    vpos, vkind, vbk = walk(schema, wp, c["py"])
                    what = "wrong-path" if (missing and extra) else "missed" if missing else "spurious"
                    vclause = "%s:%s.%s" % (what, vkind, "+".join(vbk) or "nobound")
                    if what == "missed" and any(b.endswith("10") for b in vbk):
                        # a fractional bound on an integer lost by a parser: one class per input format, whatever the position
                        vclause, vpos = "missed:fractional-bound-on-integer:" + u["fmt"], "any"
                    elif what == "missed" and not real and "named-scalar" in vpos:
                        vclause = "missed:bounds-of-named-scalar"
                    elif what == "missed" and not real and "named-" in vpos:
                        # nothing at all is reported for items of a named collection: one class whatever the bound
                        vclause = "missed:items-of-named-collection"
                    add(name, "C08/go/Validate/%s/%s" % (vclause, vpos),
                        "Validate() on %s reports %s, violated bounds are at %s" % (dumps(c["py"]), real, exp_paths))
            if j["accepted"]:
                cls = "%s:%s@%s" % (c["f"], kind, pos)
                if not o["std_ok"]:
                    add("Decode", "C01/go/decode/%s@%s/%s" % (reject_class(o, "std", entry, schema) + (u["fmt"],)),
                        "json.Unmarshal rejects the accepted document %s: %s" % (dumps(c["py"]), o["rec"].get("std_err")))
                if o["has_strict"] and o["strict_rejects"]:
                    sps = sorted(o["rec"].get("strict_paths") or [], key=lambda e: (e["path"], e["msg"]))
                    stop = (norm_path(sps[0]["path"], schema) or [None])[0] if sps else None
                    add("StrictDecode", "C01/go/strict-decode/%s@%s/%s" % (reject_class(o, "strict", entry, schema) + (u["fmt"],)),
                        "UnmarshalJSONStrict rejects the accepted document %s: %s" % (dumps(c["py"]), o["rec"].get("strict_err")), top=stop)
                if o["enc"] is not NOENC:
                    want = jv_to_py(c["norm"])
                    if not json_equal(norm_py(S, root, c["py"]), want):
                        raise core.Inconclusive("python and TLC disagree on Norm of %s" % dumps(c["py"]))
                    got = norm_py(S, root, o["enc"])
                    d = first_diff(want, got)
                    rcls = None
                    if d is not None:
                        path, what = d
                        dpos, dkind, _ = walk(schema, list(path), c["py"])
                        val = want
                        for seg in path:
                            val = val[int(seg[1:])] if isinstance(val, list) else val.get(seg) if isinstance(val, dict) else None
                        gv = got
                        for seg in path:
                            gv = gv[int(seg[1:])] if isinstance(gv, list) else gv.get(seg) if isinstance(gv, dict) else None
                        if what == "dropped" and val in ([], {}) and "optional" in dpos.split(">"):
                            rcls = "optional-empty-collection-dropped"
                        elif what == "changed" and isinstance(val, list) and isinstance(gv, str):
                            # []uint8 is []byte for encoding/json: one class wherever the array sits
                            rcls = "integer-array-encoded-as-base64-string"
                        else:
                            rcls = "%s:%s@%s" % (what, dkind, dpos)
                        add("RoundTrip", "C01/go/roundtrip/%s/%s" % (rcls, u["fmt"]),
                            "%s decodes and re-encodes to %s" % (dumps(c["py"]), dumps(o["enc"])), top=path[0] if path else None)
                    if o["reaccepted"] is False:
                        add("ReAccept", "C01/go/reaccept/%s/%s" % (rcls or cls, u["fmt"]),
                            "the re-encoding %s of the accepted document %s is rejected by the source schema" % (dumps(o["enc"]), dumps(c["py"])),
                            top=(d[0][0] if d and d[0] else None))
                elif o["std_ok"]:
                    add("RoundTrip", "C01/go/roundtrip/encode-error:%s@%s/%s" % (kind, pos, u["fmt"]),
                        "json.Marshal fails on the decoded value of %s: %s" % (dumps(c["py"]), o["rec"].get("enc_err")))
    return fails


# ----------------------------------------------------------------------------------------------
# traces for SemanticsTrace.tla
# ----------------------------------------------------------------------------------------------
class TraceWriter:
    def __init__(self, ctx, batch, name):
        self.ctx, self.batch = ctx, batch
        self.dir = ctx.sub("trace-" + name)
        self.path = os.path.join(self.dir, "trace.ndjson")
        self.f = open(self.path, "w")
        self.schemas, self.sidx = [], {}
        self.keys = []   # per record: caller's key

    def si(self, sid):
        if sid not in self.sidx:
            self.schemas.append(self.batch.cat[sid]["schema"])
            self.sidx[sid] = len(self.schemas)
        return self.sidx[sid]

    def add(self, key, rec):
        self.f.write(json.dumps(rec, separators=(",", ":")) + "\n")
        self.keys.append(key)

    def add_doc(self, pkg, o):
        u = self.batch.units[pkg]
        c = o["case"]
        try:
            enc = py_to_jv(o["enc"]) if o["enc"] is not NOENC else {"j": "none"}
            has_enc = o["enc"] is not NOENC
        except NotInUniverse:
            return False
        j = o["judge"]
        self.add((pkg, c["n"]), {
            "kind": "doc", "si": self.si(u["id"]), "pkg": pkg, "n": c["n"], "doc": c["doc"],
            "judge": {"accepted": j["accepted"], "strict": j["strict"], "validate": j["validate"], "validateStrict": j["validateStrict"]},
            "real": {"stdOK": o["std_ok"], "strictRejects": o["strict_rejects"], "verrs": o["verrs"] or [],
                     "verrsStrict": o["verrs_strict"] or [], "hasEnc": has_enc, "enc": enc,
                     "reaccepted": o["reaccepted"] is not False}})
        return True

    def add_eq(self, pkg, key, encs, m, nil_eq=(), foreign_eq=()):
        u = self.batch.units[pkg]
        self.add(key, {"kind": "eq", "si": self.si(u["id"]), "pkg": pkg, "encs": [py_to_jv(e) for e in encs], "m": m,
                       "nilEq": list(nil_eq), "foreignEq": list(foreign_eq)})

    SHARD = 40000

    def validate(self, strict=False, allow_violation=False):
        """Run SemanticsTrace; returns ({record index (0-based): set(violated)}, last TLC result). Long traces are cut into
        shards validated by parallel TLC processes (each record is judged on its own)."""
        self.f.close()
        sp = os.path.join(self.dir, "schemas.json")
        json.dump(self.schemas, open(sp, "w"))
        if not self.keys:
            return {}, None
        if strict:
            r = self.ctx.run_tlc("SemanticsTrace", "SemanticsTrace.cfg", workers=1, timeout=3000,
                                 files={"trace.ndjson": self.path, "schemas.json": sp},
                                 constants={"Strict": "TRUE"}, allow_violation=allow_violation)
            return None, r
        n = len(self.keys)
        shards = []
        if n <= self.SHARD:
            shards.append((0, n, self.path))
        else:
            with open(self.path) as f:
                start = 0
                while start < n:
                    end = min(n, start + self.SHARD)
                    sp_i = os.path.join(self.dir, "shard-%d.ndjson" % start)
                    with open(sp_i, "w") as out:
                        for _ in range(end - start):
                            out.write(f.readline())
                    shards.append((start, end, sp_i))
                    start = end
        import threading
        from concurrent.futures import ThreadPoolExecutor
        lock = threading.Lock()
        ctx = self.ctx

        def one(sh):
            start, end, path = sh
            with lock:
                copy = os.path.join(ctx.sub("schemas"), "schemas.json")
                shutil.copy(sp, copy)
            r = ctx.run_tlc("SemanticsTrace", "SemanticsTrace.cfg", workers=1, timeout=3000,
                            files={"trace.ndjson": path, "schemas.json": copy}, constants={"Strict": "FALSE"})
            consumed = None
            out = {}
            for line in open(r["out"], errors="replace"):
                m = re.match(r'^<<"CONSUMED", (\d+)>>', line)
                if m:
                    consumed = int(m.group(1))
            if consumed != end - start:
                raise core.Inconclusive("SemanticsTrace consumed %s of %d records" % (consumed, end - start))
            for f in core.tagged_lines(r["out"], "FAIL"):
                out[start + f["l"] - 1] = set(f["violated"])
            os.remove(r["out"])
            return out, r

        # ctx.sub / ctx.tlc_runs are shared: serialise directory creation
        orig_sub = ctx.sub

        def locked_sub(name):
            with sublock:
                return orig_sub(name)
        sublock = threading.Lock()
        ctx.sub = locked_sub
        try:
            with ThreadPoolExecutor(max_workers=min(6, len(shards))) as ex:
                results = list(ex.map(one, shards))
        finally:
            ctx.sub = orig_sub
        out = {}
        for o, _ in results:
            out.update(o)
        return out, results[-1][1]


def selftest_binding(ctx, batch, sample):
    """DESIGN 7 rule 6: a genuine record is accepted in Strict mode, the same record with one recorded field
    corrupted (the strict decoder's verdict flipped) is rejected. sample = (pkg, obs) of a record that held."""
    pkg, o = sample
    res = {}
    for name in ("good", "bad"):
        tw = TraceWriter(ctx, batch, "selftest-" + name)
        o2 = dict(o)
        if name == "bad":
            o2["strict_rejects"] = not o["strict_rejects"]
        tw.add_doc(pkg, o2)
        _, r = tw.validate(strict=True, allow_violation=True)
        res[name] = r["violated"]
    if res["good"] or not res["bad"]:
        raise core.Inconclusive("binding self-test failed: good rejected=%s, corrupted rejected=%s" % (res["good"], res["bad"]))
    return "SemanticsTrace(Strict) accepts a genuine document record and rejects it once the recorded strict-decoder verdict is flipped"


# ----------------------------------------------------------------------------------------------
# the document check shared by C08 and C01
# ----------------------------------------------------------------------------------------------
C08_CLAUSES = ("Strict", "Validate", "ValidateStrict")
C01_CLAUSES = ("Decode", "StrictDecode", "RoundTrip", "ReAccept")
POSITION_CLASSES = ("top", "optional", "array", "map", "ref", "union-branch")
MAX_DISAGREE = 0.03


def variant_assumptions(batch):
    """The harness edits that make the dataquery-variant (format `kind`) packages compile, for the evidence."""
    if not batch.stats.get("variants_import_added") and not batch.stats.get("variants_package_supplied"):
        return []
    return ["format `kind` (composable DataQuery kinds): cog emits `Equals(otherCandidate variants.Dataquery)` but neither imports nor emits "
            "the `cog/variants` package at this commit; the harness supplied a minimal go/cog/variants/variants.go "
            "(interface Dataquery { ImplementsDataqueryVariant(); Equals(other Dataquery) bool }) and added the import line to %d generated "
            "packages (no other edit); the missing package/import is C02's subject" % batch.stats.get("variants_import_added", 0)]


def unlisted_failures(ctx):
    """Failures of this run whose signature is not a listed known finding."""
    known = {k["signature"] for k in core.load_known() if k["property"] == ctx.pid and k.get("status", "known") == "known"}
    return [f for f in ctx.failures if f["signature"] not in known]


def vacuity_gate(ctx, vac, what="vacuous clauses / position classes (never exercised on executable code)"):
    """A clause that was never exercised makes the run inconclusive - unless real-code violations were observed on what did
    run: those are verdicts and are reported (exit 1); the gap is recorded as a note."""
    if not vac:
        return
    if unlisted_failures(ctx):
        ctx.notes.append("%s: %s (reported after the violations observed on the packages that do execute)" % (what, vac))
        return
    raise core.Inconclusive("%s: %s" % (what, vac))


def docs_check(ctx, pid, clauses, assumptions, must=(), go_flags=None):
    replay = None
    select = None
    formats = FORMATS_WITH_KIND
    deep = not ctx.quick()
    extra = None
    if ctx.replay:
        replay = json.load(open(ctx.replay))["replay"]
        # the schema travels with the replay file (it may be a seeded draw): it is appended to the deep catalogue and found by value
        deep = True
        extra = [{"schema": replay["schema"], "leaf": replay.get("leaf", "replay"), "pos": replay.get("pos", "replay"), "cons": True}]
        select = lambda cat: [min(i for i, e in cat.items() if e["schema"] == replay["schema"])]
        formats = (replay["format"],)
    batch = run_batch(ctx, select=select, formats=formats, must=must, go_flags=go_flags, deep=deep, extra=extra)
    obs = observe_docs(ctx, batch, reaccept=("ReAccept" in clauses))
    fails = judge_docs(batch, obs, clauses)
    if replay:
        fails = [f for f in fails if json_equal(f["replay"]["doc"], replay["doc"])]
    # ---- TLC recomputes every verdict on the recorded real outcomes
    tw = TraceWriter(ctx, batch, pid.lower())
    order = []
    skipped_universe = 0
    for pkg in sorted(obs):
        for o in obs[pkg]:
            if o["dropped"]:
                continue
            if tw.add_doc(pkg, o):
                order.append((pkg, o))
            else:
                skipped_universe += 1
    tlc_viol, tr = tw.validate()
    agree = 0
    for i, (pkg, o) in enumerate(order):
        tv = tlc_viol.get(i, set())
        if "SpecVsValidator" in tv:
            raise core.Inconclusive("TLC: Accepts rejects a document the harness judged accepted (%s #%d)" % (pkg, o["case"]["n"]))
        if tv != o["violated"]:
            raise core.Inconclusive("TLC and the python join disagree on %s #%d (%s): TLC %s, python %s" % (
                pkg, o["case"]["n"], dumps(o["case"]["py"]), sorted(tv), sorted(o["violated"])))
        if not (tv & set(clauses)):
            agree += 1
    for f in fails:
        ctx.fail(f["sig"], f["what"], f["replay"], key=f.get("key"))
    # ---- coverage / vacuity
    n_docs = sum(len(v) for v in obs.values())
    dropped = collections.Counter(o["dropped"] for v in obs.values() for o in v if o["dropped"])
    disagree = dropped.get("spec-validator-disagree", 0)
    per_label = collections.Counter()
    per_pos = collections.Counter()
    per_clause = collections.Counter()
    per_fmt = collections.Counter()
    bounds_hit = collections.Counter()
    samples = []
    for pkg, lst in obs.items():
        u = batch.units[pkg]
        schema = batch.cat[u["id"]]["schema"]
        for o in lst:
            if o["dropped"]:
                continue
            c, j = o["case"], o["judge"]
            relevant = (j["strict"] or j["validate"]) if pid == "C08" else j["accepted"]
            if not relevant:
                continue
            pos, kind, bk = walk(schema, c["p"], c["py"])
            per_label[c["f"]] += 1
            per_fmt[u["fmt"]] += 1
            for tok in set(pos.split(">")):
                per_pos[tok] += 1
            if pid == "C08":
                if c["strictRejects"]:
                    for x in parts(c["f"]):
                        if x in STRICT_FAULTS:
                            per_clause["strict:" + STRICT_FAULTS[x]] += 1
                    if "+" in c["f"]:
                        per_clause["strict:two-place"] += 1
                elif set(parts(c["f"])) <= {"base", "alt"}:
                    per_clause["strict:valid-accepted"] += 1
                if j["validate"] and c["validateErrs"]:
                    per_clause["validate:violated"] += 1
                    for p in c["validateErrs"]:
                        vp, vk, vb = walk(schema, p, c["py"])
                        bounds_hit["%s.%s" % (vk, "+".join(vb))] += 1
                        for tok in set(vp.split(">")):
                            per_clause["validate@" + tok] += 1
                elif j["validate"]:
                    per_clause["validate:clean"] += 1
            else:
                per_clause["accepted"] += 1
                if o["enc"] is not NOENC:
                    per_clause["roundtrip"] += 1
                if o["reaccepted"] is not None:
                    per_clause["reaccept"] += 1
            if len(samples) < 3 and c["f"] not in ("base",) and (c["n"] % 7 == ctx.seed % 7):
                samples.append({"package": pkg, "leaf": batch.cat[u["id"]]["leaf"], "pos": batch.cat[u["id"]]["pos"], "label": c["f"],
                                "path": c["p"], "doc": c["py"], "expected": {"accepts": c["accepts"], "strictRejects": c["strictRejects"],
                                                                             "validateErrs": sorted(c["validateErrs"])},
                                "real": {"std_err": o["rec"].get("std_err"), "strict_err": o["rec"].get("strict_err"),
                                         "validate_paths": o["verrs"], "enc": None if o["enc"] is NOENC else o["enc"]}})
    # documents outside the property's domain (NonMember): what the code did with them, for the record only
    unjudged = collections.Counter()
    for pkg, lst in obs.items():
        for o in lst:
            if "NonMember" in parts(o["case"]["f"]) and not o["dropped"]:
                unjudged["strict_rejects" if o["strict_rejects"] else "strict_accepts"] += 1
                if o["verrs"] is not None:
                    unjudged["validate_reports" if o["verrs"] else "validate_silent"] += 1
    if disagree:
        by_fmt = collections.Counter(batch.units[pkg]["fmt"] for pkg, lst in obs.items() for o in lst if o["dropped"] == "spec-validator-disagree")
        ctx.notes.append("%d of %d documents dropped: Semantics!Accepts and the reference validator disagree (%s); typical case: CUE accepts a document "
                         "lacking a required list / struct / constant field because CUE fills it in, while cog marks the field required" % (
                             disagree, n_docs, dict(by_fmt)))
    status = collections.Counter(u["status"] for u in batch.units.values())
    if not replay:
        vac = []
        if pid == "C08":
            need = ["strict:" + v for v in STRICT_FAULTS.values()] + ["strict:valid-accepted", "validate:violated", "validate:clean"]
            need += ["validate@" + p for p in POSITION_CLASSES]
        else:
            need = ["accepted", "roundtrip"] + (["reaccept"] if "ReAccept" in clauses else [])
        vac += [k for k in need if per_clause[k] == 0]
        vac += ["position:" + p for p in POSITION_CLASSES if per_pos[p] == 0]
        vac += ["format:" + f for f in FORMATS_WITH_KIND if per_fmt[f] == 0]
        vacuity_gate(ctx, vac)
        judged = sum(per_label.values())
        if n_docs and disagree > MAX_DISAGREE * n_docs:
            vacuity_gate(ctx, ["%d of %d documents" % (disagree, n_docs)], "Accepts and the reference validators disagree on too many documents")
    binding = None
    good = [(pkg, o) for pkg, o in order if not o["violated"] and o["judge"]["strict"]]
    if good and not replay:
        binding = selftest_binding(ctx, batch, good[ctx.seed % len(good)])
    disagree_examples = []
    for pkg, lst in obs.items():
        for o in lst:
            if o["dropped"] == "spec-validator-disagree" and len(disagree_examples) < 5:
                disagree_examples.append({"package": pkg, "doc": o["case"]["py"], "spec_accepts": o["case"]["accepts"], "validator": o["ref"]})
    not_exec = collections.Counter()
    for u in batch.units.values():
        if u["status"] in ("not_executable", "codegen_error", "codegen_panic", "not_expressible", "refval_schema_error", "no_root_type"):
            not_exec["%s/%s: %s" % (u["fmt"], u["status"], (u.get("why") or "; ".join(u.get("diagnostics", [])) or u.get("refval_err") or "")[:120])] += 1
    cov = {
        "states": sum(r["distinct"] for r in ctx.tlc_runs),
        "transitions": sum(r["generated"] for r in ctx.tlc_runs),
        "traces_validated_against_impl": agree,
        "real_records_validated_by_tlc_trace_spec": len(order),
        "exhaustive": not ctx.quick(),
        "evaluations": n_docs,
        "distinct_nontrivial": sum(v for k, v in per_label.items() if k != "base"),
        "rule": "one evaluation = one (schema, input format, document) triple: the schema term is rendered in that format, the real cog "
                "pipeline generates Go, the package is compiled and the document is run through json.Unmarshal, UnmarshalJSONStrict, "
                "Validate and json.Marshal by the reflection driver; documents are TLC's Base + one-place Variants; non-trivial = not the base "
                "document and judged for this property (label in the property's domain, reference validator agrees with Accepts)",
        "schemas": len(batch.ids), "catalogue_size": len(batch.cat),
        "units": dict(status), "units_not_observed": dict(not_exec),
        "unused_imports_removed": sorted({"%s:%s" % (batch.units[p]["fmt"], i) for p, i in batch.unused_imports_removed}),
        "packages_recompiled_after_unused_import_removal": len({p for p, _ in batch.unused_imports_removed}),
        "documents_dropped": dict(dropped), "documents_outside_number_universe": skipped_universe,
        "spec_validator_disagreement_examples": disagree_examples,
        "nonmember_documents_observed_not_judged": dict(unjudged),
        "per_label": dict(per_label), "per_position_token": dict(per_pos), "per_clause": dict(per_clause),
        "per_format": dict(per_fmt), "bounds_violated": dict(bounds_hit),
        "timing": batch.timing, "binding_selftest": binding,
        "samples": samples or [{"note": "no sample drawn"}],
        "checker_cmd": "tlc SemanticsMC (index, cases); worker sem-gen; go build; driver; python3-vt jsonschema + worker sem-validate; tlc SemanticsTrace",
    }
    a = list(assumptions)
    a += variant_assumptions(batch)
    if batch.unused_imports_removed:
        a.append("packages whose only compiler diagnostics were `imported and not used` were recompiled after deleting exactly those import lines "
                 "(no other edit); the defect itself belongs to C02")
    return ctx.finish("model_checking", cov, a)


COMMON_ASSUMPTIONS = [
    "bounded universe: the catalogue of spec/SemanticsMC.tla (fixed covering list + leaf kind x position, nesting depth <= 3) and, per schema, "
    "the base document plus every document differing from it in exactly one place over the alphabet {null, booleans, -1, 0, 1, 2, 300, 1.5, "
    "strings of length 0..3, arrays of <= 2, one undeclared key}",
    "packages that cog cannot generate or that do not compile are excluded and counted (units_not_observed); that is C02/C04's subject",
    "reference validators (python jsonschema Draft7, kin-openapi VisitJSON, CUE Unify+Validate) are the authority for `the schema accepts`; "
    "documents on which Semantics!Accepts disagrees with them are dropped and counted; documents with an undeclared key are not submitted "
    "to them (JSON Schema / OpenAPI objects are open, CUE definitions closed)",
    "CUE distinguishes 1 from 1.0: the document handed to the CUE validator spells numbers in float-typed positions with a fraction",
    "date-time strings are only used in the canonical spelling the encoder produces",
]
