"""C02 - a successful run only emits well-formed code; unsupported constructs are errors.

spec:  FlagLattice.tla (the configuration lattice, Expressible, the two implications), FlagLatticeMC.tla (TLC enumerates
       the lattice completely and the covering set of IR shapes), DirectIR.tla (directly constructed IRs),
       FlagLatticeTrace.tla (TLC recomputes both implications on the recorded real runs).
real:  every selected (shape, input format | direct IR, language, configuration) is ONE real run of cog
       (codegen.PipelineFromFile + Run through worker `sem-gen`; ContextForLanguage + Language.Jennies through `c02-ir`);
       the files it wrote are judged by the toolchains: one `go build -gcflags=-e` with per-package attribution,
       python3 py_compile + import of every module, javac 17 against the real Jackson 2.15 jars, and a scan for the
       placeholder texts extracted from the jennies' sources of the CURRENT tree.
level: exploration (the compilers are the oracle; the spec contributes the lattice, Expressible and the verdict).
"""
import collections
import json
import os
import random
import re
import shutil
import time

from checks import gencode_common as g
from checks import semantics_common as sc
from vlib import core

CLAUSES = ("compile", "import", "placeholder", "silent-unsupported")
# thorough: besides the composites, the complete Go lattice (768 configurations) is run on one shape per construct family
GO_FULL_LATTICE_SHAPES = ("union-scalars", "dunion", "map-of-struct", "array-of-refs", "enum-str", "enum-int", "const-str", "default-str",
                          "nullable", "optional", "recursive", "time", "any", "intersection", "anon-struct",
                          "default-enum-optional", "default-enum-nullable", "named-collections-optional", "identifiers-required-typed")


# ----------------------------------------------------------------------------------------------
# TLC: lattice, shapes, direct IRs
# ----------------------------------------------------------------------------------------------
def cfg_key(c):
    return (tuple(sorted(c["out"])), tuple(sorted(c["on"])))


def params_of(lang, lattice):
    flags = set()
    for c in lattice:
        flags |= set(c["on"])
    return list(g.OUTPUT_KINDS) + sorted(flags)


def value_of(c, p):
    return (p in c["out"]) if p in g.OUTPUT_KINDS else (p in c["on"])


def pairs_of(c, params):
    # same definition as FlagLattice!PairsOf (ordered, reflexive pairs of (parameter, value))
    vals = [(p, value_of(c, p)) for p in params]
    return {(p, v, q, w) for p, v in vals for q, w in vals}


def load_lattice(ctx):
    r = ctx.run_tlc("FlagLatticeMC", "FlagLatticeMC.cfg", workers=4, timeout=300, constants={"Mode": '"configs"'})
    lat = collections.defaultdict(list)
    n = 0
    for c in core.tagged_lines(r["out"], "CONFIG"):
        lat[c["lang"]].append({"lang": c["lang"], "out": sorted(c["out"]), "on": sorted(c["on"])})
        n += 1
    if n != r["distinct"]:
        raise core.Inconclusive("FlagLatticeMC: %d CONFIG lines for %d states" % (n, r["distinct"]))
    pairs = None
    for x in core.tagged_lines(r["out"], "PAIRS"):
        pairs = x
    INEXPRESSIBLE.clear()
    for x in core.tagged_lines(r["out"], "INEXPRESSIBLE"):
        INEXPRESSIBLE.update((a, b) for a, b in x)
    for lang in lat:
        lat[lang].sort(key=cfg_key)
        for i, c in enumerate(lat[lang]):
            c["idx"] = i
            c["dir"] = "%s/k%04d" % (lang, i)
        ps = params_of(lang, lat[lang])
        mine = set()
        for c in lat[lang]:
            mine |= pairs_of(c, ps)
        if pairs is None or pairs.get(lang) != len(mine):
            raise core.Inconclusive("pair universe of %s: TLC %s, harness %d" % (lang, pairs and pairs.get(lang), len(mine)))
    if set(lat) != set(g.LANGS):
        raise core.Inconclusive("lattice languages %s" % sorted(lat))
    return dict(lat), r


def load_shapes(ctx):
    r = ctx.run_tlc("FlagLatticeMC", "FlagLatticeMC.cfg", workers=1, timeout=300, constants={"Mode": '"shapes"'})
    shapes = sorted(core.tagged_lines(r["out"], "SHAPE"), key=lambda s: s["id"])
    if len(shapes) != r["distinct"]:
        raise core.Inconclusive("FlagLatticeMC: %d SHAPE lines for %d states" % (len(shapes), r["distinct"]))
    r2 = ctx.run_tlc("DirectIR", "DirectIR.cfg", workers=1, timeout=300)
    irs = sorted(core.tagged_lines(r2["out"], "IRSHAPE"), key=lambda s: s["id"])
    if len(irs) != r2["distinct"]:
        raise core.Inconclusive("DirectIR: %d IRSHAPE lines for %d states" % (len(irs), r2["distinct"]))
    for s in shapes:
        s["kind"] = "schema"
    for s in irs:
        s["kind"] = "ir"
    return shapes, irs


# ----------------------------------------------------------------------------------------------
# covering arrays over the lattice TLC enumerated
# ----------------------------------------------------------------------------------------------
def covering_array(lang, lattice, rng):
    """Greedy pairwise covering array: rows are members of the lattice (so every row is valid); verified below."""
    params = params_of(lang, lattice)
    universe = set()
    for c in lattice:
        universe |= pairs_of(c, params)
    cand = list(lattice)
    rng.shuffle(cand)
    # anchor rows first: everything on (without skip_runtime), and types only with everything off
    def is_all_on(c):
        return set(c["out"]) == set(g.OUTPUT_KINDS) and set(c["on"]) == {p for p in params if p not in g.OUTPUT_KINDS and p != "skip_runtime"}
    rows = [c for c in cand if is_all_on(c)] + [c for c in cand if c["out"] == ["types"] and not c["on"]]
    covered = set()
    for c in rows:
        covered |= pairs_of(c, params)
    while covered != universe:
        best, gain = None, -1
        for c in cand:
            gn = len(pairs_of(c, params) - covered)
            if gn > gain:
                best, gain = c, gn
        if gain <= 0:
            raise core.Inconclusive("covering array construction stalled for %s" % lang)
        rows.append(best)
        covered |= pairs_of(best, params)
    return rows


def array_covers(lang, lattice, rows):
    params = params_of(lang, lattice)
    universe, covered = set(), set()
    for c in lattice:
        universe |= pairs_of(c, params)
    for c in rows:
        covered |= pairs_of(c, params)
    return universe <= covered


# ----------------------------------------------------------------------------------------------
# jobs
# ----------------------------------------------------------------------------------------------
def unit_pkg(shape, fmt):
    if shape["kind"] == "ir":
        return "d%02d" % shape["id"]
    return "s%02d%s" % (shape["id"], sc.FMT_LETTER[fmt])


def job_id(shape, fmt, cfg):
    return "%s/%s/k%04d" % (unit_pkg(shape, fmt), cfg["lang"], cfg["idx"])


def make_job(shape, fmt, cfg):
    pkg = unit_pkg(shape, fmt)
    pkgs = [pkg + s["pkg"] for s in shape["schemas"]] if shape["kind"] == "ir" else [pkg]
    return {"id": job_id(shape, fmt, cfg), "shape": shape, "fmt": fmt, "cfg": cfg, "lang": cfg["lang"], "pkg": pkg, "pkgs": pkgs}


def rename_ir(schemas, prefix):
    """Package names of a direct IR are made unique per shape (they become directory / module names)."""
    def rec(x):
        if isinstance(x, dict):
            return {k: (prefix + v if k in ("pkg", "selfpkg") and isinstance(v, str) and v else rec(v)) for k, v in x.items()}
        if isinstance(x, list):
            return [rec(v) for v in x]
        return x
    return rec(schemas)


class Round:
    """One generation + toolchain round over a list of jobs (a fresh scratch module)."""

    def __init__(self, ctx, name, jobs, scanner):
        self.ctx, self.name, self.scanner = ctx, name, scanner
        self.jobs = {j["id"]: j for j in jobs}
        self.gen = ctx.sub("gen-" + name)
        self.records = {}
        self.timing = {}
        self.not_rendered = collections.Counter()

    def run(self):
        ctx, gen = self.ctx, self.gen
        t0 = time.time()
        inputs = os.path.join(gen, "_in")
        os.makedirs(inputs)
        open(os.path.join(gen, "go.mod"), "w").write("module %s\n\ngo 1.21\n" % sc.MODULE)
        texts = {}
        sem_jobs, ir_jobs = [], []
        for jid, j in sorted(self.jobs.items()):
            shape, fmt, cfg = j["shape"], j["fmt"], j["cfg"]
            ydir = os.path.join(inputs, cfg["lang"], "k%04d" % cfg["idx"])
            os.makedirs(ydir, exist_ok=True)
            yp = os.path.join(ydir, j["pkg"] + ".yaml")
            if shape["kind"] == "ir":
                open(yp, "w").write(g.pipeline_yaml("", cfg["lang"], cfg["out"], cfg["on"], cfg["dir"]))
                ir_jobs.append({"id": jid, "yaml": yp, "root": gen, "schemas": rename_ir(shape["schemas"], j["pkg"])})
                continue
            key = (shape["id"], fmt)
            if key not in texts:
                try:
                    text = g.render_schema(shape["schema"], fmt, j["pkg"])
                except sc.NotExpressible as e:
                    texts[key] = (None, str(e))
                else:
                    if fmt == "cue":
                        d = os.path.join(inputs, j["pkg"])
                        os.makedirs(d)
                        open(os.path.join(d, j["pkg"] + ".cue"), "w").write(text)
                        path = d
                    else:
                        path = os.path.join(inputs, j["pkg"] + ".json")
                        open(path, "w").write(text)
                    texts[key] = (path, text)
            path, text = texts[key]
            if path is None:
                self.not_rendered["%s: %s" % (fmt, text)] += 1
                j["skipped"] = text
                continue
            j["text"] = text
            open(yp, "w").write(g.pipeline_yaml(g.input_yaml(fmt, path, j["pkg"]), cfg["lang"], cfg["out"], cfg["on"], cfg["dir"]))
            sem_jobs.append({"id": jid, "yaml": yp, "root": gen})
        res = {}
        if sem_jobs:
            res.update(g.run_sharded(ctx, "sem-gen", sem_jobs, gen))
        if ir_jobs:
            res.update(g.run_sharded(ctx, "c02-ir", ir_jobs, gen))
        self.timing["generate_s"] = round(time.time() - t0, 2)
        # ---- outcomes
        for jid, r in res.items():
            j = self.jobs[jid]
            rec = {"outcome": "files" if r.get("ok") else "panic" if r.get("panic") else "error",
                   "why": (r.get("panic") or r.get("err") or "")[:1500], "files": r.get("files") or [],
                   "verdicts": {"compile": "na", "import": "na", "placeholder": "na"}, "diags": []}
            if rec["why"].startswith("harness:") or rec["why"].startswith("config:") or rec["why"].startswith("write:"):
                raise core.Inconclusive("harness-side failure in %s: %s" % (jid, rec["why"][:300]))
            self.records[jid] = rec
        self._toolchains()
        return self

    # ------------------------------------------------------------------------------------------
    def _toolchains(self):
        ctx, gen = self.ctx, self.gen
        ok = {jid: rec for jid, rec in self.records.items() if rec["outcome"] == "files"}
        by_root = collections.defaultdict(list)       # (lang, kdir) -> [jid]
        for jid in ok:
            j = self.jobs[jid]
            by_root[(j["lang"], "k%04d" % j["cfg"]["idx"])].append(jid)

        def judged(j):
            # a configuration without `types` emits the builders half of a package only (generation split over
            # runs by design): the toolchain verdicts need the types, the placeholder scan does not
            return "types" in j["cfg"]["out"]

        names = {p for jid in ok for p in self.jobs[jid]["pkgs"]}
        types = set()
        for jid in ok:
            sh = self.jobs[jid]["shape"]
            if sh["kind"] == "schema":
                types |= {d["name"] for d in sh["schema"]["defs"]}
            else:
                types |= {o["name"] for s_ in sh["schemas"] for o in s_["objects"]}
        # ---- Go
        t0 = time.time()
        if any(lang == "go" for lang, _ in by_root) and os.path.isdir(os.path.join(gen, "go")):
            diags, _ = g.go_build(ctx, gen)
            for (lang, k), jids in by_root.items():
                if lang != "go":
                    continue
                rt = diags.get((k, "cog"), []) + diags.get((k, "cog/variants"), [])
                for jid in jids:
                    j, rec = self.jobs[jid], self.records[jid]
                    if not judged(j):
                        continue
                    ds = [d for p in j["pkgs"] for d in diags.get((k, p), [])]
                    rec["verdicts"]["compile"] = "fail" if (ds or rt) else "ok"
                    fw = g.field_words(j["shape"]) if "identifiers" in j["shape"]["constructs"] else ()
                    for f, line, msg in ds:
                        rec["diags"].append(("compile", g.norm_diag(g.blank_fields(msg, fw), names, types) + "@" + file_role("go", f), "%s: %s" % (f, msg), "package"))
                    for f, line, msg in rt:
                        rec["diags"].append(("compile", g.norm_diag(msg, names, types), "%s: %s" % (f, msg), "runtime"))
        self.timing["go_build_s"] = round(time.time() - t0, 2)
        # ---- Python
        t0 = time.time()
        tops = sorted(k for lang, k in by_root if lang == "python")
        tops = [k for k in tops if os.path.isdir(os.path.join(gen, "python", k))]
        if tops:
            pyres = g.python_check(ctx, gen, tops)
            for k in tops:
                per_pkg = collections.defaultdict(list)
                runtime = []
                for fr in pyres[k]:
                    for clause in ("compile", "import"):
                        if fr[clause] is None:
                            continue
                        blame = fr.get("where") or fr["file"]
                        parts = blame.split(os.sep)          # k0001/models/s07j.py | k0001/cog/encoder.py
                        stem = os.path.splitext(parts[-1])[0]
                        target = per_pkg[stem] if (len(parts) >= 3 and parts[-2] in ("models", "builders") and stem != "__init__") else runtime
                        target.append((clause, fr[clause], fr["file"]))
                for jid in by_root[("python", k)]:
                    j, rec = self.jobs[jid], self.records[jid]
                    if not judged(j):
                        continue
                    rec["verdicts"]["compile"] = rec["verdicts"]["import"] = "ok"
                    seen = set()
                    for scope, items in (("package", [x for p in j["pkgs"] for x in per_pkg.get(p, [])]), ("runtime", runtime)):
                        fw = g.field_words(j["shape"]) if "identifiers" in j["shape"]["constructs"] else ()
                        for clause, msg, f in items:
                            rec["verdicts"][clause] = "fail"
                            cls = g.norm_diag(g.blank_fields(msg, fw), names, types) + ("@" + file_role("python", f) if scope == "package" else "")
                            if (clause, cls) not in seen:
                                seen.add((clause, cls))
                                rec["diags"].append((clause, cls, "%s: %s" % (f, msg), scope))
        self.timing["python_s"] = round(time.time() - t0, 2)
        # ---- Java
        t0 = time.time()
        tops = sorted(k for lang, k in by_root if lang == "java")
        tops = [k for k in tops if os.path.isdir(os.path.join(gen, "java", k))]
        # javac needs the types of a package to judge its builders: roots of configurations without `types` are skipped
        tops = [k for k in tops if any(judged(self.jobs[jid]) for jid in by_root[("java", k)])]
        if tops:
            jres, _ = g.javac_check(ctx, gen, tops)
            for k in tops:
                rt = [x for p in ("cog", "variants") for x in jres[k].get(p, [])]
                for jid in by_root[("java", k)]:
                    j, rec = self.jobs[jid], self.records[jid]
                    if not judged(j):
                        continue
                    ds = [x for p in j["pkgs"] for x in jres[k].get(p, [])]
                    rec["verdicts"]["compile"] = "fail" if (ds or rt) else "ok"
                    # javac errors cascade: the first diagnostic of each file is the witness
                    firsts, files_seen = [], set()
                    for f, msg in ds:
                        if f not in files_seen:
                            files_seen.add(f)
                            firsts.append((f, msg))
                    ds = firsts
                    seen = set()
                    for scope, items in (("package", ds), ("runtime", rt)):
                        fw = g.field_words(j["shape"]) if "identifiers" in j["shape"]["constructs"] else ()
                        for f, msg in items:
                            cls = g.norm_diag(g.blank_fields(msg, fw), names, types) + ("@" + file_role("java", f) if scope == "package" else "")
                            if cls not in seen:
                                seen.add(cls)
                                rec["diags"].append(("compile", cls, "%s: %s" % (f, msg), scope))
        self.timing["javac_s"] = round(time.time() - t0, 2)
        # ---- placeholders, every language, every file the run listed
        t0 = time.time()
        for jid, rec in ok.items():
            j = self.jobs[jid]
            rec["verdicts"]["placeholder"] = "ok"
            for f in rec["files"]:
                for text, line in self.scanner.scan(j["lang"], os.path.join(gen, f)):
                    rec["verdicts"]["placeholder"] = "fail"
                    scope = "package" if j["pkg"] in f.lower() else "shared"
                    rec["diags"].append(("placeholder", g.norm_diag(text), "%s: %s" % (f, line), scope))
        self.timing["placeholder_s"] = round(time.time() - t0, 2)


_FAMILY = (("union-scalars", "union"), ("disjunction-scalars", "union"), ("dunion", "dunion"), ("disjunction-refs", "dunion"),
           ("disjunction-top-level", "dunion"), ("disjunction-with-null", "nullable"), ("map-of", "map"), ("map-keys", "map"), ("array-of", "array"),
           ("enum", "enum"), ("constref", "const"), ("const", "const"), ("defaults-typed", "default"), ("default", "default"),
           ("nullable", "nullable"), ("optional", "optional"), ("cross-package", "ref"), ("ref", "ref"), ("recursive", "recursive"),
           ("top-level-kinds", "alias"), ("alias", "alias"), ("named-collections", "named-collections"), ("identifiers", "identifiers"),
           ("time", "time"), ("any", "any"), ("intersection", "intersection"), ("anon-struct", "anon-struct"), ("null-type", "null"),
           ("type-list", "type-list"), ("scalar-kinds", "scalars"), ("int-kinds", "scalars"), ("scalars", "scalars"), ("string-bounds", "bounds"),
           ("bounds", "bounds"), ("kitchen-sink", "composite"), ("collections-of-collections", "composite"))


def family(shape):
    """The family of a shape (what it is a shape OF): the construct part of a signature. It only depends on the shape itself,
    so that repairing a defect in one family does not rename the signatures of the others."""
    n = shape["name"][3:] if shape["name"].startswith("ir-") else shape["name"]
    for prefix, fam in _FAMILY:
        if n.startswith(prefix):
            return fam
    return n


def file_role(lang, path):
    """which generator wrote the file a diagnostic points at: part of the diagnostic class, so that the same compiler message at
    two different sites (types vs builders) is not one group"""
    b = os.path.basename(path)
    if lang == "go":
        return "builder" if b.endswith("_builder_gen.go") else "converter" if b.endswith("_converter_gen.go") else "types" if b == "types_gen.go" else "other"
    if lang == "python":
        d = os.path.basename(os.path.dirname(path))
        return d if d in ("models", "builders") else "other"
    if lang == "java":
        for suffix, role in (("Builder.java", "builder"), ("Converter.java", "converter"), ("Deserializer.java", "deserializer"), ("Serializer.java", "serializer")):
            if b.endswith(suffix):
                return role
        return "types"
    return "other"


def violated(job, rec):
    """python twin of FlagLattice!Violated (TLC recomputes it in FlagLatticeTrace)."""
    v = set()
    if rec["outcome"] == "files":
        for k in ("compile", "import", "placeholder"):
            if rec["verdicts"][k] == "fail":
                v.add(k)
    if not job["shape"]["expressible"][job["lang"]] and "types" in job["cfg"]["out"] and rec["outcome"] != "error":
        v.add("silent-unsupported")
    return v


def panic_class(why):
    """first line = message, following lines = cog frames (semGenOne's topFrames)"""
    lines = why.split("\n")
    msg = re.sub(r"0x[0-9a-f]+", "N", lines[0])
    frame = ""
    for l in lines[1:]:
        m = re.match(r"github\.com/grafana/cog/internal/(?:[\w\-]+/)*([\w\-]+)\.(?:\(\*?([\w]+)\)\.)?([\w]+)", l)
        if m and "verifapi" not in l:
            frame = "%s.%s" % (m.group(1), m.group(3))
            break
    return "%s:%s" % (frame or "?", g.norm_diag(msg)[:60])


# ----------------------------------------------------------------------------------------------
# the check
# ----------------------------------------------------------------------------------------------
def flip(cfg, p):
    out, on = set(cfg["out"]), set(cfg["on"])
    s = out if p in g.OUTPUT_KINDS else on
    if p in s:
        s.discard(p)
    else:
        s.add(p)
    return (tuple(sorted(out)), tuple(sorted(on)))


def run(ctx):
    quick = ctx.quick()
    ctx.build_worker()
    lattice, r_lat = load_lattice(ctx)
    shapes, irshapes = load_shapes(ctx)
    index = {lang: {cfg_key(c): c for c in lattice[lang]} for lang in lattice}
    placeholders = g.extract_placeholders(core.REPO)
    if not any(p["lang"] == "go" for p in placeholders):
        raise core.Inconclusive("no placeholder text could be extracted from the Go jenny of the current tree")
    scanner = g.PlaceholderScanner(placeholders)
    rng = random.Random(ctx.seed)

    # ------------------------------------------------------------------ replay: one recorded run again
    if ctx.replay:
        rp = json.load(open(ctx.replay))["replay"]
        pool = {s["name"]: s for s in shapes + irshapes}
        if rp["shape"] not in pool:
            raise core.Inconclusive("shape %s is no longer in the catalogue" % rp["shape"])
        shape = pool[rp["shape"]]
        cfg = index[rp["lang"]].get((tuple(sorted(rp["out"])), tuple(sorted(rp["on"]))))
        if cfg is None:
            raise core.Inconclusive("the replayed configuration is not in the lattice")
        job = make_job(shape, rp.get("format") or "ir", cfg)
        rd = Round(ctx, "replay", [job], scanner).run()
        rec = rd.records.get(job["id"])
        if rec is None:
            raise core.Inconclusive("replay: the shape has no rendering in %s" % rp.get("format"))
        for clause in sorted(violated(job, rec)):
            cls = [d for d in rec["diags"] if d[0] == clause]
            if clause == "silent-unsupported":
                dc = "success" if rec["outcome"] == "files" else "panic:" + panic_class(rec["why"])
                ctx.fail(rp["signature_hint"] if rp.get("clause") == clause else "C02/%s/%s/%s/replay" % (job["lang"], clause, dc), rec["why"][:300], rp)
            for d in cls:
                if d[1] == rp.get("diag"):
                    ctx.fail(rp["signature_hint"], d[2], rp)
        return ctx.finish("exploration", {"evaluations": 1, "distinct_nontrivial": 0, "rule": "replay of one recorded run",
                                          "samples": [{"replayed": rp.get("shape"), "outcome": rec["outcome"], "verdicts": rec["verdicts"]}]}, [])

    # ------------------------------------------------------------------ plan
    arrays = {}
    for lang in g.LANGS:
        rows = covering_array(lang, lattice[lang], rng)
        if not quick and lang == "go":
            more = covering_array(lang, lattice[lang], random.Random(ctx.seed + 7919))
            rows += [c for c in more if c not in rows]
        if not array_covers(lang, lattice[lang], rows):
            raise core.Inconclusive("covering array of %s does not cover the lattice's pairs" % lang)
        arrays[lang] = rows
    composites = [s for s in shapes if "composite" in s["constructs"]]
    jobs = {}

    def add(shape, fmt, cfg):
        j = make_job(shape, fmt, cfg)
        jobs.setdefault(j["id"], j)

    alone = {}
    for lang in g.LANGS:
        flags_ = [p for p in params_of(lang, lattice[lang]) if p not in g.OUTPUT_KINDS and p != "alt_paths"]
        want = [(("types",), (fl,)) for fl in flags_]
        want += [(("types",), ("generate_json_marshaller", "generate_strict_unmarshaller")), (("builders", "types"), ()), (("builders", "converters", "types"), ())]
        alone[lang] = [index[lang][k] for k in ((tuple(sorted(o)), tuple(sorted(n))) for o, n in want) if k in index[lang]]
    per_unit = {"go": 4, "python": 2, "java": 2, "typescript": 2, "php": 2, "jsonschema": 1, "openapi": 1}
    for lang in g.LANGS:
        rows = arrays[lang]
        units = [(s, f) for s in shapes for f in sc.FORMATS] + [(s, "ir") for s in irshapes]
        for n, (s, f) in enumerate(units):
            if quick:
                start = (n * per_unit[lang] + ctx.seed) % len(rows)
                chosen = [rows[(start + i) % len(rows)] for i in range(min(per_unit[lang], len(rows)))]
                # the anchor row (every output kind and every generation flag on) is run for every unit in every seed
                if rows[0] not in chosen:
                    chosen = [rows[0]] + chosen
                # every generation flag ALONE (audit class 11): an import or helper that another feature also provides is only
                # missed when that feature is on; one rendering per shape is enough for this axis
                if f in ("jsonschema", "ir"):
                    chosen = chosen + [c for c in alone.get(lang, []) if c not in chosen]
            else:
                chosen = rows
            for c in chosen:
                add(s, f, c)
        if not quick:
            # the complete lattice: on the composite shapes for Go, on every shape for the small lattices
            full_on = [s for s in shapes if "composite" in s["constructs"] or s["name"] in GO_FULL_LATTICE_SHAPES] if lang == "go" else shapes
            for s in full_on:
                for c in lattice[lang]:
                    add(s, "jsonschema", c)
    core.log("plan: %d runs (%s)" % (len(jobs), dict(collections.Counter(j["lang"] for j in jobs.values()))))

    rounds = [Round(ctx, "main", list(jobs.values()), scanner).run()]
    main = rounds[0]
    core.log("main round: %s" % main.timing)

    # ------------------------------------------------------------------ group failures by (lang, clause, diagnostic class)
    def collect(rd):
        groups = collections.defaultdict(list)
        for jid, rec in rd.records.items():
            j = rd.jobs[jid]
            for clause in violated(j, rec):
                if clause == "silent-unsupported":
                    dc = "success" if rec["outcome"] == "files" else "panic:" + panic_class(rec["why"])
                    groups[(j["lang"], clause, dc, "package", "-")].append((jid, rec["why"].split("\n")[0][:300] or "the run reported success and wrote %d files" % len(rec["files"])))
                    continue
                seen = set()
                for c, cls, detail, scope in rec["diags"]:
                    if c == clause and (cls, scope) not in seen:
                        seen.add((cls, scope))
                        groups[(j["lang"], clause, cls, scope, family(j["shape"]) if scope == "package" else scope)].append((jid, detail))
        # a composite shape only speaks when no single-construct shape shows the same diagnostic
        for key in [k for k in groups if k[4] == "composite"]:
            if any(k[:4] == key[:4] and k[4] != "composite" for k in groups):
                del groups[key]
        return groups

    groups = collect(main)

    def fails(rd, jid, key):
        rec = rd.records.get(jid)
        if rec is None:
            return None
        lang, clause, cls, scope = key[:4]
        if clause == "silent-unsupported":
            return clause in violated(rd.jobs[jid], rec)
        if rec["outcome"] == "files" and rec["verdicts"][clause] == "na":
            return None          # the verdict was not taken under this configuration: undecidable
        return any(c == clause and k == cls for c, k, _, _ in rec["diags"])

    # ---- attribution, phase A: the smallest configuration under which the witness unit still shows the diagnostic.
    # Small lattices (<= 64 configurations) are run completely on the witness unit; for Go every configuration with at
    # most two parameters switched on (besides `types`, which the toolchain verdicts need) plus the one-at-a-time flips
    # around the sampled configuration as a fallback. The choice among failing configurations is canonical (fewest
    # parameters on, then alphabetical), so it does not depend on which configuration the sample happened to hit.
    def job_order(x):
        j = main.jobs[x]
        return (j["shape"]["kind"], j["shape"]["id"], sc.FORMATS.index(j["fmt"]) if j["fmt"] in sc.FORMATS else 9,
                len(j["cfg"]["on"]) + len(j["cfg"]["out"]), j["cfg"]["idx"])
    order = {j: n for n, j in enumerate(sorted(main.jobs, key=job_order))}
    witness, cands, phase_a = {}, {}, {}
    for key, items in groups.items():
        if key[1] == "silent-unsupported":
            continue
        lang, clause = key[0], key[1]
        wj = main.jobs[min((jid for jid, _ in items), key=lambda x: order[x])]
        witness[key] = wj
        need_types = clause in ("compile", "import")
        cs = []
        for c in lattice[lang]:
            n_on = len(c["on"]) + len([o for o in c["out"] if not (need_types and o == "types")])
            if need_types and "types" not in c["out"]:
                continue
            if len(lattice[lang]) <= 64 or n_on <= 2:
                cs.append(c)
        for p in params_of(lang, lattice[lang]):
            c2 = index[lang].get(flip(wj["cfg"], p))
            if c2 is not None and c2 not in cs:
                cs.append(c2)
        cands[key] = cs
        for c in cs:
            j2 = make_job(wj["shape"], wj["fmt"], c)
            phase_a[j2["id"]] = j2
    literals, minimal = {}, {}
    if phase_a:
        ra = Round(ctx, "minimise", list(phase_a.values()), scanner).run()
        rounds.append(ra)
        core.log("minimise round: %d runs %s" % (len(phase_a), ra.timing))
        for key, wj in witness.items():
            lang, clause = key[0], key[1]
            need_types = clause in ("compile", "import")

            def size(c):
                ons = sorted(c["on"]) + sorted(o for o in c["out"] if not (need_types and o == "types"))
                return (len(ons), sorted(ons))
            failing = [c for c in cands[key] if fails(ra, job_id(wj["shape"], wj["fmt"], c), key)]
            small = [c for c in failing if len(lattice[lang]) <= 64 or size(c)[0] <= 2]
            if small:
                c = min(small, key=size)
                minimal[key] = c
                literals[key] = [(p, True) for p in size(c)[1]]
                continue
            # fallback: parameters that must be ON around the sampled witness (single flips)
            lits = []
            for p in params_of(lang, lattice[lang]):
                c2 = index[lang].get(flip(wj["cfg"], p))
                if c2 is None or not value_of(wj["cfg"], p) or (need_types and p == "types"):
                    continue
                if fails(ra, job_id(wj["shape"], wj["fmt"], c2), key) is False:
                    lits.append((p, True))
            literals[key] = lits
            out = {p for p, v in lits if p in g.OUTPUT_KINDS} | ({"types"} if need_types else set())
            on = {p for p, v in lits if p not in g.OUTPUT_KINDS}
            minimal[key] = index[lang].get((tuple(sorted(out)), tuple(sorted(on)))) or wj["cfg"]
    # ---- the construct part is the family of the failing shapes; groups are per family, each with its own smallest configuration
    classes = {}
    fail_fmt = {}
    for key in minimal:
        names_ = sorted({main.jobs[jid]["shape"]["name"] for jid, _ in groups[key]})
        classes[key] = ([key[4]], names_)

    # ------------------------------------------------------------------ report
    def lit_text(lits):
        return "+".join(sorted(("" if v else "!") + g.SHORT.get(p, p) for p, v in lits)) or "any-config"

    group_info = []
    pending = []
    by_name = {s_["name"]: s_ for s_ in shapes + irshapes}
    for key in sorted(groups):
        lang, clause, cls, scope = key[:4]
        items = groups[key]
        jid0, detail0 = min(items, key=lambda x: order[x[0]])
        j0 = main.jobs[jid0]
        if clause == "silent-unsupported":
            cc = "+".join(sorted(c for c in j0["shape"]["constructs"] if (lang, c) in INEXPRESSIBLE)) or j0["shape"]["name"]
            sig = "C02/%s/%s/%s/%s" % (lang, clause, cls, cc)
            failing_shapes = sorted({main.jobs[j]["shape"]["name"] for j, _ in items})
            lt = "any-config"
        else:
            ccs, failing_shapes = classes.get(key, ([family(j0["shape"])], [j0["shape"]["name"]]))
            lt = lit_text(literals.get(key, []))
            sigs = ["C02/%s/%s/%s/%s+%s" % (lang, clause, cls, lt, cc) for cc in ccs]
            sig = sigs[0]
        rp = {"shape": j0["shape"]["name"], "format": j0["fmt"], "lang": lang, "out": j0["cfg"]["out"], "on": j0["cfg"]["on"],
              "clause": clause, "diag": cls, "signature_hint": sig, "detail": detail0,
              "input": j0.get("text") or j0["shape"].get("schemas"), "outcome": main.records[jid0]["outcome"]}
        what = "%s: %s [%s; shape %s as %s; out=%s on=%s; %d run(s); also fails on shapes %s]" % (
            clause, detail0[:260], lt, j0["shape"]["name"], j0["fmt"], ",".join(j0["cfg"]["out"]), ",".join(j0["cfg"]["on"]) or "-", len(items),
            ",".join(failing_shapes[:8]))
        for sig_ in (sigs if clause != "silent-unsupported" else [sig]):
            rp_ = dict(rp)
            rp_["signature_hint"] = sig_
            fam_ = sig_.rsplit("+", 1)[-1]
            own = [n for n in failing_shapes if family(by_name.get(n, {"name": n})) == fam_] or failing_shapes
            if by_name.get(own[0]) and own[0] != rp_["shape"] and clause != "silent-unsupported":
                rp_["shape"] = own[0]
                rp_["format"] = fail_fmt.get((key, own[0])) or ("ir" if by_name[own[0]]["kind"] == "ir" else "jsonschema")
                rp_["out"], rp_["on"] = (minimal.get(key) or j0["cfg"])["out"], (minimal.get(key) or j0["cfg"])["on"]
            pending.append(((lang, clause, cls, lt if clause != "silent-unsupported" else "-"), sig_, what, rp_,
                            {"signature": sig_, "runs": len(items), "example": detail0[:300], "shapes": own[:12]}))
    # a diagnostic that more than four families show under the same flags is one defect of the generator, not five
    per_base = collections.defaultdict(list)
    for item in pending:
        per_base[item[0]].append(item)
    for base, items_ in sorted(per_base.items()):
        if len(items_) > 4 and base[1] != "silent-unsupported":
            _, sig_, what, rp_, info = items_[0]
            sig_ = sig_.rsplit("+", 1)[0] + "+many-shapes"
            rp_ = dict(rp_, signature_hint=sig_)
            ctx.fail(sig_, what, rp_)
            group_info.append(dict(info, signature=sig_, shapes=sorted({n for it in items_ for n in it[4]["shapes"]})[:12]))
            continue
        for _, sig_, what, rp_, info in items_:
            ctx.fail(sig_, what, rp_)
            group_info.append(info)

    # ------------------------------------------------------------------ trace: TLC recomputes both implications
    tdir = ctx.sub("trace")
    tpath = os.path.join(tdir, "trace.ndjson")
    keys = []
    with open(tpath, "w") as f:
        for rd in rounds:
            for jid in sorted(rd.records):
                j, rec = rd.jobs[jid], rd.records[jid]
                f.write(json.dumps({"case": jid, "lang": j["lang"], "out": j["cfg"]["out"], "on": j["cfg"]["on"],
                                    "constructs": sorted(j["shape"]["constructs"]), "outcome": rec["outcome"],
                                    "verdicts": rec["verdicts"]}, separators=(",", ":")) + "\n")
                keys.append((rd, jid))
    rt = ctx.run_tlc("FlagLatticeTrace", "FlagLatticeTrace.cfg", workers=1, timeout=1800, files={"trace.ndjson": tpath})
    consumed = None
    for line in open(rt["out"], errors="replace"):
        m = re.match(r'^<<"CONSUMED", (\d+)>>', line)
        if m:
            consumed = int(m.group(1))
    if consumed != len(keys):
        raise core.Inconclusive("FlagLatticeTrace consumed %s of %d records" % (consumed, len(keys)))
    tlc_v = {f["l"] - 1: set(f["violated"]) for f in core.tagged_lines(rt["out"], "FAIL")}
    agree = 0
    for i, (rd, jid) in enumerate(keys):
        pv = violated(rd.jobs[jid], rd.records[jid])
        if tlc_v.get(i, set()) != pv:
            raise core.Inconclusive("TLC and the harness disagree on %s: TLC %s, harness %s" % (jid, sorted(tlc_v.get(i, set())), sorted(pv)))
        if not pv:
            agree += 1
    binding = selftest(ctx, keys)

    # ------------------------------------------------------------------ coverage / vacuity
    recs = [(rd.jobs[jid], rd.records[jid]) for rd, jid in keys]
    per_lang = collections.Counter()
    outcome = collections.Counter()
    flag_vals = collections.defaultdict(collections.Counter)
    construct_cov = collections.defaultdict(collections.Counter)     # runs attempted
    construct_ok = collections.defaultdict(collections.Counter)      # runs that reported success
    pair_cov = collections.defaultdict(set)
    unsupported = collections.Counter()
    judged_compile = collections.Counter()
    not_success = collections.Counter()
    for j, rec in recs:
        lang = j["lang"]
        per_lang[lang] += 1
        outcome["%s:%s" % (lang, rec["outcome"])] += 1
        for c_ in j["shape"]["constructs"]:
            construct_cov[lang][c_] += 1
        if rec["outcome"] != "files":
            lines_ = [x.strip() for x in rec["why"].split("\n") if x.strip()]
            why = lines_[1] if len(lines_) > 1 and lines_[0].endswith("occurred:") else (lines_[0] if lines_ else "")
            why = re.sub(r"[sd]\d\d[joc]?[pq]?|0x[0-9a-f]+", "_", why)
            not_success["%s:%s: %s" % (lang, rec["outcome"], why[:110])] += 1
        if not j["shape"]["expressible"][lang] and "types" in j["cfg"]["out"]:
            unsupported["%s:%s" % (lang, rec["outcome"])] += 1
        if rec["outcome"] != "files":
            continue
        ps = params_of(lang, lattice[lang])
        for p in ps:
            flag_vals[lang]["%s=%s" % (p, g.yaml_bool(value_of(j["cfg"], p)))] += 1
        for c in j["shape"]["constructs"]:
            construct_ok[lang][c] += 1
        pair_cov[(lang, j["shape"]["name"])] |= pairs_of(j["cfg"], ps)
        for k in ("compile", "import"):
            if rec["verdicts"][k] != "na":
                judged_compile["%s:%s" % (lang, k)] += 1
    vac = []
    all_constructs = set()
    for s in shapes + irshapes:
        all_constructs |= set(s["constructs"])
    for lang in g.LANGS:
        for p in params_of(lang, lattice[lang]):
            for v in ("true", "false"):
                if flag_vals[lang]["%s=%s" % (p, v)] == 0:
                    vac.append("%s:%s=%s" % (lang, p, v))
        for c in sorted(all_constructs):
            if construct_cov[lang][c] == 0:
                vac.append("%s:construct:%s" % (lang, c))
    for k in ("go:compile", "python:compile", "python:import", "java:compile"):
        if judged_compile[k] == 0:
            vac.append("toolchain:" + k)
    if not any(v for k, v in unsupported.items()):
        vac.append("no run with an inexpressible construct")
    if vac and not ctx.failures:
        raise core.Inconclusive("vacuous: never exercised: %s" % vac[:12])
    if vac:      # observed violations are never swallowed by the vacuity gate (audit class 15): they are reported, the gap is noted
        ctx.notes.append("vacuity gate not met (%s) - reported with the violations instead of exit 2" % vac[:6])
    pairs_full = 0
    if not quick:
        for lang in g.LANGS:
            ps = params_of(lang, lattice[lang])
            universe = set()
            for c in lattice[lang]:
                universe |= pairs_of(c, ps)
            for s in shapes:
                got = pair_cov.get((lang, s["name"]), set())
                if got and universe <= got:
                    pairs_full += 1
    nontrivial = {(j["shape"]["name"], j["fmt"], j["lang"], cfg_key(j["cfg"])) for j, rec in recs if rec["outcome"] == "files"}
    samples = []
    for j, rec in recs:
        if rec["outcome"] == "files" and (hash(j["id"]) + ctx.seed) % 97 == 0 and len(samples) < 3:
            samples.append({"case": j["id"], "shape": j["shape"]["name"], "format": j["fmt"], "lang": j["lang"], "out": j["cfg"]["out"],
                            "on": j["cfg"]["on"], "outcome": rec["outcome"], "verdicts": rec["verdicts"], "files": rec["files"][:6]})
    if not samples:
        j, rec = recs[0]
        samples.append({"case": j["id"], "outcome": rec["outcome"], "verdicts": rec["verdicts"]})
    cov = {
        "evaluations": len(recs),
        "distinct_nontrivial": len(nontrivial),
        "rule": "one evaluation = one real cog run for one (IR shape, input format or direct IR, language, configuration of the lattice) with the "
                "toolchain verdicts on the files it wrote; non-trivial = the run reported success (the first implication has a true antecedent), "
                "distinct by (shape, format, language, configuration)",
        "states": sum(r["distinct"] for r in ctx.tlc_runs), "transitions": sum(r["generated"] for r in ctx.tlc_runs),
        "traces_validated_against_impl": agree, "real_records_validated_by_tlc_trace_spec": len(keys),
        "exhaustive": False,
        "lattice": {lang: len(lattice[lang]) for lang in g.LANGS},
        "lattice_enumerated_completely_by_tlc": True,
        "covering_array_rows": {lang: len(arrays[lang]) for lang in g.LANGS},
        "shapes": len(shapes), "direct_ir_shapes": len(irshapes),
        "shape_language_pairs_with_every_parameter_pair_covered": pairs_full,
        "runs_per_language": dict(per_lang), "outcomes": dict(outcome), "runs_without_success": dict(not_success.most_common(25)), "inexpressible_runs": dict(unsupported),
        "toolchain_verdicts_taken": dict(judged_compile),
        "flag_values_exercised": {lang: dict(v) for lang, v in flag_vals.items()},
        "constructs_exercised": {lang: dict(v) for lang, v in construct_cov.items()},
        "constructs_in_successful_runs": {lang: dict(v) for lang, v in construct_ok.items()},
        "constructs_without_any_successful_run": {lang: sorted(c for c in all_constructs if construct_ok[lang][c] == 0) for lang in g.LANGS},
        "renderings_not_expressible_in_format": dict(main.not_rendered),
        "placeholders_extracted_from_current_tree": [{k: p[k] for k in ("lang", "text", "source", "kind")} for p in placeholders],
        "failure_groups": group_info,
        "rounds": [{"name": rd.name, "runs": len(rd.records), "timing": rd.timing} for rd in rounds],
        "binding_selftest": binding,
        "samples": samples,
        "checker_cmd": "tlc FlagLatticeMC (configs, shapes); tlc DirectIR; worker sem-gen / c02-ir; go build -gcflags=-e; python3 py_compile+import; "
                       "javac -proc:none -cp jackson-{core,databind,annotations}-2.15.1; tlc FlagLatticeTrace",
    }
    return ctx.finish("exploration", cov, ASSUMPTIONS)


INEXPRESSIBLE = set()      # FlagLattice!Inexpressible as printed by TLC (load_lattice)


def selftest(ctx, keys):
    """DESIGN 7 rule 6: a genuine clean record passes FlagLatticeTrace in Strict mode; the same record with one
    recorded field corrupted (compile verdict flipped to fail) is rejected."""
    good = None
    for rd, jid in keys:
        rec, j = rd.records[jid], rd.jobs[jid]
        if rec["outcome"] == "files" and not violated(j, rec) and rec["verdicts"]["compile"] == "ok":
            good = (j, rec)
            break
    if good is None:
        raise core.Inconclusive("binding self-test: no clean compiled record")
    j, rec = good
    res = {}
    for name in ("good", "bad"):
        d = ctx.sub("selftest-" + name)
        v = dict(rec["verdicts"])
        if name == "bad":
            v["compile"] = "fail"
        p = os.path.join(d, "trace.ndjson")
        open(p, "w").write(json.dumps({"case": j["id"], "lang": j["lang"], "out": j["cfg"]["out"], "on": j["cfg"]["on"],
                                       "constructs": sorted(j["shape"]["constructs"]), "outcome": rec["outcome"], "verdicts": v}) + "\n")
        r = ctx.run_tlc("FlagLatticeTrace", "FlagLatticeTrace.cfg", workers=1, timeout=300, files={"trace.ndjson": p},
                        constants={"Strict": "TRUE"}, allow_violation=True)
        res[name] = r["violated"]
    if res["good"] or not res["bad"]:
        raise core.Inconclusive("binding self-test failed: good rejected=%s, corrupted rejected=%s" % (res["good"], res["bad"]))
    return "FlagLatticeTrace(Strict) accepts a genuine successful run record and rejects it once the recorded compile verdict is flipped"


ASSUMPTIONS = [
    "bounded universe: the configuration lattice of spec/FlagLattice.tla (output kinds x the per-language flags the property names; the one "
    "documented exclusion skip_runtime+builders) is enumerated completely by TLC; it is crossed with the covering set of IR shapes of "
    "spec/FlagLatticeMC.tla (rendered as JSON Schema, OpenAPI and CUE) and the directly constructed IRs of spec/DirectIR.tla by a pairwise "
    "covering array per language (thorough: every pair of parameter values x every shape; the complete lattice on the composite shapes for Go and "
    "on every shape for the other languages; quick: a seeded slice of the array rows per shape)",
    "one run configures ONE output language; flags of one language are assumed not to influence another language's files (that is C07's subject)",
    "PHP and TypeScript have no toolchain on this image: placeholder scan only; JSON Schema / OpenAPI outputs: placeholder scan only",
    "a configuration without `types` emits the builders half of a package only: the toolchain verdicts are taken for configurations with `types`, "
    "the placeholder scan for all",
    "Java is compiled with javac 17 -proc:none against the real jackson-core/databind/annotations 2.15.1 jars found on the image (no stubs needed)",
    "placeholder texts are extracted at check time from the jennies' Go sources (string literals mentioning unknown/unhandled/unimplemented/"
    "unsupported that are values, not error/panic/log messages) and templates (text outside actions on lines mentioning unimplemented/unhandled) "
    "of the current tree; bare identifiers are matched as whole words",
    "Expressible: cog's declared capability table (FlagLattice!Inexpressible): intersections have no Python and no PHP rendering",
    "signatures: the flag part is the set of parameters whose single flip around the first witness makes the diagnostic disappear, the construct "
    "part the common construct tags of the shapes failing under the minimal configuration (both computed by extra real runs)",
]
