"""Shared pipeline for C06 and C05(b): real language chains on TLC-enumerated IRs.

  TLC LangChainsMC     -> CASE lines (well-formed input IRs, nesting depth <= MaxDepth)
  worker c06-run       -> one record per (case, language): IR after the REAL chain, builder refs
  TLC LangChainsTrace  -> normal-form clauses of the language + reference resolution per record
"""
import json
import os
import re

from vlib import core

NSLICES = 6


def run_chains(ctx):
    quick = ctx.quick()
    ctx.build_worker()
    consts = {"MaxDepth": 2, "Slice": 0, "NSlices": 1}
    if not quick:
        consts = {"MaxDepth": 3, "Slice": 0, "NSlices": 1}
    elif ctx.seed % 2 == 1:
        # odd seeds: a slice of the depth-3 universe instead of all of depth 2 (depth <3 shapes are always included)
        consts = {"MaxDepth": 3, "Slice": (ctx.seed // 2) % NSLICES, "NSlices": NSLICES}
    r = ctx.run_tlc("LangChainsMC", "LangChainsMC.cfg", workers=16, timeout=1800, constants=consts)
    trace = os.path.join(ctx.scratch, "c06-trace.ndjson")
    stats = json.loads(ctx.run_worker(["c06-run", "-in", r["out"], "-out", trace], timeout=3000))
    os.remove(r["out"])
    if stats["cases"] != r["distinct"]:
        raise core.Inconclusive("worker saw %d cases, TLC printed %d" % (stats["cases"], r["distinct"]))
    # the repository's own tests as a trace source (hook H2): every Passes.Process chain they run
    fx = fixtures(ctx)
    stats["fixture_chains"] = fx["chains"]
    with open(trace, "a") as tf:
        tf.write(open(fx["file"]).read())
    # validate in chunks (one JVM each) so that memory stays bounded
    fails = []
    tlc = [r]
    nrec = 0
    chunk = 30000
    recs = []
    idx = 0
    with open(trace) as f:
        while True:
            lines = []
            for line in f:
                lines.append(line)
                if len(lines) >= chunk:
                    break
            if not lines:
                break
            idx += 1
            part = os.path.join(ctx.scratch, "c06-part%d.ndjson" % idx)
            open(part, "w").write("".join(lines))
            tr = ctx.run_tlc("LangChainsTrace", "LangChainsTrace.cfg", workers=1, timeout=2400, files={"trace.ndjson": part})
            tlc.append(tr)
            consumed = _ints(tr["out"], "CONSUMED")
            if not consumed or consumed[-1] != len(lines):
                raise core.Inconclusive("LangChainsTrace consumed %s of %d records" % (consumed, len(lines)))
            for fl in core.tagged_lines(tr["out"], "FAIL"):
                rec = json.loads(lines[fl["l"] - 1])
                fails.append({"rec": rec, "clauses": sorted(fl["clauses"]), "dangling": sorted(fl["dangling"])})
            nrec += len(lines)
            for line in lines[:: max(1, len(lines) // 3)][:2]:
                if len(recs) < 3:
                    rj = json.loads(line)
                    recs.append({"lang": rj["lang"], "shape": rj["shape"], "leaf": rj["leaf"], "pos": rj["pos"], "err": rj["err"],
                                 "post_objects": [o["name"] for s in rj["post"] for o in s["objects"]]})
    return {"fails": fails, "stats": stats, "tlc": tlc, "records": nrec, "samples": recs, "consts": consts, "trace": trace}


def fixtures(ctx):
    """Run the repository's jenny tests with -tags verif and COG_VERIF_TRACE: chains recorded by hook H2."""
    import subprocess
    d = ctx.sub("h2")
    env = ctx.goenv()
    env["COG_VERIF_TRACE"] = d
    p = subprocess.run(["go", "test", "-tags", "verif", "-count=1", "./internal/jennies/...", "./internal/ast/..."], cwd=core.REPO, env=env,
                       capture_output=True, text=True)
    if p.returncode != 0:
        # the repository's tests failing is not this check's verdict; the traces of what did run are still used
        ctx.notes.append("repository tests (with -tags verif) did not all pass while recording fixture traces")
    out = os.path.join(ctx.scratch, "fixtures.ndjson")
    st = json.loads(ctx.run_worker(["h2-convert", "-dir", d, "-out", out]))
    n = sum(v for k, v in st.items() if k.startswith("chains/") and k != "chains/other")
    return {"file": out, "chains": n, "stats": st}


def _ints(path, tag):
    res = []
    pat = re.compile(r'^<<"%s", (\d+)>>' % tag)
    with open(path, errors="replace") as f:
        for line in f:
            m = pat.match(line)
            if m:
                res.append(int(m.group(1)))
    return res


def kind_path_to(node, pred, path=()):
    """Kinds of the ancestors (innermost last) of the first sub-type satisfying pred, or None."""
    if not isinstance(node, dict) or "k" not in node:
        return None
    if pred(node, path):
        return path
    k = node["k"]
    kids = []
    if k == "array":
        kids = [("array", node["elem"])]
    elif k == "map":
        kids = [("mapkey", node["idx"]), ("map", node["elem"])]
    elif k == "struct":
        kids = [("struct", f["type"]) for f in node["fields"]]
    elif k in ("disj", "inter"):
        kids = [(k, b) for b in node["branches"]]
    for label, c in kids:
        r = kind_path_to(c, pred, path + (label,))
        if r is not None:
            return r
    return None


def witness_class(rec, clause):
    """Where (which enclosing kinds) the clause fails in the recorded post-state: a coarse, stable label."""
    def is_null(t):
        return t.get("k") == "scalar" and t.get("sk") == "null"
    preds = {
        "NoUnion": lambda t, p: t["k"] == "disj",
        "EnumsNamed": lambda t, p: t["k"] == "enum" and len(p) > 0,
        "StructsNamed": lambda t, p: t["k"] == "struct" and len(p) > 0 and "inter" not in p,
        "NoTOrNull": lambda t, p: t["k"] == "disj" and len(t["branches"]) == 2 and any(is_null(b) for b in t["branches"]),
        "NonRequiredIsNullable": lambda t, p: t["k"] == "struct" and any((not f["required"]) and not f["type"].get("nullable", True) for f in t["fields"]),
    }
    if clause not in preds:
        return "members"
    for s in rec["post"]:
        for o in s["objects"]:
            p = kind_path_to(o["type"], preds[clause])
            if p is not None:
                anc = list(p)[-2:]
                return "in:" + ("/".join(anc) if anc else "object")
    return "unlocated"


def case_key(rec):
    if rec.get("source") == "repository-tests":
        import hashlib
        return "%s|fixture|%s" % (rec["lang"], hashlib.sha1(json.dumps(rec["pre"], sort_keys=True).encode()).hexdigest()[:12])
    return "%s|%s|%s|%s" % (rec["lang"], rec["pos"], ">".join(rec["shape"]), rec["leaf"])
