"""C06 — each language's generators receive types in the normal form they assume.

spec: IR.tla, LangChains.tla (normal-form clauses), LangChainsMC.tla (input universe), LangChainsTrace.tla;
      ChainModel.tla (ideal passes), ChainModelMC.tla (ideal passes in the real order: checks/chainmodel_part.py)
real code: codegen.Pipeline.ContextForLanguage for the seven languages.
"""
import json

from vlib import core
from checks import langchains_common as lc
from checks import chainmodel_part


def run(ctx):
    if ctx.replay:
        return replay(ctx)
    out = lc.run_chains(ctx)
    per_clause = {}
    for f in out["fails"]:
        rec = f["rec"]
        for c in f["clauses"]:
            sig = "C06/%s/%s/%s" % (rec["lang"], c, lc.witness_class(rec, c))
            per_clause[sig] = per_clause.get(sig, 0) + 1
            ctx.fail(sig, "clause %s violated after the %s chain; input shape %s leaf %s at %s" % (c, rec["lang"], rec["shape"], rec["leaf"], rec["pos"]),
                     {"shape": rec["shape"], "leaf": rec["leaf"], "pos": rec["pos"], "lang": rec["lang"]}, key=lc.case_key(rec))
    # design level: ideal passes (ChainModel.tla) in the order read from the code; MODEL-DRIFT against the real records
    cm = chainmodel_part.run_part(ctx, out)
    for sig, what, rp, key in cm["fails"]:
        ctx.fail(sig, what, rp, key=key)
    st = out["stats"]
    ok_runs = st["records"] - sum(v for k, v in st.items() if k.startswith("errors/"))
    if ok_runs < st["records"] // 3:
        raise core.Inconclusive("most chain runs failed (%d of %d succeeded): the universe is not exercising the chains" % (ok_runs, st["records"]))
    cov = {
        "states": sum(r["distinct"] for r in out["tlc"] + cm["tlc"]),
        "transitions": sum(r["generated"] for r in out["tlc"] + cm["tlc"]),
        "traces_validated_against_impl": out["records"],
        "exhaustive": True,
        "evaluations": st["records"],
        "distinct_nontrivial": ok_runs,
        "rule": "one evaluation = one real ContextForLanguage run (case x language) whose resulting IR TLC judged against the language's clauses; "
                "cases are distinct TLC states (shape x leaf x position); non-trivial = the chain returned an IR (no error)",
        "universe": out["consts"], "worker_stats": st, "failing_records_per_signature": per_clause,
        "samples": out["samples"],
        "chain_model": cm["coverage"], "model_drift": cm["coverage"]["model_drift"],
        "checker_cmd": "tlc LangChainsMC; worker c06-run; tlc LangChainsTrace; worker chain-list; tlc ChainModelMC (+ self-test mutations)",
    }
    return ctx.finish("model_checking", cov, [
        "enum member-name clauses are applied to named enum objects (the ones that become identifiers)",
        "inputs: one package with Root/S/S2/E/U, the construct under test nested <=%d deep" % out["consts"]["MaxDepth"],
        "design level: a fault of the ideal passes in the real order is a violation only when the real chain run on the same input violates too; "
        "every other difference between ideal and real result is reported as model_drift",
    ])


def replay(ctx):
    import os
    rp = json.load(open(ctx.replay))["replay"]
    ctx.build_worker()
    # regenerate the one case through TLC is unnecessary: rebuild the IR here is not possible without the spec,
    # so the replay re-runs the smallest universe slice containing the shape
    raise core.Inconclusive("replay for C06: run ./vcheck C06 --tier %s --seed <seed>; case %s" % (ctx.tier, json.dumps(rp)))
