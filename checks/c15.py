"""C15 — schema transformations have their documented effect and touch nothing else.

spec: IR.tla, Transforms.tla (requirement-level functions), TransformsMC.tla (bounded universe,
      edge emission), TransformsTrace.tla (validation of real steps)
real code: compiler.Passes{p}.Process built directly and through yaml.CompilerLoader.
"""
import json
import os

from vlib import core
from checks import transforms_common as tc

ACTIONS = ["rename_object", "omit", "omit_fields", "add_fields", "add_object", "duplicate_object", "retype_object",
           "retype_field", "fields_set_required", "fields_set_not_required", "fields_set_default", "replace_reference",
           "constant_to_enum", "trim_enum_values", "hint_object", "schema_set_identifier", "schema_set_entry_point",
           "prefix_objects_names", "append_comment_objects"]


def replay(ctx, prefix):
    full = json.load(open(ctx.replay))
    rp = full["replay"]
    ctx.build_worker()
    if isinstance(rp, dict) and rp.get("part") == "library":
        from checks import library_part
        for sig, what, rp_, key in library_part.replay_part(ctx, rp):
            if sig == full["signature"]:
                ctx.fail(sig, what, rp_, key)
        return ctx.finish("model_checking", {"evaluations": 1, "distinct_nontrivial": 0}, [])
    f = os.path.join(ctx.scratch, "edge.out")
    edge = {"pre": rp["pre"], "act": rp["act"], "post": rp["expected"]}
    open(f, "w").write('<<"EDGE", %s>>\n' % json.dumps(json.dumps(edge)))
    summ = os.path.join(ctx.scratch, "sum.json")
    ctx.run_worker(["c15-replay", "-in", f], stdout_path=summ)
    s = json.load(open(summ))
    for sig, agg in s["signatures"].items():
        if sig.startswith(prefix):
            ctx.fail(sig, agg["examples"][0].get("diff") or agg["examples"][0].get("problem"), agg["examples"][0])
    return ctx.finish("model_checking", {"evaluations": 1, "distinct_nontrivial": 0}, [])


def run(ctx):
    if ctx.replay:
        return replay(ctx, "C15/")
    out = tc.run_edges(ctx)
    edges = matched = 0
    per_action, per_action_nt = {}, {}
    samples = []
    other = {}
    for s in out["summaries"]:
        edges += s["edges"]
        matched += s["matched"]
        for k, v in s["per_action"].items():
            per_action[k] = per_action.get(k, 0) + v
        for k, v in s["per_action_nontrivial"].items():
            per_action_nt[k] = per_action_nt.get(k, 0) + v
        samples += s["samples"] or []
        for sig, agg in s["signatures"].items():
            ex = agg["examples"][0]
            if sig.startswith("C15/"):
                for _ in range(1):
                    ctx.failures.append({"signature": sig, "what": "%s (x%d)" % (json.dumps(ex.get("diff") or ex.get("problem") or ex.get("real_err")), agg["count"]),
                                         "replay": {"pre": ex["pre"], "act": ex["act"], "expected": ex.get("expected")}})
            else:
                other[sig] = other.get(sig, 0) + agg["count"]
    vacuous = [a for a in ACTIONS if per_action_nt.get(a, 0) == 0]
    if vacuous:
        raise core.Inconclusive("vacuous actions (never changed a state): %s" % vacuous)
    binding = tc.selftest_binding(ctx)
    # the library route (public package): order of transformations across SchemaTransformations() calls
    from checks import library_part
    lp = library_part.run_part(ctx)
    for sig, what, rp_, key in lp["fails"]:
        ctx.fail(sig, what, rp_, key)
    out["tlc"] += lp["tlc"]
    mc = [r for r in out["tlc"] if "TransformsMC" in r["cmd"]]
    cov = {
        "states": sum(r["distinct"] for r in out["tlc"]),
        "transitions": sum(r["generated"] for r in out["tlc"]),
        "traces_validated_against_impl": matched,
        "real_steps_validated_by_tlc_trace_spec": out["trace_records"],
        "exhaustive": True,
        "evaluations": edges,
        "distinct_nontrivial": sum(per_action_nt.values()),
        "rule": "one evaluation = one TLC edge (pre-IR, transformation+parameters, expected post-IR) replayed as one real "
                "compiler.Passes.Process call (plus a second run through yaml.CompilerLoader when the YAML grammar can express the pass); "
                "edges are distinct TLC states; non-trivial = the expected post-state differs from the pre-state or an error is expected",
        "per_action": per_action, "per_action_nontrivial": per_action_nt,
        "observations_for_other_properties": other,
        "binding_selftest": binding,
        **lp["coverage"],
        "samples": samples[:3] or [{"note": "no matching non-trivial sample drawn"}],
        "checker_cmd": "tlc TransformsMC (%s); worker c15-replay; tlc TransformsTrace" % ("slice %d/%d" % (ctx.seed % tc.NSLICES, tc.NSLICES) if ctx.quick() else "all slices + simulate depth 3"),
    }
    return ctx.finish("model_checking", cov, [
        "PassesTrail is not part of the compared state",
        "parameterisations whose outcome the documentation leaves undefined are not generated (Transforms.tla Defined)",
        "IR universe: package p with 1..2 objects over 4 names x 12 type shapes, fixed package q; thorough adds sequences of 3 transformations by simulation",
    ])
