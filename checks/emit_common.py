"""C12 helpers: python twins of spec/EmitSchema.tla plus the two projections the real side needs.

  ir_to_term(ir, main_pkg)   cog's IR (worker c12-ir, projection of harness/cmd/worker/ir.go) -> schema term of
                             Semantics.tla with `foreign` (objects of other packages)
  describe_document(doc, fmt) emitted JSON Schema / OpenAPI file -> normalised description (E-terms)
  emit_doc / doc_diffs / dangling / eaccepts   twins of EmitDoc / DocDiffs / Dangling / EAccepts; TLC recomputes all
                             of them in EmitSchemaTrace and the two verdicts must agree
"""
import json

from checks import semantics_common as sc

NOJ = {"j": "none"}
NOB = {"b": "none", "v": 0}


class Unsupported(Exception):
    """The IR uses something outside the schema-term language (counted, never a verdict)."""


# ----------------------------------------------------------------------------------------------
# IR (ir.go projection) -> schema term
# ----------------------------------------------------------------------------------------------
INT_KINDS = {"int8", "int16", "int32", "int64", "uint8", "uint16", "uint32", "uint64"}


def _val(v):
    """projVal record -> (present, python value)."""
    t = v.get("t", "nil")
    if t in ("nil", ""):
        return False, None
    if t == "string":
        return True, v["s"]
    if t == "bool":
        return True, v["s"] == "true"
    try:
        return True, json.loads(v["s"])
    except ValueError:
        raise Unsupported("value of Go type %s" % t)


def _jv(v):
    ok, x = _val(v)
    if not ok:
        return dict(NOJ)
    try:
        return sc.py_to_jv(x)
    except sc.NotInUniverse as e:
        raise Unsupported("value outside the number universe: %s" % e)


def _intval(v):
    ok, x = _val(v)
    if not ok or isinstance(x, bool) or not isinstance(x, (int, float)) or x != int(x):
        raise Unsupported("non-integer constraint argument %r" % (v,))
    if abs(x) > 10 ** 8:
        raise Unsupported("constraint argument beyond the 32-bit universe of TLC")
    return int(x)


def _bound(kind, v):
    """Constraint argument -> bound record: integers as they are, fractions in tenths (Semantics!Ge10 ...)."""
    ok, x = _val(v)
    if not ok or isinstance(x, bool) or not isinstance(x, (int, float)):
        raise Unsupported("constraint argument %r" % (v,))
    return bound_of(kind, x)


def bound_of(kind, x):
    if abs(x) > 10 ** 7:
        raise Unsupported("constraint argument beyond the 32-bit universe of TLC")
    if x == int(x):
        return {"b": kind, "v": int(x)}
    x10 = x * 10
    if abs(x10 - round(x10)) > 1e-9:
        raise Unsupported("constraint argument %r is not a multiple of 0.1" % (x,))
    return {"b": kind + "10", "v": int(round(x10))}


def _type(t, name_of):
    k = t["k"]
    if k == "scalar":
        sk = t["sk"]
        has, cv = _val(t["val"])
        if has:
            out = {"k": "const", "v": _jv(t["val"])}
            if out["v"]["j"] not in ("str", "num", "bool", "big"):
                raise Unsupported("constant of kind " + out["v"]["j"])
            return out
        lo, hi, mn, mx = dict(NOB), dict(NOB), -1, -1
        for c in t["cons"]:
            op = c["op"]
            if op in (">=", ">", "<=", "<"):
                kind = {">=": "ge", ">": "gt", "<=": "le", "<": "lt"}[op]
                b = _bound(kind, c["args"][0])
                if kind in ("ge", "gt"):
                    lo = b
                else:
                    hi = b
            elif op == "minLength":
                mn = _intval(c["args"][0])
            elif op == "maxLength":
                mx = _intval(c["args"][0])
            else:
                raise Unsupported("constraint " + op)
        if sk in INT_KINDS:
            return {"k": "int", "w": sk, "lo": lo, "hi": hi}
        if sk in ("float32", "float64"):
            return {"k": "num", "w": sk, "lo": lo, "hi": hi}
        if sk in ("string", "bytes"):
            if any(h["key"] == "string_format_datetime" for h in t.get("hints", [])):
                return {"k": "time"}
            return {"k": "str", "mn": mn, "mx": mx}
        if sk == "bool":
            return {"k": "bool"}
        if sk == "any":
            return {"k": "any"}
        raise Unsupported("scalar kind " + sk)
    if k == "ref":
        return {"k": "ref", "name": name_of(t["pkg"], t["name"])}
    if k == "array":
        return {"k": "arr", "t": _elem(t["elem"], name_of)}
    if k == "map":
        idx = t["idx"]
        if not (idx["k"] == "scalar" and idx["sk"] == "string"):
            raise Unsupported("map with a non-string index")
        return {"k": "map", "t": _elem(t["elem"], name_of)}
    if k == "struct":
        fields = []
        for f in t["fields"]:
            ft = f["type"]
            fields.append({"n": f["name"], "t": _type(ft, name_of), "req": bool(f["required"]),
                           "null": bool(ft.get("nullable")), "def": _jv(ft["def"])})
        return {"k": "struct", "fields": fields}
    if k == "enum":
        vals = []
        for m in t["members"]:
            ok, x = _val(m["val"])
            vals.append(x)
        if vals and all(isinstance(x, str) for x in vals):
            return {"k": "enum", "vals": vals}
        if vals and all(isinstance(x, int) and not isinstance(x, bool) for x in vals):
            if any(abs(x) > 10 ** 8 for x in vals):
                raise Unsupported("integer enum member beyond the 32-bit universe of TLC")
            return {"k": "ienum", "vals": vals}
        raise Unsupported("enum with mixed or empty members")
    if k == "disj":
        brs = t["branches"]
        if t.get("discr") and all(b["k"] == "ref" for b in brs):
            return {"k": "dunion", "disc": t["discr"], "refs": [name_of(b["pkg"], b["name"]) for b in brs]}
        if all(b["k"] == "ref" for b in brs) and brs:
            # a disjunction of references without discriminator: same document semantics as a dunion
            return {"k": "dunion", "disc": "", "refs": [name_of(b["pkg"], b["name"]) for b in brs]}
        return {"k": "union", "ts": [_elem(b, name_of) for b in brs]}
    if k == "inter":
        # an intersection of structs / references to structs IS the struct with all their fields (what cog's own
        # RemoveIntersections pass and every generated type make of it)
        fields, seen = [], set()
        for b in t["branches"]:
            bt = b
            hops = 0
            while bt["k"] == "ref" and hops < 8:
                bt = name_of.objects.get((bt["pkg"], bt["name"]))
                hops += 1
                if bt is None:
                    raise Unsupported("intersection branch refers to an unknown object")
            if bt["k"] not in ("struct", "inter"):
                raise Unsupported("intersection branch of kind " + bt["k"])
            fs = _type(bt, name_of)["fields"]
            for f in fs:
                if f["n"] in seen:
                    fields = [g for g in fields if g["n"] != f["n"]]
                seen.add(f["n"])
                fields.append(f)
        name_of.saw_inter = True
        return {"k": "struct", "fields": fields}
    raise Unsupported("IR kind " + k)


def _elem(t, name_of):
    """A type in element / value / branch position: nullability becomes a TNullable wrapper."""
    x = _type(t, name_of)
    if t.get("nullable"):
        return {"k": "nullable", "t": x}
    return x


def ir_to_term(ir, main_pkg):
    """-> dict(defs, root, foreign). Definition ids: objects of main_pkg keep their name, others are `<pkg>.<name>`."""
    def name_of(pkg, name):
        return name if pkg == main_pkg else "%s.%s" % (pkg, name)
    name_of.objects = {(s["pkg"], o["name"]): o["type"] for s in ir for o in s["objects"]}
    defs, foreign, root, inter = [], [], "", []
    for s in ir:
        for o in s["objects"]:
            if o["selfpkg"] != s["pkg"] or o["selfname"] != o["name"]:
                raise Unsupported("object whose self reference differs from its name")
            nid = name_of(s["pkg"], o["name"])
            ot = o["type"]
            if ot.get("nullable"):
                raise Unsupported("nullable object type")
            name_of.saw_inter = False
            defs.append({"name": nid, "t": _type(ot, name_of)})
            if name_of.saw_inter:
                inter.append(nid)
            if s["pkg"] != main_pkg:
                foreign.append({"name": nid, "as": o["name"], "pkg": s["pkg"]})
        if s["pkg"] == main_pkg:
            root = s["entry"]
    # main package first (stable order)
    defs.sort(key=lambda d: ("." in d["name"]))
    out = {"defs": defs, "root": root, "foreign": foreign}
    if inter:
        out["_inter"] = inter       # objects spelled as intersections in the IR (python side only: witness classes)
    return out


def term_equal(a, b):
    """Schema terms equal up to field order inside structs and definition order (parsers sort by name)."""
    def canon(t):
        if isinstance(t, dict):
            if t.get("k") == "struct":
                return {"k": "struct", "fields": sorted((canon(f) for f in t["fields"]), key=lambda f: f["n"])}
            return {k: canon(v) for k, v in t.items()}
        if isinstance(t, list):
            return [canon(x) for x in t]
        return t
    da = {d["name"]: canon(d["t"]) for d in a["defs"]}
    db = {d["name"]: canon(d["t"]) for d in b["defs"]}
    return da == db


def term_first_difference(a, b):
    """Class of the first difference between two schema terms (evidence only)."""
    da, db = {d["name"]: d["t"] for d in a["defs"]}, {d["name"]: d["t"] for d in b["defs"]}
    if set(da) != set(db):
        return "objects:%s" % ",".join(sorted(set(da) ^ set(db)))[:60]

    def rec(x, y, where):
        if x.get("k") != y.get("k"):
            return "%s: kind %s -> %s" % (where, x.get("k"), y.get("k"))
        if x["k"] == "struct":
            fx, fy = {f["n"]: f for f in x["fields"]}, {f["n"]: f for f in y["fields"]}
            if set(fx) != set(fy):
                return "%s: fields" % where
            for n in sorted(fx):
                for key in ("req", "null", "def"):
                    if fx[n][key] != fy[n][key]:
                        return "%s: field.%s of a %s field" % (where, key, fx[n]["t"]["k"])
                r = rec(fx[n]["t"], fy[n]["t"], "struct")
                if r:
                    return r
            return None
        for key in x:
            if isinstance(x[key], dict) and "k" in x[key]:
                r = rec(x[key], y[key], x["k"])
                if r:
                    return r
            elif key == "ts":
                if len(x[key]) != len(y[key]):
                    return "%s: branches" % where
                for p, q in zip(x[key], y[key]):
                    r = rec(p, q, "union")
                    if r:
                        return r
            elif x[key] != y[key]:
                return "%s: %s.%s" % (where, x["k"], key)
        return None
    for n in sorted(da):
        r = rec(da[n], db[n], "object")
        if r:
            return r
    return None


# ----------------------------------------------------------------------------------------------
# emitted file -> description
# ----------------------------------------------------------------------------------------------
ANNOTATIONS = {"description", "default", "title", "format", "$comment", "examples", "example"}
REFPREFIX = {"jsonschema": "#/definitions/", "openapi": "#/components/schemas/"}
UNKNOWN = {"k": "unknown"}


def _etype(ty):
    return {"k": "type", "ty": ty, "lo": dict(NOB), "hi": dict(NOB), "mn": -1, "mx": -1, "cst": dict(NOJ)}


def _is_int(x):
    return isinstance(x, (int, float)) and not isinstance(x, bool) and x == int(x)


def _is_tenth(x):
    return isinstance(x, (int, float)) and not isinstance(x, bool) and abs(x) <= 10 ** 7 and abs(x * 10 - round(x * 10)) < 1e-9


def describe(n, fmt, notes, lenient=False):
    """One schema node -> E-term. `notes` collects keywords that are not part of the format's language.
    lenient: read the draft-07 keywords an OpenAPI 3.0 document must not contain (`const`, numeric exclusive bounds) the
    way draft-07 reads them (used only to ATTRIBUTE an acceptance to those keywords, never for a verdict)."""
    oa = fmt == "openapi"
    strict_oa = oa and not lenient
    if n is True:
        return {"k": "any"}
    if not isinstance(n, dict):
        return dict(UNKNOWN)
    keys = set(n) - ANNOTATIONS
    nullable = False
    if oa and "nullable" in keys:
        nullable = n["nullable"] is True
        keys.discard("nullable")

    def wrap(x):
        return {"k": "nullable", "t": x} if nullable else x

    if "$ref" in keys:
        ref = n["$ref"]
        pre = REFPREFIX[fmt]
        if isinstance(ref, str) and ref.startswith(pre) and "/" not in ref[len(pre):]:
            return wrap({"k": "ref", "name": ref[len(pre):]})
        return wrap({"k": "ref", "name": "?" + str(ref)})
    if "enum" in keys:
        if keys - {"enum", "type"} or not isinstance(n["enum"], list):
            return dict(UNKNOWN)
        try:
            return wrap({"k": "enum", "vals": [sc.py_to_jv(x) for x in n["enum"]]})
        except sc.NotInUniverse:
            return dict(UNKNOWN)
    for comb in ("anyOf", "oneOf"):
        if comb in keys:
            if keys - {comb, "discriminator"} or not isinstance(n[comb], list):
                return dict(UNKNOWN)
            ts = [describe(b, fmt, notes, lenient) for b in n[comb]]
            nulls = [i for i, b in enumerate(ts) if b.get("k") == "type" and b["ty"] == "null"]
            if len(ts) == 2 and len(nulls) == 1:
                return {"k": "nullable", "t": ts[1 - nulls[0]]}
            return wrap({"k": comb, "ts": ts})
    if not keys:
        return wrap({"k": "any"})
    if "type" not in keys:
        return dict(UNKNOWN)
    ty = n["type"]
    if isinstance(ty, list):
        if oa or len(ty) != 2 or "null" not in ty:
            return dict(UNKNOWN)
        nullable = True
        ty = [x for x in ty if x != "null"][0]
    rest = keys - {"type"}
    if ty == "object":
        if rest - {"properties", "additionalProperties", "required"}:
            return dict(UNKNOWN)
        ap = n.get("additionalProperties", True)
        req = n.get("required", [])
        if "properties" in n or ap is False:
            if not (ap is False or ap is True or ap == {}):
                return dict(UNKNOWN)
            props = []
            for name, sub in n.get("properties", {}).items():
                d = dict(NOJ)
                if isinstance(sub, dict) and "default" in sub:
                    try:
                        d = sc.py_to_jv(sub["default"])
                    except sc.NotInUniverse:
                        return dict(UNKNOWN)
                props.append({"n": name, "t": describe(sub, fmt, notes, lenient), "req": name in req, "def": d})
            if any(r not in n.get("properties", {}) for r in req):
                return dict(UNKNOWN)
            return wrap({"k": "obj", "closed": ap is False, "props": props})
        if req:
            return dict(UNKNOWN)
        return wrap({"k": "map", "t": describe(ap, fmt, notes, lenient)})
    if ty == "array":
        if rest - {"items"}:
            return dict(UNKNOWN)
        return wrap({"k": "arr", "t": describe(n.get("items", True), fmt, notes, lenient)})
    if ty not in ("string", "integer", "number", "boolean", "null"):
        return dict(UNKNOWN)
    if ty == "null" and oa:
        notes.add("type:null")
        return dict(UNKNOWN)
    e = _etype(ty)
    for kw in sorted(rest):
        v = n[kw]
        if kw == "minLength" and _is_int(v):
            e["mn"] = int(v)
        elif kw == "maxLength" and _is_int(v):
            e["mx"] = int(v)
        elif kw == "const":
            if strict_oa:
                notes.add("const")          # not a keyword of OpenAPI 3.0: a reader of the document does not see it
                continue
            try:
                e["cst"] = sc.py_to_jv(v)
            except sc.NotInUniverse:
                return dict(UNKNOWN)
        elif kw in ("minimum", "maximum") and _is_tenth(v):
            side, incl, excl = ("lo", "ge", "gt") if kw == "minimum" else ("hi", "le", "lt")
            ex = n.get("exclusiveM" + kw[1:])
            if oa and ex is True:
                e[side] = bound_of(excl, v)
            elif oa and lenient and _is_int(ex) and not isinstance(ex, bool):
                return dict(UNKNOWN)
            else:
                if e[side]["b"] != "none":
                    return dict(UNKNOWN)
                e[side] = bound_of(incl, v)
        elif kw in ("exclusiveMinimum", "exclusiveMaximum"):
            side, excl = ("lo", "gt") if kw == "exclusiveMinimum" else ("hi", "lt")
            if oa and isinstance(v, bool):
                continue                     # handled with minimum / maximum
            if strict_oa:
                notes.add(kw + ":number")    # OpenAPI 3.0: must be a boolean
                continue
            if not _is_tenth(v) or e[side]["b"] != "none":
                return dict(UNKNOWN)
            e[side] = bound_of(excl, v)
        else:
            return dict(UNKNOWN)
    return wrap(e)


def describe_document(doc, fmt, lenient=False):
    """-> (description dict(defs, root), notes, raw definitions map)."""
    notes = set()
    if fmt == "jsonschema":
        raw = doc.get("definitions", {})
        root = ""
        if "$ref" in doc:
            r = describe({"$ref": doc["$ref"]}, fmt, notes)
            root = r["name"]
    else:
        raw = (doc.get("components") or {}).get("schemas", {})
        root = ""
    defs = [{"name": k, "t": describe(v, fmt, notes, lenient)} for k, v in raw.items()]
    return {"defs": defs, "root": root}, notes, raw


def has_unknown(e):
    if isinstance(e, dict):
        if e.get("k") == "unknown":
            return True
        return any(has_unknown(v) for v in e.values())
    if isinstance(e, list):
        return any(has_unknown(v) for v in e)
    return False


def all_refs(node, out):
    """Every `$ref` string of a raw JSON document."""
    if isinstance(node, dict):
        for k, v in node.items():
            if k == "$ref" and isinstance(v, str):
                out.append(v)
            else:
                all_refs(v, out)
    elif isinstance(node, list):
        for v in node:
            all_refs(v, out)
    return out


def resolve_pointer(doc, ref):
    if not ref.startswith("#"):
        return False
    cur = doc
    for seg in [s for s in ref[1:].split("/") if s != ""]:
        seg = seg.replace("~1", "/").replace("~0", "~")
        if isinstance(cur, dict) and seg in cur:
            cur = cur[seg]
        elif isinstance(cur, list) and seg.isdigit() and int(seg) < len(cur):
            cur = cur[int(seg)]
        else:
            return False
    return True


# ----------------------------------------------------------------------------------------------
# twins of EmitSchema.tla
# ----------------------------------------------------------------------------------------------
def own_name(fs, n):
    for f in fs:
        if f["name"] == n:
            return f["as"]
    return n


def pkg_of(fs, n):
    for f in fs:
        if f["name"] == n:
            return f["pkg"]
    return ""


def _jtype(v):
    if v["j"] == "str":
        return "string"
    if v["j"] == "bool":
        return "boolean"
    if v["j"] == "num":
        return "integer" if v["n"] % 10 == 0 else "number"
    if v["j"] == "big":
        return "integer"
    return "none"


def emit_expect(fs, t):
    k = t["k"]
    if k == "any":
        return {"k": "any"}
    if k == "bool":
        return _etype("boolean")
    if k in ("int", "num"):
        e = _etype("integer" if k == "int" else "number")
        e["lo"], e["hi"] = dict(t["lo"]), dict(t["hi"])
        return e
    if k == "str":
        e = _etype("string")
        e["mn"], e["mx"] = t["mn"], t["mx"]
        return e
    if k == "time":
        return _etype("string")
    if k == "enum":
        return {"k": "enum", "vals": [{"j": "str", "s": v} for v in t["vals"]]}
    if k == "ienum":
        return {"k": "enum", "vals": [{"j": "num", "n": 10 * v} for v in t["vals"]]}
    if k == "const":
        e = _etype(_jtype(t["v"]))
        e["cst"] = t["v"]
        return e
    if k == "nullable":
        return {"k": "nullable", "t": emit_expect(fs, t["t"])}
    if k == "arr":
        return {"k": "arr", "t": emit_expect(fs, t["t"])}
    if k == "map":
        return {"k": "map", "t": emit_expect(fs, t["t"])}
    if k == "ref":
        return {"k": "ref", "name": own_name(fs, t["name"])}
    if k == "union":
        return {"k": "anyOf", "ts": [emit_expect(fs, b) for b in t["ts"]]}
    if k == "dunion":
        return {"k": "anyOf", "ts": [{"k": "ref", "name": own_name(fs, r)} for r in t["refs"]]}
    if k == "struct":
        props = []
        for f in t["fields"]:
            e = emit_expect(fs, f["t"])
            props.append({"n": f["n"], "t": {"k": "nullable", "t": e} if f["null"] else e, "req": f["req"], "def": f["def"]})
        return {"k": "obj", "closed": True, "props": props}
    return dict(UNKNOWN)


def refs_of(t):
    k = t["k"]
    if k == "ref":
        return {t["name"]}
    if k in ("arr", "map", "nullable"):
        return refs_of(t["t"])
    if k == "union":
        return set().union(*[refs_of(b) for b in t["ts"]]) if t["ts"] else set()
    if k == "dunion":
        return set(t["refs"])
    if k == "struct":
        out = set()
        for f in t["fields"]:
            out |= refs_of(f["t"])
        return out
    return set()


def needed(term, p):
    S = {d["name"]: d["t"] for d in term["defs"]}
    ns = {n for n in S if pkg_of(term["foreign"], n) == p}
    while True:
        more = set(ns)
        for n in ns:
            if n in S:
                more |= refs_of(S[n])
        if more == ns:
            return ns
        ns = more


def reachable(term, root):
    """Definition ids reachable through references from `root` (EmitSchema!Closure); empty when the term has no such definition."""
    S = {d["name"]: d["t"] for d in term["defs"]}
    if root not in S:
        return set()
    ns = {root}
    while True:
        more = set(ns)
        for n in ns:
            if n in S:
                more |= refs_of(S[n])
        if more == ns:
            return ns
        ns = more


def emit_doc(term, p):
    need = needed(term, p)
    fs = term["foreign"]
    return [{"name": own_name(fs, d["name"]), "t": emit_expect(fs, d["t"]), "src": d["name"]}
            for d in term["defs"] if d["name"] in need]


def _strip(x):
    return x["t"] if x["k"] == "nullable" else x


def _plain(v):
    return sc.dumps(sc.jv_to_py(v)) if v["j"] != "none" else "<none>"


def _jeq(a, b):
    if a["j"] == "none" or b["j"] == "none":
        return a["j"] == b["j"]
    return sc.json_equal(sc.jv_to_py(a), sc.jv_to_py(b))


def _type_diffs(e, m, p):
    mm = m if m["k"] == "type" else _etype("none")
    out = []
    if e["lo"] != mm["lo"]:
        out.append(("constraints", p, "invented" if e["lo"]["b"] == "none" else e["lo"]["b"]))
    if e["hi"] != mm["hi"]:
        out.append(("constraints", p, "invented" if e["hi"]["b"] == "none" else e["hi"]["b"]))
    if e["mn"] != mm["mn"]:
        out.append(("constraints", p, "invented" if e["mn"] == -1 else "minLength"))
    if e["mx"] != mm["mx"]:
        out.append(("constraints", p, "invented" if e["mx"] == -1 else "maxLength"))
    if not _jeq(e["cst"], mm["cst"]):
        out.append(("constraints", p, "invented" if e["cst"]["j"] == "none" else "const"))
    return out


def diffs(e0, m0, p):
    e, m = _strip(e0), _strip(m0)
    k = e["k"]
    out = []
    if k == "obj":
        mp = {g["n"]: g for g in m["props"]} if m["k"] == "obj" else {}
        for f in e["props"]:
            fp = p + (f["n"],)
            g = mp.get(f["n"])
            if g is None:
                out.append(("names", fp, "field"))
                continue
            if f["req"] != g["req"]:
                out.append(("required", fp, "dropped" if f["req"] else "added"))
            if not _jeq(f["def"], g["def"]):
                out.append(("default", fp, "invented" if f["def"]["j"] == "none" else f["def"]["j"]))
            out += diffs(f["t"], g["t"], fp)
    elif k == "type":
        out += _type_diffs(e, m, p)
    elif k == "enum":
        if not (m["k"] == "enum" and {_plain(v) for v in e["vals"]} == {_plain(v) for v in m["vals"]}):
            out.append(("enum", p, "values"))
    elif k == "ref":
        if not (m["k"] == "ref" and m["name"] == e["name"]):
            out.append(("names", p, "ref"))
    elif k == "arr":
        out += diffs(e["t"], m["t"] if m["k"] == "arr" else UNKNOWN, p + ("#",))
    elif k == "map":
        out += diffs(e["t"], m["t"] if m["k"] == "map" else UNKNOWN, p + ("*",))
    elif k == "anyOf":
        same = m["k"] in ("anyOf", "oneOf") and len(m["ts"]) == len(e["ts"])
        for i, b in enumerate(e["ts"]):
            out += diffs(b, m["ts"][i] if same else UNKNOWN, p + ("|%d" % (i + 1),))
    return out


def doc_diffs(exp, emitted):
    md = {}
    for d in emitted["defs"]:
        md.setdefault(d["name"], d["t"])
    out = []
    for e in exp:
        if e["name"] not in md:
            out.append(("names", (e["name"],), "object"))
        else:
            out += diffs(e["t"], md[e["name"]], (e["name"],))
    return out


def erefs(e):
    k = e["k"]
    if k == "ref":
        return {e["name"]}
    if k in ("arr", "map", "nullable"):
        return erefs(e["t"])
    if k in ("anyOf", "oneOf"):
        return set().union(*[erefs(b) for b in e["ts"]]) if e["ts"] else set()
    if k == "obj":
        out = set()
        for f in e["props"]:
            out |= erefs(f["t"])
        return out
    return set()


def dangling(emitted):
    names = {d["name"] for d in emitted["defs"]}
    refs = set()
    for d in emitted["defs"]:
        refs |= erefs(d["t"])
    if emitted["root"]:
        refs.add(emitted["root"])
    return refs - names


def _type_ok(ty, v):
    if ty == "string":
        return isinstance(v, str)
    if ty == "integer":
        return not isinstance(v, bool) and isinstance(v, (int, float)) and v == int(v)
    if ty == "number":
        return not isinstance(v, bool) and isinstance(v, (int, float))
    if ty == "boolean":
        return isinstance(v, bool)
    if ty == "null":
        return v is None
    return True


def eaccepts(DD, e, v):
    k = e["k"]
    if k in ("any", "unknown"):
        return True
    if k == "type":
        if not _type_ok(e["ty"], v):
            return False
        if not isinstance(v, bool) and isinstance(v, (int, float)) and not sc._bounds_ok(e, v):
            return False
        if isinstance(v, str) and not ((e["mn"] == -1 or len(v) >= e["mn"]) and (e["mx"] == -1 or len(v) <= e["mx"])):
            return False
        return e["cst"]["j"] == "none" or sc.json_equal(sc.jv_to_py(e["cst"]), v)
    if k == "enum":
        return any(sc.json_equal(sc.jv_to_py(x), v) for x in e["vals"])
    if k == "ref":
        return e["name"] in DD and eaccepts(DD, DD[e["name"]], v)
    if k == "nullable":
        return v is None or eaccepts(DD, e["t"], v)
    if k == "arr":
        return isinstance(v, list) and all(eaccepts(DD, e["t"], x) for x in v)
    if k == "map":
        return isinstance(v, dict) and all(eaccepts(DD, e["t"], x) for x in v.values())
    if k == "obj":
        if not isinstance(v, dict):
            return False
        names = set()
        for f in e["props"]:
            names.add(f["n"])
            if f["n"] in v:
                if not eaccepts(DD, f["t"], v[f["n"]]):
                    return False
            elif f["req"]:
                return False
        return not e["closed"] or all(key in names for key in v)
    if k == "anyOf":
        return any(eaccepts(DD, b, v) for b in e["ts"])
    if k == "oneOf":
        return sum(1 for b in e["ts"] if eaccepts(DD, b, v)) == 1
    return False


def edefs(emitted):
    DD = {}
    for d in emitted["defs"]:
        DD.setdefault(d["name"], d["t"])
    return DD


def explain(DD, e, v, path=()):
    """Where and why the description rejects v: (path, keyword), the deepest failure first inside unions (the way
    jsonschema.best_match reads an anyOf). None when v is accepted. Used for witness classes only."""
    if eaccepts(DD, e, v):
        return None
    k = e["k"]
    if k == "type":
        if not _type_ok(e["ty"], v):
            return path, "type"
        if not isinstance(v, bool) and isinstance(v, (int, float)) and not sc._bounds_ok(e, v):
            return path, "bound"
        if isinstance(v, str) and not ((e["mn"] == -1 or len(v) >= e["mn"]) and (e["mx"] == -1 or len(v) <= e["mx"])):
            return path, "length"
        return path, "const"
    if k == "enum":
        return path, "enum"
    if k == "ref":
        if e["name"] not in DD:
            return path, "dangling-ref"
        return explain(DD, DD[e["name"]], v, path)
    if k == "nullable":
        return explain(DD, e["t"], v, path)
    if k == "arr":
        if not isinstance(v, list):
            return path, "type"
        for i, x in enumerate(v):
            r = explain(DD, e["t"], x, path + (i,))
            if r:
                return r
    if k == "map":
        if not isinstance(v, dict):
            return path, "type"
        for key, x in v.items():
            r = explain(DD, e["t"], x, path + (key,))
            if r:
                return r
    if k == "obj":
        if not isinstance(v, dict):
            return path, "type"
        names = {f["n"] for f in e["props"]}
        for f in e["props"]:
            if f["n"] in v:
                r = explain(DD, f["t"], v[f["n"]], path + (f["n"],))
                if r:
                    return r
            elif f["req"]:
                return path, "required"
        if e["closed"] and any(key not in names for key in v):
            return path, "additionalProperties"
    if k in ("anyOf", "oneOf"):
        best = None
        for b in e["ts"]:
            r = explain(DD, b, v, path)
            if r and (best is None or len(r[0]) > len(best[0])):
                best = r
        return best or (path, k)
    return path, k


def defs_on_path(term, root, path):
    """Definition ids the path crosses in the schema term (references followed from the root object; segments are field names,
    "#i" for array items, map keys). Used to attribute a failure to the objects it concerns (witness classes only)."""
    S = {d["name"]: d["t"] for d in term["defs"]}
    crossed = [root] if root in S else []
    t = S.get(root)

    def enter(t):
        hops = 0
        while t is not None and t["k"] in ("ref", "nullable") and hops < 32:
            if t["k"] == "ref":
                crossed.append(t["name"])
                t = S.get(t["name"])
            else:
                t = t["t"]
            hops += 1
        return t
    for seg in path:
        t = enter(t)
        if t is None:
            break
        k = t["k"]
        if k == "struct":
            f = [f for f in t["fields"] if f["n"] == seg]
            t = f[0]["t"] if f else None
        elif k in ("arr", "map"):
            t = t["t"]
        elif k == "dunion":
            nxt = None
            for r in t["refs"]:
                b = S.get(r)
                if b is not None and b["k"] == "struct" and any(f["n"] == seg for f in b["fields"]):
                    crossed.append(r)
                    nxt = [f for f in b["fields"] if f["n"] == seg][0]["t"]
                    break
            t = nxt
        else:
            t = None
    enter(t)
    return crossed


def inter_places(ir, main_pkg):
    """Places of the raw IR (c12-ir projection) that are intersections, as Diffs paths: (object own name, field names, "#" for
    array items, "*" for map values, "|i" for union branches). Witness classes only."""
    out = set()

    def walk(t, path):
        k = t.get("k")
        if k == "inter":
            out.add(path)
        elif k == "struct":
            for f in t["fields"]:
                walk(f["type"], path + (f["name"],))
        elif k == "array":
            walk(t["elem"], path + ("#",))
        elif k == "map":
            walk(t["elem"], path + ("*",))
        elif k == "disj":
            for i, b in enumerate(t["branches"]):
                walk(b, path + ("|%d" % (i + 1),))
    for s in ir:
        for o in s["objects"]:
            walk(o["type"], (o["name"],))
    return out


def under(places, path):
    return any(tuple(path[:n]) in places for n in range(1, len(path) + 1))


def field_kind(exp, path):
    """Kind of the expected E-term at a Diffs path (nullable stripped): type enum ref arr map obj anyOf any."""
    e = None
    for d in exp:
        if d["name"] == path[0]:
            e = d["t"]
            break
    for seg in path[1:]:
        if e is None:
            return "?"
        e = _strip(e)
        if e["k"] == "obj":
            m = [f for f in e["props"] if f["n"] == seg]
            e = m[0]["t"] if m else None
        elif e["k"] in ("arr", "map"):
            e = e["t"]
        elif e["k"] == "anyOf" and seg.startswith("|"):
            i = int(seg[1:]) - 1
            e = e["ts"][i] if i < len(e["ts"]) else None
        else:
            e = None
    return _strip(e)["k"] if e is not None else "?"


# ----------------------------------------------------------------------------------------------
# the IR-built route: schema term -> cog IR (the projection format of harness/cmd/worker/ir.go, read by unprojSchemas)
# ----------------------------------------------------------------------------------------------
NILV = {"t": "nil", "s": ""}


def _v(x):
    if x is None:
        return dict(NILV)
    if isinstance(x, bool):
        return {"t": "bool", "s": "true" if x else "false"}
    if isinstance(x, str):
        return {"t": "string", "s": x}
    if isinstance(x, int):
        return {"t": "int64", "s": str(x)}
    if isinstance(x, float):
        return {"t": "float64", "s": json.dumps(x)}
    if isinstance(x, list):
        return {"t": "[]interface {}", "s": json.dumps(x)}
    if isinstance(x, dict):
        return {"t": "map[string]interface {}", "s": json.dumps(x)}
    raise Unsupported("value %r" % (x,))


def _vjv(v):
    return dict(NILV) if v["j"] == "none" else _v(sc.jv_to_py(v))


def term_to_ir(term, main_pkg, pmap):
    """-> [Schema] in ir.go's projection format. pmap: term package -> real package name ('' -> main_pkg)."""
    fs = term["foreign"]

    def where(name):
        return pmap.get(pkg_of(fs, name), main_pkg) if pkg_of(fs, name) else main_pkg

    def ty(t, nullable=False, default=None):
        base = {"nullable": bool(nullable), "def": default or dict(NILV), "hints": []}
        k = t["k"]
        if k in ("int", "num", "str", "bool", "any", "time", "const"):
            cons, val, sk = [], dict(NILV), None
            if k in ("int", "num"):
                sk = t["w"]
                for b, ops in ((t["lo"], {"ge": ">=", "gt": ">"}), (t["hi"], {"le": "<=", "lt": "<"})):
                    if b["b"] == "none":
                        continue
                    tenth = b["b"].endswith("10")
                    x = b["v"] / 10 if tenth else b["v"]
                    # cog's parsers hand bounds over as float64 (JSON Schema) or int64 (CUE): fractional ones are float64
                    cons.append({"op": ops[b["b"].replace("10", "")], "args": [_v(float(x)) if tenth else _v(int(x))]})
            elif k == "str":
                sk = "string"
                if t["mn"] != -1:
                    cons.append({"op": "minLength", "args": [_v(t["mn"])]})
                if t["mx"] != -1:
                    cons.append({"op": "maxLength", "args": [_v(t["mx"])]})
            elif k == "bool":
                sk = "bool"
            elif k == "any":
                sk = "any"
            elif k == "time":
                sk = "string"
                base["hints"] = [{"key": "string_format_datetime", "val": _v(True)}]
            else:
                c = sc.jv_to_py(t["v"])
                sk = "string" if isinstance(c, str) else "bool" if isinstance(c, bool) else "int64" if isinstance(c, int) else "float64"
                val = _v(c)
            return dict(base, k="scalar", sk=sk, val=val, cons=cons)
        if k in ("enum", "ienum"):
            sk = "string" if k == "enum" else "int64"
            return dict(base, k="enum", members=[{"name": ("V%s" % v) if k == "ienum" else str(v), "val": _v(v), "sk": sk} for v in t["vals"]])
        if k == "ref":
            return dict(base, k="ref", pkg=where(t["name"]), name=own_name(fs, t["name"]))
        if k == "nullable":
            return ty(t["t"], True, default)
        if k == "arr":
            return dict(base, k="array", elem=ty(t["t"]))
        if k == "map":
            return dict(base, k="map", idx=ty({"k": "str", "mn": -1, "mx": -1}), elem=ty(t["t"]))
        if k == "union":
            return dict(base, k="disj", branches=[ty(b) for b in t["ts"]], discr="", mapping=[])
        if k == "dunion":
            return dict(base, k="disj", branches=[ty({"k": "ref", "name": r}) for r in t["refs"]], discr=t["disc"], mapping=[])
        if k == "struct":
            return dict(base, k="struct", fields=[{"name": f["n"], "type": ty(f["t"], f["null"], _vjv(f["def"])), "required": f["req"], "comments": []}
                                                   for f in t["fields"]])
        raise Unsupported("term kind " + k)

    by_pkg = {}
    for d in term["defs"]:
        by_pkg.setdefault(where(d["name"]), []).append(d)
    out = []
    for pkg in sorted(by_pkg):
        objs = [{"name": own_name(fs, d["name"]), "comments": [], "type": ty(d["t"]), "selfpkg": pkg, "selfname": own_name(fs, d["name"])}
                for d in by_pkg[pkg]]
        entry = term["root"] if pkg == main_pkg else ""
        out.append({"pkg": pkg, "meta": {"kind": "", "variant": "", "id": ""}, "entry": entry,
                    "entrytype": {"k": "ref", "pkg": pkg, "name": entry, "nullable": False, "def": dict(NILV), "hints": []} if entry else {"k": "none"},
                    "objects": objs})
    return out
