"""Growth item 6 (DESIGN Appendix E) - the kind-registry input and the kindsys loaders.

requirement (spec/KindRegistry.tla): K1 empty path loads nothing, a version without core/ or composable/ is an error; K2 one
      package per kind DIRECTORY (plain files ignored), objects = fields/definitions of lineage.schemas[0].schema; K3 core kinds:
      kind core, identifier = name; K4 composable kinds: variant by schemaInterface (anything but PanelCfg/DataQuery is an
      error), identifier = lower-case(name without the interface suffix); K5 dataquery kinds get the named envelope
      "dataquery" as entry point; K6 a kind without name / schemaInterface is an error.
spec: KindRegistry.tla (Expected), KindRegistryMC.tla (1 360 registries: which directories exist, <= 2 core and <= 2 composable
      kinds out of 3 + 5, stray file, version, empty path; laws StrayIrrelevant, ErrHasNothing, OnePackagePerKind),
      KindRegistryTrace.tla.
real code: every registry is written to disk as CUE files and loaded by the real pipeline (PipelineFromFile + LoadSchemas through
      the worker's inputs-load); TLC judges every record.

K1-K6 are not among the listed properties: a mismatch is printed as an OBSERVATION and counted in the evidence; a panic or a hang
while loading is C04's business and returned as a C04 failure (signature C04/kindregistry/<panic|timeout>/<class>).

run_part(ctx) -> dict(fails=[(signature, what, replay, key)], coverage={...}, tlc=[...])
"""
import json
import os

from vlib import core

QUICK_SLICES = 4

SCHEMA_BODY = {
    "dash": "spec: {\n\t\t\ttitle: string\n\t\t\ttags?: [...string]\n\t\t}\n\t\t#Extra: {\n\t\t\tid: int64\n\t\t}",
    "team": "spec: {\n\t\t\temail: string\n\t\t}",
    "anon": "spec: {\n\t\t\tx: string\n\t\t}",
    "ts": "Options: {\n\t\t\tlegend: bool\n\t\t}\n\t\tFieldConfig: {\n\t\t\twidth: int64\n\t\t}",
    "loki": "expr: string\n\t\t#Direction: \"fwd\" | \"bwd\"",
    "plain": "Options: {\n\t\t\tlegend: bool\n\t\t}",
    "widget": "Options: {\n\t\t\tlegend: bool\n\t\t}",
    "noif": "Options: {\n\t\t\tlegend: bool\n\t\t}",
}


def kind_cue(package, k):
    out = "package %s\n\n" % package
    if k["name"]:
        out += "name: %s\n" % json.dumps(k["name"])
    if k.get("iface"):
        out += "schemaInterface: %s\n" % json.dumps(k["iface"])
    out += "lineage: schemas: [{\n\tversion: [0, 0]\n\tschema: {\n\t\t%s\n\t}\n}]\n" % SCHEMA_BODY[k["dir"]]
    return out


def materialise(root, cfg):
    """Writes the registry tree of one configuration below root and returns the pipeline file."""
    base = os.path.join(root, "reg", "grafana", "next")      # the tree only ever has version "next"
    os.makedirs(base)
    if cfg["hascore"]:
        os.makedirs(os.path.join(base, "core"))
        for k in cfg["core"]:
            d = os.path.join(base, "core", k["dir"])
            os.makedirs(d)
            open(os.path.join(d, k["dir"] + ".cue"), "w").write(kind_cue("kind", k))
        if cfg["stray"]:
            open(os.path.join(base, "core", "README.md"), "w").write("not a kind\n")
    if cfg["hascomposable"]:
        os.makedirs(os.path.join(base, "composable"))
        for k in cfg["composable"]:
            d = os.path.join(base, "composable", k["dir"])
            os.makedirs(d)
            open(os.path.join(d, k["dir"] + ".cue"), "w").write(kind_cue("grafanaplugin", k))
        if cfg["stray"]:
            open(os.path.join(base, "composable", "notes.txt"), "w").write("not a kind\n")
    if cfg["hascommon"]:
        os.makedirs(os.path.join(base, "common"))
        open(os.path.join(base, "common", "common.cue"), "w").write("package common\n\nShared: {\n\tunit: string\n}\n")
    y = os.path.join(root, "pipeline.yaml")
    path = "" if cfg["pathempty"] else "%__config_dir%/reg"
    open(y, "w").write("debug: false\ninputs:\n  - kind_registry:\n      path: '%s'\n      version: %s\noutput:\n  directory: '%%__config_dir%%/out'\n"
                       "  types: true\n  languages:\n    - go:\n        package_root: example.com/x\n" % (path, cfg["version"]))
    return y


def cfg_class(cfg):
    if cfg["pathempty"]:
        return "empty-path"
    if cfg["version"] != "next":
        return "unknown-version"
    if not cfg["hascore"] or not cfg["hascomposable"]:
        return "missing-directory"
    bad = [k["dir"] for k in cfg["core"] + cfg["composable"] if k["dir"] in ("anon", "widget", "noif")]
    if bad:
        return "ill-formed-kind:" + "+".join(sorted(bad))
    kinds = sorted({"core" for _ in cfg["core"]} | {("dataquery" if k["iface"] == "DataQuery" else "panelcfg") for k in cfg["composable"]})
    return "well-formed:" + ("+".join(kinds) or "no-kind") + ("+common" if cfg["hascommon"] else "")


def run_trace(ctx, trace_path, strict=False, allow_violation=False):
    r = ctx.run_tlc("KindRegistryTrace", "KindRegistryTrace.cfg", workers=1, timeout=900, files={"kindregistry_trace.ndjson": trace_path},
                    constants={"Strict": "TRUE"} if strict else None, allow_violation=allow_violation)
    fails = {f["l"]: f["violated"] for f in core.tagged_lines(r["out"], "FAIL")}
    consumed = 0
    for line in open(r["out"], errors="replace"):
        if line.startswith('<<"CONSUMED", '):
            consumed = int(line[len('<<"CONSUMED", '):].rstrip().rstrip(">"))
    return r, fails, consumed


def load_all(ctx, cases, tag):
    root = ctx.sub("kr-" + tag)
    jobs = os.path.join(root, "jobs.ndjson")
    with open(jobs, "w") as f:
        for i, c in enumerate(cases):
            y = materialise(os.path.join(root, "c%05d" % i), c["cfg"])
            f.write(json.dumps({"id": str(i), "yaml": y, "params": {}, "literal": "", "marker": "-"}) + "\n")
    out = os.path.join(root, "out.ndjson")
    ctx.run_worker(["inputs-load"], stdin_path=jobs, stdout_path=out, timeout=3000)
    recs = {}
    for line in open(out):
        r = json.loads(line)
        recs[int(r["id"])] = r
    trace = os.path.join(root, "trace.ndjson")
    out_recs = []
    with open(trace, "w") as f:
        for i, c in enumerate(cases):
            r = recs.get(i)
            if r is None:
                raise core.Inconclusive("kind registry: no record for case %d" % i)
            real = r["real"]
            crash = bool(r.get("timeout")) or real["class"] in ("panic", "timeout")
            rec = {"cfg": c["cfg"], "real": {"err": real["class"] != "none", "crash": crash, "class": real["class"], "msg": (real.get("err") or "")[:200],
                                              "pkgs": [{"pkg": p["pkg"], "meta": p["meta"], "objects": p["objects"], "entry": p["entry"]} for p in real["pkgs"]]}}
            out_recs.append(rec)
            f.write(json.dumps(rec) + "\n")
    return trace, out_recs


def selftest(ctx, recs, tfails):
    good = next((r for i, r in enumerate(recs, start=1) if i not in tfails and not r["real"]["err"] and
                 any(p["meta"].startswith("composable/") for p in r["real"]["pkgs"])), None)
    if good is None:
        if tfails:
            return "skipped: no accepted record with a composable kind in this run", []
        raise core.Inconclusive("kind registry self-test: no accepted record with a composable kind")
    bad = json.loads(json.dumps(good))
    for p in bad["real"]["pkgs"]:
        if p["meta"].startswith("composable/"):
            p["meta"] += "x"
            break
    out = []
    for name, rec, want in (("good", good, False), ("bad", bad, True)):
        p = os.path.join(ctx.scratch, "kr-self-%s.ndjson" % name)
        open(p, "w").write(json.dumps(rec) + "\n")
        r, _f, _c = run_trace(ctx, p, strict=True, allow_violation=True)
        if r["violated"] != want:
            raise core.Inconclusive("kind registry binding self-test: %s record %s" % (name, "accepted" if want else "rejected"))
        out.append(r)
    return "KindRegistryTrace(Strict) accepts a real record and rejects it with a composable kind's identifier altered", out


def run_part(ctx):
    if not getattr(ctx, "worker", None):
        ctx.build_worker()
    mc = ctx.run_tlc("KindRegistryMC", "KindRegistryMC.cfg", workers=4, timeout=900)
    cases = list(core.tagged_lines(mc["out"], "CASE"))
    if len(cases) != mc["distinct"]:
        raise core.Inconclusive("KindRegistryMC: %d CASE lines for %d states" % (len(cases), mc["distinct"]))
    if ctx.tier != "thorough":
        cases = [c for i, c in enumerate(cases) if i % QUICK_SLICES == ctx.seed % QUICK_SLICES]
    trace, recs = load_all(ctx, cases, "mc")
    tr, tfails, consumed = run_trace(ctx, trace)
    if consumed != len(recs):
        raise core.Inconclusive("KindRegistryTrace consumed %d of %d records" % (consumed, len(recs)))
    tlc = [mc, tr]
    fails, observations, classes = [], {}, {}
    accepted = 0
    for i, rec in enumerate(recs, start=1):
        cls = cfg_class(rec["cfg"])
        classes[cls] = classes.get(cls, 0) + 1
        v = tfails.get(i)
        if not v:
            accepted += 1
            continue
        for clause in v:
            if clause == "Crash":
                sig = "C04/kindregistry/%s/%s" % (rec["real"]["class"], cls)
                fails.append((sig, "loading a kind registry %s (%s): %s" % (rec["real"]["class"], cls, rec["real"]["msg"]), {"part": "kindregistry", "record": rec}, None))
            else:
                o = observations.setdefault("%s/%s" % (clause, cls), {"count": 0, "sample": rec})
                o["count"] += 1
    need = ["well-formed", "ill-formed-kind", "missing-directory", "unknown-version", "empty-path"]
    missing = [n for n in need if not any(k.startswith(n) for k in classes)]
    if missing:
        raise core.Inconclusive("kind registry part is vacuous for %s" % missing)
    note, st = selftest(ctx, recs, tfails)
    tlc += st
    for k, o in sorted(observations.items()):
        print("OBSERVATION (outside the listed properties): kind registry %s x%d, e.g. real %s" % (k, o["count"], json.dumps(o["sample"]["real"])[:300]))
    cov = {"kindregistry_registries_enumerated": mc["distinct"], "kindregistry_records_judged_by_tlc": len(recs), "kindregistry_records_accepted": accepted,
           "kindregistry_classes": classes, "kindregistry_observations": {k: o["count"] for k, o in observations.items()},
           "kindregistry_binding_selftest": note,
           "kindregistry_rule": "one record = one real Pipeline.LoadSchemas() on a registry tree written from a KindRegistryMC state; TLC compares "
                                "outcome, packages, metadata (kind/variant/identifier), objects and entry point with KindRegistry!Expected"}
    return {"fails": fails, "coverage": cov, "tlc": tlc}


def run(ctx):
    """Stand-alone entry (./vcheck KINDREGISTRY_PART)."""
    part = run_part(ctx)
    for sig, what, rp, key in part["fails"]:
        ctx.fail(sig, what, rp, key)
    cov = part["coverage"]
    cov.update({"states": sum(r["distinct"] for r in part["tlc"]), "transitions": sum(r["generated"] for r in part["tlc"]),
                "traces_validated_against_impl": cov["kindregistry_records_accepted"], "exhaustive": ctx.tier == "thorough",
                "evaluations": cov["kindregistry_records_judged_by_tlc"], "distinct_nontrivial": len(cov["kindregistry_classes"]),
                "rule": cov["kindregistry_rule"], "samples": [{"classes": cov["kindregistry_classes"]}]})
    return ctx.finish("model_checking", cov, ["kinds are drawn from a catalogue of 3 core and 5 composable kinds"])
