"""C07 - independence and immutability of whole pipeline runs.

  LanguageIndependent       files of a language are the same alone and together with any other languages
  InputOrderIndependent     reordering inputs of different packages changes no file
  UnrelatedInputIrrelevant  one more input, of a package nothing references, changes no file of the other packages
  MergeIsUnionOrConflict    same-package inputs merge into the union of their definitions, or the run fails
  InputsNeverMutated        a transformation chain never modifies the schemas it was handed

spec:  Pipeline.tla / Pipeline2.tla (the same properties on the design, TLC; the related (inputs, configuration) pairs of the
       bounded universe are printed as CASE lines and become the real input sets), PipelineTrace.tla (the properties
       evaluated over the records of the real runs)
real:  codegen.PipelineFromFile(..).Run(), LoadSchemas, ContextForLanguage, Passes.Process, jennies - built with the
       map-order scheduler overlay so that the language loop order is chosen, not sampled.
"""
import hashlib
import itertools
import json
import os
import random
import time

from vlib import core
from checks import pipeline_common as pc
from checks import pipeline_inputs_part, fileset_part
from checks import c07_builder_corpus as bc

# corpus entries with their own pipeline file: the shared ones (C03 explores them too) and the C07-only ones
ENTRIES = dict(pc.GROWTH_ENTRIES)
ENTRIES.update(bc.C07_ENTRIES)

PKG = {"p": "alpha", "q": "beta", "r": "gamma", "o": "aardvark"}      # o / r: the unrelated package, ordered before / after the others
LANGLOOP_SITE = "codegen.(*Pipeline).Run/range targetsByLanguage"


def pkg_name(desc):
    """The real package of an input: the abstract one (p/q/r) unless the case gives the extra input another name."""
    return desc.get("pkgname") or PKG[desc["abs"]["pkg"]]


# Constructs the language chains REWRITE (anonymous structs, anonymous enums, maps of anonymous structs, scalar unions): every
# real input carries them, so that pass-local state leaking from one schema / language / run into another shows in the files.
BAIT_X = [("opts", ("struct", [("depth", "int", False, None), ("label", "string", False, None)]), False, None),
          ("level", ("enum", ["low", "high"]), False, None),
          ("byname", ("map", ("struct", [("v", "string", False, None)])), False, None)]
BAIT_Y = [("opts", ("struct", [("width", "int", False, None)]), False, None), ("level", ("enum", ["on", "off"]), False, None)]
BAIT_B = [("frame", ("struct", [("top", "int", False, None), ("inner", ("struct", [("deep", "string", False, None)]), False, None)]), False, None)]


# ------------------------------------------------------------------------------------------------ abstract -> real
def real_spec(abs_in, pkgname=None):
    objs = []
    names = sorted(abs_in["objs"])
    for n in names:
        o = abs_in["objs"][n]
        if n == "A":
            if o["ncands"] >= 2:
                objs += [("A", "union", ["AOne", "ATwo"]),
                         ("AOne", "struct", [("kind", ("const", "one"), True, None), ("type", ("const", "1"), True, None), ("v", "string", False, None)]),
                         ("ATwo", "struct", [("kind", ("const", "two"), True, None), ("type", ("const", "2"), True, None), ("w", "int", False, None)])]
            elif o["body"] == "x":
                objs.append(("A", "struct", [("s", "string", True, None), ("n", "int", False, None)] + BAIT_X))
            else:
                objs.append(("A", "struct", [("s", "int", True, None)] + BAIT_Y))
        else:
            objs.append((n, "struct", [("flag", "bool", False, None), ("note", "string", False, "b"), ("marks", ("array", "string"), False, ["m1", "m2"])] + BAIT_B))
    return {"pkg": pkgname or PKG[abs_in["pkg"]], "objects": objs}


def input_id(desc):
    return "i" + hashlib.sha1(json.dumps(desc, sort_keys=True).encode()).hexdigest()[:10]


def write_real_input(d, desc, allowed):
    """desc = {"abs": abstract input, "fmt": format}. Returns the YAML inputs entry."""
    if desc.get("special") == "intersection":
        return write_intersection_input(d, desc)
    if desc.get("special") == "perturb":
        return write_perturbed_input(d, desc)
    if desc.get("special") == "tiny":
        return write_tiny_input(d, desc)
    if desc.get("special") == "intenum":
        return write_intenum_input(d, desc)
    if desc.get("special") == "shapes":
        return pc.write_input(d, {"pkg": pkg_name(desc), "objects": pc._shape_objects(1)}, "openapi", tag=input_id(desc),
                              extra={"_mapping": {"Shape": {"propertyName": "kind", "mapping": {"circle": "Circle", "square": "Square"}}}})
    if desc.get("special") == "constref":
        return pc.write_constref_cue(d, "cue_" + input_id(desc), pkg_name(desc))
    spec = real_spec(desc["abs"], pkg_name(desc))
    fmt = desc["fmt"]
    tag = input_id(desc)
    extra = {"allowed_objects": ["A"]} if allowed == "A" else None
    if desc["abs"].get("coll"):
        doc = json.loads(pc.render_jsonschema(spec))
        root = spec["objects"][0][0]
        doc["definitions"][root]["properties"]["pa"] = {"$ref": "#/definitions/a/C"}
        doc["definitions"][root]["properties"]["pb"] = {"$ref": "#/definitions/b/C"}
        doc["definitions"]["a"] = {"C": {"type": "object", "properties": {"fromA": {"type": "string"}}}}
        doc["definitions"]["b"] = {"C": {"type": "object", "properties": {"fromB": {"type": "integer"}}}}
        p = os.path.join(d, tag + ".schema.json")
        open(p, "w").write(json.dumps(doc, indent=1))
        e = {"path": "%__config_dir%/" + os.path.basename(p), "package": spec["pkg"]}
        e.update(extra or {})
        return {"jsonschema": e}
    if fmt == "jsonschema" and len(desc["abs"]["objs"]) > 1:
        # JSON Schema only keeps what the root reaches: a synthetic root referring to every object
        spec = {"pkg": spec["pkg"], "objects": [("Both", "struct", [(n.lower(), ("ref", n), False, None) for n in sorted(desc["abs"]["objs"])])] + spec["objects"]}
    return pc.write_input(d, spec, fmt, tag=tag, extra=extra)


# the languages that can express an intersection (Python and PHP refuse them)
INTERSECTION_LANGS = ["go", "java", "jsonschema", "openapi", "typescript"]


def write_intersection_input(d, desc):
    """An intersection (`allOf` / `A & {...}`) whose inline branch holds a nested ANONYMOUS struct: the naming passes of
    go/java rewrite that branch, TypeScript keeps it - a shallow copy of the branches leaks from one language to the next."""
    tag = input_id(desc)
    pkg = pkg_name(desc)
    if desc["fmt"] == "cue":
        cd = os.path.join(d, "cue_" + tag)
        os.makedirs(cd, exist_ok=True)
        open(os.path.join(cd, "s.cue"), "w").write(
            "package cue_%s\n\nBase: {\n  id: string\n}\nMix: Base & {\n  extra: string\n  inner: {\n    deep: string\n    level?: int64\n  }\n}\n"
            "Root: {\n  name: string\n  mix?: Mix\n}\n" % tag)
        return {"cue": {"entrypoint": "%__config_dir%/cue_" + tag, "package": pkg}}
    doc = {"$schema": "http://json-schema.org/draft-07/schema#", "$ref": "#/definitions/Root", "definitions": {
        "Root": {"type": "object", "properties": {"name": {"type": "string"}, "mix": {"$ref": "#/definitions/Mix"}}},
        "Base": {"type": "object", "properties": {"id": {"type": "string"}}},
        "Mix": {"allOf": [{"$ref": "#/definitions/Base"}, {"type": "object", "properties": {
            "extra": {"type": "string"},
            "inner": {"type": "object", "properties": {"deep": {"type": "string"}, "level": {"type": "integer"}}}}}]}}}
    p = os.path.join(d, tag + ".schema.json")
    open(p, "w").write(json.dumps(doc, indent=1))
    return {"jsonschema": {"path": "%__config_dir%/" + os.path.basename(p), "package": pkg}}


# Same-package redefinitions that differ in ONE declared attribute of the definition. Object.Equal on HEAD compares the name,
# the comments, the self reference, the passes trail and the WHOLE type tree (kind, nullable, default, hints, constraints,
# field names / required / comments, enum members, reference targets, constant values, at any depth): each of these
# differences is a conflict; the merge oracle demands conflict-or-identical, in both input orders.
PERTURB_BASE = {
    "Event": {"type": "object", "required": ["at"], "properties": {
        "at": {"type": "string"}, "n": {"type": "integer"}, "tags": {"type": "array", "items": {"type": "string"}},
        "mode": {"type": "string", "enum": ["a", "b"]}, "k": {"type": "string", "const": "a"}, "other": {"$ref": "#/definitions/Other"},
        "inner": {"type": "object", "properties": {"when": {"type": "string"}}}}},
    "Other": {"type": "object", "properties": {"id": {"type": "string"}}},
    "Third": {"type": "object", "properties": {"id": {"type": "string"}}},
    "Holder": {"type": "object", "properties": {"e": {"$ref": "#/definitions/Event"}, "o": {"$ref": "#/definitions/Other"}, "t": {"$ref": "#/definitions/Third"}}},
}
PERTURBATIONS = {
    "identical": lambda e: None,
    "hint-format": lambda e: e["properties"]["at"].update(format="date-time"),
    "hint-format-nested": lambda e: e["properties"]["inner"]["properties"]["when"].update(format="date-time"),
    "hint-format-items": lambda e: e["properties"]["tags"]["items"].update(format="date-time"),
    "constraint": lambda e: e["properties"]["at"].update(minLength=1),
    "constraint-number": lambda e: e["properties"]["n"].update(minimum=0),
    "default": lambda e: e["properties"]["at"].update(default="x"),
    "required": lambda e: e.update(required=["at", "n"]),
    "not-required": lambda e: e.pop("required"),
    "field-comment": lambda e: e["properties"]["at"].update(description="when it happened"),
    "object-comment": lambda e: e.update(description="an event"),
    "kind": lambda e: e["properties"]["at"].update(type="integer"),
    "item-kind": lambda e: e["properties"]["tags"]["items"].update(type="integer"),
    "enum-member": lambda e: e["properties"]["mode"].update(enum=["a", "c"]),
    "constant-value": lambda e: e["properties"]["k"].update(const="b"),
    "reference-target": lambda e: e["properties"]["other"].update({"$ref": "#/definitions/Third"}),
    "extra-field": lambda e: e["properties"].update(more={"type": "boolean"}),
    "nested-field": lambda e: e["properties"]["inner"]["properties"].update(more={"type": "boolean"}),
}


def write_perturbed_input(d, desc):
    tag = input_id(desc)
    defs = json.loads(json.dumps(PERTURB_BASE))
    PERTURBATIONS[desc["variant"]](defs["Event"])
    doc = {"$schema": "http://json-schema.org/draft-07/schema#", "$ref": "#/definitions/Holder", "definitions": defs}
    p = os.path.join(d, tag + ".schema.json")
    open(p, "w").write(json.dumps(doc, indent=1))
    return {"jsonschema": {"path": "%__config_dir%/" + os.path.basename(p), "package": pkg_name(desc)}}


def write_intenum_input(d, desc):
    """Enums the in-place enum passes write to: an integer enum (members named 0, 1, 2: RenameNumericEnumValues in the
    TypeScript / Python chains) and a string enum whose values need trimming (trim_enum_values)."""
    tag = input_id(desc)
    doc = {"$schema": "http://json-schema.org/draft-07/schema#", "$ref": "#/definitions/Root", "definitions": {
        "Root": {"type": "object", "properties": {"name": {"type": "string"}, "pos": {"$ref": "#/definitions/Position"},
                                                  "pad": {"$ref": "#/definitions/Padded"}}},
        "Position": {"type": "integer", "enum": [0, 1, 2]},
        "Padded": {"type": "string", "enum": ["left ", " right", "both"]}}}
    p = os.path.join(d, tag + ".schema.json")
    open(p, "w").write(json.dumps(doc, indent=1))
    return {"jsonschema": {"path": "%__config_dir%/" + os.path.basename(p), "package": pkg_name(desc)}}


def write_tiny_input(d, desc):
    """One small JSON Schema input: a root struct `obj` (+ an enum or an integer `Mode`, + a reference field), package `pkgname`."""
    tag = input_id(desc)
    obj = desc.get("obj", "T")
    defs = {obj: {"type": "object", "properties": {"v": {"type": "string"}, "n": {"type": "integer"}}}}
    mode = desc.get("mode")
    if mode == "enum":
        defs["Mode"] = {"type": "string", "enum": ["light", "dark"]}
        defs[obj]["properties"]["mode"] = {"$ref": "#/definitions/Mode"}
    elif mode == "int":
        defs["Mode"] = {"type": "integer"}
        defs[obj]["properties"]["mode"] = {"$ref": "#/definitions/Mode"}
    doc = {"$schema": "http://json-schema.org/draft-07/schema#", "$ref": "#/definitions/" + obj, "definitions": defs}
    p = os.path.join(d, tag + ".schema.json")
    open(p, "w").write(json.dumps(doc, indent=1))
    return {"jsonschema": {"path": "%__config_dir%/" + os.path.basename(p), "package": pkg_name(desc)}}


def make_job(base, name, descs, langs, flags, allowed="all", ndef=0, sched=None, final="", passes=None):
    d = os.path.join(base, name)
    os.makedirs(d)
    inputs = [write_real_input(d, x, allowed) for x in descs]
    common = passes
    passes = None
    if ndef >= 2:
        open(os.path.join(d, "common.yaml"), "w").write(pc.yaml_dump({"passes": [
            {"fields_set_default": {"defaults": {"alpha.B.note": "v1", "alpha.b.NOTE": "v1"}}}]}))
        passes = ["%__config_dir%/common.yaml"]
    elif common:
        open(os.path.join(d, "common.yaml"), "w").write(pc.yaml_dump({"passes": common}))
        passes = ["%__config_dir%/common.yaml"]
    y = pc.write_pipeline(d, "pipeline", inputs, langs, common_passes=passes, **flags)
    pkgs = sorted({pkg_name(x) for x in descs})
    job = {"id": name, "yaml": y, "inspect": False, "outdir": "out", "langs": list(langs), "pkgs": pkgs}
    if sched:
        job["sched"] = sched
    if final:
        job["final_prefix"] = final
    return job


def cfg_key(flags, allowed, ndef):
    return "types=%d,builders=%d,converters=%d,allowed=%s,ndef=%d" % (flags.get("types", True), flags.get("builders", False),
                                                                      flags.get("converters", False), allowed, ndef)


FLAGSETS = {"types": dict(types=True, builders=False, converters=False, api_reference=False),
            "builders": dict(types=True, builders=True, converters=True, api_reference=True)}


class Plan:
    """Collects run jobs with the metadata the oracles need."""

    def __init__(self, base, inputs_table):
        self.base = base
        self.jobs = []
        self.meta = {}
        self.inputs_table = inputs_table
        self.n = 0

    def add_entry(self, group, entry, langs, sched=None, pkgs=None):
        """A corpus entry (its own pipeline file, veneers, passes) generated for a language subset. An entry that takes `pkgs`
        builds one input per listed package, in that order, under ONE configuration: its inputs are then the unit the clauses
        speak about (permuted, one more of them), like the inputs of add()."""
        self.n += 1
        name = "r%04d" % self.n
        kw = {"pkgs": list(pkgs)} if pkgs else {}
        e = ENTRIES[entry](self.base, name, langs=langs, **kw)
        job = {"id": name, "yaml": e["yaml"], "inspect": False, "outdir": "out", "langs": list(langs), "pkgs": e["pkgs"]}
        if sched:
            job["sched"] = sched
        if pkgs:
            ids = ["entry:%s/%s" % (entry, p) for p in pkgs]
            for i, p in zip(ids, pkgs):
                self.inputs_table[i] = {"pkg": p}
        else:
            ids = ["entry:" + entry]
            self.inputs_table["entry:" + entry] = {"pkg": entry}
        self.jobs.append(job)
        self.meta[name] = {"group": group, "descs": [], "ids": ids, "langs": list(langs), "flags": "builders", "allowed": "all",
                           "ndef": 0, "sched": sched, "final": "", "cfg": "entry=" + entry, "entry": entry, "pkgs": e["pkgs"],
                           "entry_pkgs": list(pkgs) if pkgs else None}
        return name

    def add(self, group, descs, langs, flagname, allowed="all", ndef=0, sched=None, final="", passes=None):
        self.n += 1
        name = "r%04d" % self.n
        job = make_job(self.base, name, descs, langs, FLAGSETS[flagname], allowed, ndef, sched, final, passes)
        ids = [input_id(x) for x in descs]
        for x, i in zip(descs, ids):
            self.inputs_table[i] = {"pkg": pkg_name(x)}
        self.jobs.append(job)
        self.meta[name] = {"group": group, "descs": descs, "ids": ids, "langs": list(langs), "flags": flagname, "allowed": allowed,
                           "ndef": ndef, "sched": sched, "final": final, "passes": passes,
                           "cfg": cfg_key(FLAGSETS[flagname], allowed, ndef) + (",final=" + final if final else "")
                           + (",passes=" + hashlib.sha1(json.dumps(passes, sort_keys=True).encode()).hexdigest()[:8] if passes else "")}
        return name


def fmt_cycle(k):
    return ["jsonschema", "openapi", "cue"][k % 3]


def descs_of(abs_inputs, offset, same_fmt_for_same_pkg=True):
    out = []
    fmt_by_pkg = {}
    for k, a in enumerate(abs_inputs):
        f = fmt_cycle(k + offset)
        if same_fmt_for_same_pkg:
            f = fmt_by_pkg.setdefault(a["pkg"], f)
        if a.get("coll"):
            f = "jsonschema"
        out.append({"abs": a, "fmt": f})
    return out


# ------------------------------------------------------------------------------------------------ oracles
def diff_paths(a, b, only=None):
    paths = sorted(set(a) | set(b))
    return [p for p in paths if (only is None or only(p)) and a.get(p) != b.get(p)]


def lang_of(path, langs):
    for seg in path.split("/"):
        if seg in langs:
            return seg
    return "_shared"


def pkg_of(path, pkgs):
    """The package a generated file is specific to: the exact spelling first (packages may differ by letter case only), then any
    letter case (PHP, Java ... re-case directories)."""
    segs = path.split("/")
    for eq in ((lambda a, b: a == b), (lambda a, b: a.lower() == b.lower())):
        for i, seg in enumerate(segs):
            for p in pkgs:
                if eq(seg, p):
                    return p
                if i == len(segs) - 1 and "." in seg and eq(seg.split(".", 1)[0], p):
                    return p
    return ""


def same_package_order(ma, mb):
    """Both runs list the inputs of every package in the same relative order (only inputs of DIFFERENT packages moved)."""
    def by_pkg(m):
        out = {}
        names = [pkg_name(d) for d in m["descs"]] if m["descs"] else (m.get("entry_pkgs") or [])
        for p, i in zip(names, m["ids"]):
            out.setdefault(p, []).append(i)
        return out
    return by_pkg(ma) == by_pkg(mb)


def soft(ctx, msg, observed=None):
    """A self-check of the machinery failed. Without any observed violation the run is inconclusive; once violations were
    observed they are reported (exit 1) and the failed self-check becomes a NOTE: exit 2 must never hide a detection."""
    if ctx.failures or observed:
        ctx.notes.append("self-check failed (violations are reported all the same): " + msg)
        return
    raise core.Inconclusive(msg)


def run(ctx):
    pc.java_tmp(ctx)
    quick = ctx.quick()
    rnd = random.Random(ctx.seed)
    if ctx.replay:
        return replay(ctx)
    info = pc.build_with_scheduler(ctx)
    overlay = info["mode"] == "overlay"
    have_langloop = any(s["id"] == LANGLOOP_SITE for s in info["sites"])

    # (A) design level: the six hyper-properties on Pipeline2 (requirement level), cases for the real runs, model self-test
    req, cases = pc.tlc_requirement(ctx, ["same", "langs", "perm", "extra"], want_cases=True)
    faults = pc.tlc_faults(ctx, only=["nocopy", "overwrite", "dropgroup"][ctx.seed % 3] if quick else None)
    if quick:       # and one of the two faults that need builders: state kept across languages / across packages
        faults.update(pc.tlc_faults(ctx, only=["rulememo", "carry"][ctx.seed % 2]))
    by_rel = {}
    for c in cases:
        by_rel.setdefault(c["rel"], []).append(c)
    for rel in ("same", "langs", "perm", "extra"):
        if not by_rel.get(rel):
            raise core.Inconclusive("TLC emitted no %s case" % rel)
        by_rel[rel].sort(key=lambda c: json.dumps(c, sort_keys=True))
        rnd.shuffle(by_rel[rel])

    base = ctx.sub("corpus")
    inputs_table = {}
    plan = Plan(base, inputs_table)
    full = pc.LANGS
    sched_variants = [None]
    if overlay and have_langloop:
        sched_variants.append({"reverse": [LANGLOOP_SITE]})       # with the canonical order: both orders of every pair
        sched_variants.append({"random": ctx.seed * 7919 + 13, "sites": [LANGLOOP_SITE]})

    # --- LanguageIndependent: singletons, pairs, the full set
    def interesting(c):
        i = c["inputs1"]
        return (len(i), len({x["pkg"] for x in i}), max(o["ncands"] for x in i for o in x["objs"].values()))
    li_sets = []
    seen = set()
    for c in sorted(by_rel["langs"], key=interesting, reverse=True) + by_rel["langs"]:
        k = json.dumps(c["inputs1"], sort_keys=True)
        if k in seen or c["allowed"] != "all":
            continue
        seen.add(k)
        li_sets.append(c["inputs1"])
        if len(li_sets) >= (3 if quick else 14):
            break
    subsets = [[l] for l in full] + [list(p) for p in itertools.combinations(full, 2)] + [list(full)]
    if not quick:
        subsets += [list(p) for p in itertools.combinations(full, 3)][ctx.seed % 5::5]
    for si, abs_inputs in enumerate(li_sets):
        descs = descs_of(abs_inputs, si + ctx.seed)
        for flagname in ("types", "builders"):
            for ls in subsets:
                for sv in (sched_variants if len(ls) > 1 else [None]):
                    plan.add("langs", descs, ls, flagname, sched=sv)
    # intersections with a nested anonymous struct (what the naming passes of go/java rewrite in place), alone and beside an ordinary input
    isect_abs = {"pkg": "p", "coll": False, "objs": {"A": {"body": "x", "ncands": 0}}}
    plain_q = {"abs": {"pkg": "q", "coll": False, "objs": {"A": {"body": "x", "ncands": 0}}}, "fmt": "openapi"}
    # JSON Schema `allOf` stays an intersection in the IR (the Go jenny cannot print it: java is the naming language there);
    # CUE `Base & {...}` is unified by the parser (thorough only: all five languages)
    for fmt in (("jsonschema",) if quick else ("jsonschema", "cue")):
        univ = [l for l in INTERSECTION_LANGS if not (fmt == "jsonschema" and l == "go")]
        isect_subsets = [[l] for l in univ] + [list(p) for p in itertools.combinations(univ, 2)] + [list(univ)]
        for descs in ([{"abs": isect_abs, "fmt": fmt, "special": "intersection"}], [{"abs": isect_abs, "fmt": fmt, "special": "intersection"}, plain_q]):
            for ls in isect_subsets:
                for sv in (sched_variants if len(ls) > 1 else [None]):
                    plan.add("langs", descs, ls, "types", sched=sv)

    # constant references (`kind: Kind & "circle"`) under a name-changing transformation configured at the end of EVERY language's
    # chain (codegen.Transforms.FinalPasses = PrefixObjectNames): what one chain writes must not reach the next language
    cref = {"abs": isect_abs, "fmt": "cue", "special": "constref"}
    cref_pairs = [list(p) for p in itertools.combinations(full, 2)]
    cref_subsets = [[l] for l in full] + (cref_pairs[ctx.seed % 3::3] if quick else cref_pairs) + [list(full)]
    for descs in ([cref], [cref, plain_q]):
        for ls in cref_subsets:
            for sv in (sched_variants if len(ls) > 1 else [None]):
                plan.add("langs", descs, ls, "types", sched=sv, final="Geo")

    # builder transformations: the veneer corpus entries (common `all` rules + per-language rules acting on what the common ones
    # created) for every singleton, a third of the pairs (all at thorough) and the full set, in every loop order
    vpairs = [list(p) for p in itertools.combinations(full, 2)]
    vsubsets = [[l] for l in full] + (vpairs[(ctx.seed + 1) % 3::3] if quick else vpairs) + [list(full)]
    for entry in ("veneerparams", "veneers"):
        for ls in vsubsets:
            for sv in (sched_variants if len(ls) > 1 else [None]):
                plan.add_entry("langs", entry, ls, sched=sv)

    # builder transformations that RESOLVE PATHS against the language's own schemas (c07_builder_corpus: optional scalars and
    # references, an anonymous struct, nested paths guarded in constructors and options) over packages of one and the same shape:
    #   - language subsets in every loop order (what a rule keeps from the language before shows in the next one);
    #   - one more twin package sorting before / between / after the ones that stay, both positions in the input list (what a
    #     builder or package leaves behind shows in the following one), and the inputs permuted.
    # All runs share one configuration (the veneer files of every twin package are always there): every pair of them is judged.
    tpairs = [list(p) for p in itertools.combinations(full, 2)]
    tsubsets = [[l] for l in full] + (tpairs[(ctx.seed + 2) % 3::3] if quick else tpairs) + [list(full)]
    for ls in tsubsets:
        for sv in (sched_variants if len(ls) > 1 else [None]):
            plan.add_entry("langs", "twins", ls, sched=sv, pkgs=["alpha", "beta"])
    twin_sets = [["beta"], ["alpha", "beta"], ["beta", "gamma"], ["gamma", "beta"], ["alpha", "gamma"], ["alpha", "beta", "gamma"],
                 ["gamma", "alpha", "beta"], ["delta"], ["beta", "delta"]]
    if not quick:
        twin_sets += [list(p) for p in itertools.permutations(bc.TWINS, 2) if list(p) not in twin_sets]
        twin_sets += [list(p) for p in itertools.permutations(["alpha", "beta", "delta"])] + [list(bc.TWINS), list(reversed(bc.TWINS))]
    for ps in twin_sets:
        plan.add_entry("twins", "twins", full, pkgs=ps)
        if len(ps) <= 2:       # one language alone as well: the first builder that language sees is then the first of the run
            blangs = ["go", "java", "php", "python", "typescript"]
            for l in ([blangs[ctx.seed % 5]] if quick else sorted({"go", blangs[ctx.seed % 5]})):
                plan.add_entry("twins", "twins", [l], pkgs=ps)

    # enums with NUMERIC member names (and values that need trimming): what RenameNumericEnumValues / TrimEnumValues write to
    ienum = {"abs": isect_abs, "fmt": "jsonschema", "special": "intenum"}
    epairs = [list(p) for p in itertools.combinations(full, 2)]
    for ls in [[l] for l in full] + epairs + [list(full)]:
        for sv in (sched_variants[:2] if len(ls) > 1 else [None]):
            plan.add("langs", [ienum], ls, "types", sched=sv)

    # --- UnrelatedInputIrrelevant, a THIRD package both the unrelated package and an existing one refer to (jsonschema / openapi
    # inline foreign objects per document), and an unrelated package whose objects have the SAME bare names as existing ones with a
    # rename_object aimed at it (discriminator mappings name their targets without a package)
    tcommon = {"abs": isect_abs, "fmt": "jsonschema", "special": "tiny", "pkgname": "common", "obj": "Theme", "mode": "enum"}
    tdash = {"abs": isect_abs, "fmt": "jsonschema", "special": "tiny", "pkgname": "dash", "obj": "Dashboard", "mode": "enum"}
    tshapes = {"abs": isect_abs, "fmt": "openapi", "special": "shapes", "pkgname": "beta"}
    extras3 = ["cbase", "zlast"]
    p3 = [{"replace_reference": {"from": "dash.Mode", "to": "common.Mode"}}] + \
         [{"replace_reference": {"from": nm + ".Mode", "to": "common.Mode"}} for nm in extras3] + \
         [{"rename_object": {"from": nm + ".Circle", "to": "Round"}} for nm in extras3] + \
         [{"omit": {"objects": ["dash.Mode"] + [nm + ".Mode" for nm in extras3]}}]      # the referring packages do not define Mode themselves
    for langs3 in (["go", "jsonschema", "openapi", "php", "python", "typescript"], ["jsonschema", "openapi", "python", "typescript"]):
        plan.add("xref3", [tcommon, tdash, tshapes], langs3, "types", passes=p3)
        for nm in extras3:
            for obj, mode in (("Dashboard", "int"), ("Circle", None)):
                other = {"abs": isect_abs, "fmt": "jsonschema", "special": "tiny", "pkgname": nm, "obj": obj, "mode": mode}
                plan.add("xref3", [tcommon, tdash, tshapes, other], langs3, "types", passes=p3)
                plan.add("xref3", [other, tcommon, tdash, tshapes], langs3, "types", passes=p3)

    # --- InputOrderIndependent with MANY inputs: 14 one-object packages + two inputs of one shared package kept in their relative
    # order, several seeded permutations (grouping code may behave differently beyond a dozen schemas)
    many = [{"abs": isect_abs, "fmt": "jsonschema", "special": "tiny", "pkgname": "pk%02d" % k, "obj": "T%02d" % k} for k in range(14)]
    sh_a = {"abs": isect_abs, "fmt": "jsonschema", "special": "tiny", "pkgname": "shared", "obj": "Alpha"}
    sh_b = {"abs": isect_abs, "fmt": "jsonschema", "special": "tiny", "pkgname": "shared", "obj": "Beta"}
    reference = many[:5] + [sh_a] + many[5:10] + [sh_b] + many[10:]
    plan.add("permN", reference, ["jsonschema", "typescript"], "types")
    prnd = random.Random(ctx.seed * 1009 + 5)
    for _ in range(12 if quick else 60):
        order = list(reference)
        prnd.shuffle(order)
        ia, ib = order.index(sh_a), order.index(sh_b)
        if ia > ib:
            order[ia], order[ib] = order[ib], order[ia]
        plan.add("permN", order, ["jsonschema", "typescript"], "types")

    # --- UnrelatedInputIrrelevant with CROSS-PACKAGE references: `dash` refers to `common.Mode` (a replace_reference common pass);
    # the unrelated package is named after the existing ones: other letter case, prefix, suffix - sorting before and after them
    xcommon = {"abs": isect_abs, "fmt": "jsonschema", "special": "tiny", "pkgname": "common", "obj": "Theme", "mode": "enum"}
    xdash = {"abs": isect_abs, "fmt": "jsonschema", "special": "tiny", "pkgname": "dash", "obj": "Dashboard", "mode": "enum"}
    xpasses = [{"replace_reference": {"from": "dash.Mode", "to": "common.Mode"}}]
    xlangs = ["jsonschema", "openapi", "python"]      # Go / TypeScript / PHP / Java re-case package directories: case variants collide there
    plan.add("xref", [xcommon, xdash], xlangs, "types", passes=xpasses)
    for nm in (["Common", "commons", "Dash"] if quick else ["Common", "COMMON", "com", "commons", "common_x", "Dash", "DASH", "das", "dashx"]):
        other = {"abs": isect_abs, "fmt": "jsonschema", "special": "tiny", "pkgname": nm, "obj": "Dashboard", "mode": "int"}
        plan.add("xref", [xcommon, xdash, other], xlangs, "types", passes=xpasses)
        plan.add("xref", [other, xcommon, xdash], xlangs, "types", passes=xpasses)

    # --- InputOrderIndependent: TLC's perm cases (two inputs of different packages) + every permutation of three mixed-format inputs
    def conflicting(inputs):
        seen = {}
        for x in inputs:
            for n, o in x["objs"].items():
                k = (x["pkg"], n)
                if k in seen and seen[k] != o:
                    return True
                seen[k] = o
        return False
    for rel in ("perm", "extra"):
        by_rel[rel].sort(key=lambda c: conflicting(c["inputs1"]) and 1 or 0)     # stable: keeps the shuffle, conflicting ones last
    perm_cases = by_rel["perm"][: (10 if quick else 100)]
    for ci, c in enumerate(perm_cases):
        d1 = descs_of(c["inputs1"], ci + ctx.seed)
        d2 = [x for a in c["inputs2"] for x in d1 if x["abs"] == a][:len(d1)]
        if sorted(map(input_id, d1)) != sorted(map(input_id, d2)):
            raise core.Inconclusive("perm case is not a permutation")
        flagname = "builders" if ci % 2 == 0 else "types"
        for dd in (d1, d2):
            plan.add("perm", dd, full, flagname, allowed=c["allowed"], ndef=c["ndefkeys"])
    triple_abs = [{"pkg": "p", "coll": False, "objs": {"A": {"body": "x", "ncands": 2}, "B": {"body": "x", "ncands": 0}}},
                  {"pkg": "q", "coll": False, "objs": {"A": {"body": "y", "ncands": 0}}},
                  {"pkg": "r", "coll": False, "objs": {"A": {"body": "x", "ncands": 0}, "B": {"body": "x", "ncands": 0}}}]
    for variant in range(1 if quick else 3):
        tdescs = [{"abs": a, "fmt": fmt_cycle(k + variant)} for k, a in enumerate(triple_abs)]
        for perm in itertools.permutations(range(3)):
            for flagname in ("types", "builders"):
                plan.add("perm3", [tdescs[i] for i in perm], full, flagname)

    # --- UnrelatedInputIrrelevant
    extra_cases = by_rel["extra"][: (10 if quick else 100)] + [c for c in by_rel["extra"] if conflicting(c["inputs1"])][:1]
    for ci, c in enumerate(extra_cases):
        d1 = descs_of(c["inputs1"], ci + ctx.seed + 1)
        extra_abs = [a for a in c["inputs2"] if a["pkg"] in ("o", "r")][0]
        # the unrelated package sorts before ("aardvark", TLC's o) or after ("gamma", TLC's r) the others: Consolidate orders packages by name
        ex = {"abs": extra_abs, "fmt": fmt_cycle(ci), "pkgname": PKG[extra_abs["pkg"]]}
        d2 = []
        rest = list(d1)
        for a in c["inputs2"]:
            d2.append(ex if a["pkg"] in ("o", "r") else rest.pop(0))
        flagname = "builders" if ci % 2 == 1 else "types"
        plan.add("extra", d1, full, flagname, allowed=c["allowed"], ndef=c["ndefkeys"])
        plan.add("extra", d2, full, flagname, allowed=c["allowed"], ndef=c["ndefkeys"])

    os.environ.setdefault("VERIF_RUN_TIMEOUT", "40")
    runs = pc.run_jobs(ctx, "pipe-run", plan.jobs, args=["-full"], parallel=14, timeout=2400)
    res = {r["id"]: r for r in runs}
    timeouts = sorted(r["id"] for r in runs if r.get("timeout"))
    missing = [j["id"] for j in plan.jobs if j["id"] not in res]
    if missing and not timeouts:
        soft(ctx, "worker returned %d of %d runs" % (len(res), len(plan.jobs)))
    for n in missing:       # not run after repeated watchdog timeouts: left out of every comparison
        del plan.meta[n]

    counts = {"LanguageIndependent": 0, "InputOrderIndependent": 0, "UnrelatedInputIrrelevant": 0, "MergeIsUnionOrConflict": 0, "InputsNeverMutated": 0}
    nontrivial = dict(counts)
    py_pairs = set()

    def describe(name):
        m = plan.meta[name]
        return {"inputs": m["descs"], "langs": m["langs"], "flags": m["flags"], "allowed": m["allowed"], "ndef": m["ndef"], "sched": m["sched"],
                "final": m.get("final", ""), "passes": m.get("passes"), "entry": m.get("entry"), "entry_pkgs": m.get("entry_pkgs")}

    def pair_fail(clause, n1, n2, paths, what):
        py_pairs.add((min(n1, n2), max(n1, n2), clause))
        if clause == "Deterministic":
            # same inputs, configuration and languages under two language-loop orders: C03's clause, noted here
            ctx.notes.append("C03 business seen by C07: %s (%s)" % (what, paths[:3]))
            return
        langs = sorted({lang_of(p, full) for p in paths}) or ["-"]
        cls = "error" if not paths else ("files:" + langs[0] if len(langs) == 1 else "files")
        entry = plan.meta[n1].get("entry")
        if entry:      # a veneer corpus entry: one class whatever language shows it (the rules, not the language, are at fault)
            cls = "veneers-%s/%s" % (entry, "error" if not paths else "files")
        ctx.fail("C07/%s/%s" % (clause, cls), "%s: %s; differing paths: %s" % (clause, what, paths[:6]),
                 {"clause": clause, "runs": [describe(n1), describe(n2)], "paths": paths[:20]})

    # every pair of runs, judged by the same definitions as PipelineTrace.tla (Det / LangIndep / InputOrder / Unrelated)
    by_key = {}
    for name, m in plan.meta.items():
        by_key.setdefault((tuple(m["ids"]), m["cfg"]), []).append(name)
    by_cfg = {}
    for name, m in plan.meta.items():
        by_cfg.setdefault(m["cfg"], []).append(name)
    pkgs_of = lambda m: [pkg_name(x) for x in m["descs"]] if m["descs"] else list(m.get("pkgs") or [])
    for cfg, names in by_cfg.items():
        for a, b in itertools.combinations(sorted(names), 2):
            ma, mb = plan.meta[a], plan.meta[b]
            ra, rb = res[a], res[b]
            same_langs = sorted(ma["langs"]) == sorted(mb["langs"])
            only = None
            if ma["ids"] == mb["ids"]:
                clause = "Deterministic" if same_langs else "LanguageIndependent"
                common = set(ma["langs"]) & set(mb["langs"])
                only = lambda p, common=common: lang_of(p, full) in common
                nt = bool(common) and not ra["err"] and bool(ra.get("files"))
            elif same_langs and sorted(ma["ids"]) == sorted(mb["ids"]) and len(set(ma["ids"])) == len(ma["ids"]) and same_package_order(ma, mb):
                clause = "InputOrderIndependent"
                nt = not ra["err"] and bool(ra.get("files"))
            elif same_langs and abs(len(ma["ids"]) - len(mb["ids"])) == 1:
                small, big = (ma, mb) if len(ma["ids"]) < len(mb["ids"]) else (mb, ma)
                ks = [k for k in range(len(big["ids"])) if big["ids"][:k] + big["ids"][k + 1:] == small["ids"]
                      and pkgs_of(big)[k] not in pkgs_of(small)]
                if not ks:
                    continue
                clause = "UnrelatedInputIrrelevant"
                keep, allp = sorted(set(pkgs_of(small))), sorted(set(pkgs_of(big)))
                only = lambda p, keep=keep, allp=allp: pkg_of(p, allp) in keep
                nt = not ra["err"] and any(only(p) for p in (res[a if small is ma else b].get("files") or {}))
            else:
                continue
            if clause != "Deterministic":
                counts[clause] += 1
                nontrivial[clause] += 1 if nt else 0
            if bool(ra["err"]) != bool(rb["err"]):
                pair_fail(clause, a, b, [], "one run fails, the other does not (%r / %r)" % (ra["err"][:120], rb["err"][:120]))
                continue
            if ra["err"]:
                continue
            paths = diff_paths(ra.get("files") or {}, rb.get("files") or {}, only=only)
            if paths:
                pair_fail(clause, a, b, paths, "inputs %s langs %s vs inputs %s langs %s" % (ma["ids"], ma["langs"], mb["ids"], mb["langs"]))

    # --- MergeIsUnionOrConflict: every same-package pair of the bounded universe, object by object
    merge_pairs = []
    seen = set()
    for c in cases:
        i = c["inputs1"]
        if len(i) == 2 and i[0]["pkg"] == i[1]["pkg"] and c["allowed"] == "all":
            k = json.dumps(i, sort_keys=True)
            if k not in seen:
                seen.add(k)
                merge_pairs.append(i)
    merge_pairs.sort(key=lambda i: json.dumps(i, sort_keys=True))
    mjobs, mmeta = [], {}
    mdir = ctx.sub("merge")
    for k, pair in enumerate(merge_pairs):
        for mixed in ((False, True) if (k % 4 == 0 or not quick) else (False,)):
            descs = descs_of(pair, k + ctx.seed, same_fmt_for_same_pkg=not mixed)
            name = "m%04d%s" % (k, "x" if mixed else "")
            parts = []
            for pi, x in enumerate(descs):
                j = make_job(mdir, "%s-part%d" % (name, pi), [x], ["go"], FLAGSETS["types"])
                parts.append(j["yaml"])
            whole = make_job(mdir, name + "-whole", descs, ["go"], FLAGSETS["types"])
            mjobs.append({"id": name, "parts": parts, "whole": whole["yaml"]})
            mmeta[name] = descs
    # one-attribute redefinitions, in both input orders
    pabs = {"pkg": "p", "coll": False, "objs": {"A": {"body": "x", "ncands": 0}}}
    perturbed = {}
    for v in sorted(PERTURBATIONS):
        base_d = {"abs": pabs, "fmt": "jsonschema", "special": "perturb", "variant": "identical", "copy": 0}
        var_d = {"abs": pabs, "fmt": "jsonschema", "special": "perturb", "variant": v, "copy": 1}
        for order, descs in (("ab", [base_d, var_d]), ("ba", [var_d, base_d])):
            name = "mp-%s-%s" % (v, order)
            parts = [make_job(mdir, "%s-part%d" % (name, pi), [x], ["go"], FLAGSETS["types"])["yaml"] for pi, x in enumerate(descs)]
            whole = make_job(mdir, name + "-whole", descs, ["go"], FLAGSETS["types"])
            mjobs.append({"id": name, "parts": parts, "whole": whole["yaml"]})
            mmeta[name] = descs
            perturbed[name] = v
    mres = pc.run_jobs(ctx, "c07-merge", mjobs, parallel=8)
    merge_records = []
    perturb_seen = {}
    merged_ok = conflicts = 0
    for r in mres:
        descs = mmeta[r["id"]]
        pkg = pkg_name(descs[0])
        if any(p["err"] for p in r["parts"]):
            soft(ctx, "merge corpus: an input does not load on its own: %s" % [p["err"] for p in r["parts"]])
            continue
        parts = [p["packages"].get(pkg, {}).get("objects", {}) for p in r["parts"]]
        counts["MergeIsUnionOrConflict"] += 1
        union, collide = {}, False
        for p in parts:
            for n, h in p.items():
                if n in union and union[n] != h:
                    collide = True
                union.setdefault(n, h)
        if len(set(sum([list(p) for p in parts], []))) < sum(len(p) for p in parts) or collide:
            nontrivial["MergeIsUnionOrConflict"] += 1    # the two inputs share at least one object name
        if r["id"] in perturbed:
            perturb_seen[perturbed[r["id"]]] = collide
        w = r["whole"]
        wdefs = (w["packages"] or {}).get(pkg, {}).get("objects", {}) if not w["err"] else {}
        merge_records.append(pc.merge_record(parts, bool(w["err"]), wdefs, r["id"]))
        rp = {"clause": "MergeIsUnionOrConflict", "inputs": descs, "id": r["id"]}
        if w["err"]:
            conflicts += 1
            if "can not merge" not in w["err"] and "conflicting" not in w["err"]:
                ctx.notes.append("merge of %s failed with a non-conflict error: %s" % (r["id"], w["err"][:200]))
            continue
        merged_ok += 1
        dropped = sorted(n for n in union if n not in wdefs)
        extra = sorted(n for n in wdefs if n not in union)
        changed = sorted(n for n in union if n in wdefs and wdefs[n] not in [p.get(n) for p in parts])
        if collide and r["id"] in perturbed:
            ctx.fail("C07/MergeIsUnionOrConflict/overwritten/" + perturbed[r["id"]].split("-")[0],
                     "two inputs of one package define an object differently (%s) and the run succeeds: the first one wins silently (%s)" % (perturbed[r["id"]], r["id"]), rp)
        elif collide:
            ctx.fail("C07/MergeIsUnionOrConflict/overwritten", "two inputs define an object differently and the run succeeds (%s)" % r["id"], rp)
        elif dropped:
            ctx.fail("C07/MergeIsUnionOrConflict/dropped", "definitions %s are missing after the merge" % dropped, rp)
        elif extra or changed:
            ctx.fail("C07/MergeIsUnionOrConflict/altered", "definitions added %s / changed %s by the merge" % (extra, changed), rp)
    effective = sorted(v for v, differs in perturb_seen.items() if differs)
    if len(effective) < 12 and not ctx.failures:
        raise core.Inconclusive("merge corpus: only %d of %d one-attribute redefinitions change the loaded definition: %s" % (len(effective), len(PERTURBATIONS), effective))
    if perturb_seen.get("identical"):
        soft(ctx, "merge corpus: the same input loaded twice gives two different definitions")
    if (merged_ok == 0 or conflicts == 0) and not ctx.failures:
        raise core.Inconclusive("merge corpus vacuous: %d unions, %d conflicts" % (merged_ok, conflicts))

    # --- InputsNeverMutated
    idir = ctx.sub("immut")
    chains = write_chains(idir)
    ijobs = []
    entries = [pc.feature_entry(idir, "im-shapes", {"pkgs": 2, "cands": 1, "defaults": 1}),
               pc.feature_entry(idir, "im-compose", {"compose": 2, "cands": 1}),
               pc.sink_entry(idir, "im-sink"), pc.passes_entry(idir, "im-passes")]
    if not quick:
        entries.append(pc.feature_entry(idir, "im-all", {"pkgs": 2, "cands": 1, "defaults": 1, "compose": 2, "nested": 1, "collide": 1}))
    entries.append(pc.constref_entry(idir, "im-constref"))
    entries.append(pc.veneer_params_entry(idir, "im-veneerparams"))
    entries.append(pc.veneers_entry(idir, "im-veneers"))
    entries.append(bc.twins_entry(idir, "im-twins", pkgs=["alpha", "beta", "gamma"]))
    entries.append(make_job(idir, "im-intenum", [{"abs": {"pkg": "p", "coll": False, "objs": {"A": {"body": "x", "ncands": 0}}}, "fmt": "jsonschema",
                                                 "special": "intenum"}], full, FLAGSETS["types"]))
    for e in entries:
        for sv in ([None, {"random": ctx.seed + 101}] if overlay else [None]):
            ijobs.append({"id": e["id"] + ("-rnd" if sv else ""), "yaml": e["yaml"], "chains": chains + e.get("chains", []), "sched": sv,
                          "final_prefix": e.get("final_prefix", "")})
    ires = pc.run_jobs(ctx, "c07-immut", ijobs, parallel=8)
    immut_records = []
    copy_mutators = set()
    veneer_steps = 0
    for r in ires:
        if r.get("err") and not r.get("timeout"):
            soft(ctx, "immutability corpus entry %s does not run: %s" % (r["id"], r["err"]))
        if r.get("timeout"):
            ctx.notes.append("immutability corpus entry %s: a chain did not return (watchdog); the steps before it are judged" % r["id"])
        for s in r["steps"]:
            counts["InputsNeverMutated"] += 1
            if not s.get("err"):
                nontrivial["InputsNeverMutated"] += 1
            immut_records.append(pc.immut_record(r["id"] + "/" + s["step"], s["before"], s["after"]))
            kind = s["step"].split(":")[0]
            rp = {"clause": "InputsNeverMutated", "entry": r["id"], "step": s["step"]}
            if kind == "jennies" and s["same"] and s.get("language_copy_same") is False:
                copy_mutators.add(s["step"].split(":")[1])
            if kind == "veneers":
                veneer_steps += 1
            if not s["same"]:
                ctx.fail("C07/InputsNeverMutated/%s/schemas" % (s["step"] if kind == "chain" else kind),
                         "%s modified the schemas it was handed: %s" % (s["step"], json.dumps(s.get("first_difference"))[:300]), rp)
            if kind == "chain" and not s.get("err"):
                if not s["params_same"]:
                    ctx.fail("C07/InputsNeverMutated/%s/parameters" % s["step"], "%s modified its own parameters while running" % s["step"], rp)
                if not s["repeatable"]:
                    ctx.fail("C07/InputsNeverMutated/%s/second-application-differs" % s["step"],
                             "%s applied twice to the same schemas gives two different results" % s["step"], rp)

    if veneer_steps == 0 and not ctx.failures:
        raise core.Inconclusive("no builder-transformation (veneers) step was snapshotted")
    if copy_mutators:
        ctx.notes.append("diagnostic (no C07 clause): the jennies of %s modify the per-language copy of the schemas they are handed "
                         "(the shared schemas stay untouched)" % sorted(copy_mutators))

    # (C) trace validation: all run records + merge + immut records through PipelineTrace
    records, rec_names = [], []
    for name in sorted(plan.meta):
        m, r = plan.meta[name], res[name]
        records.append(pc.run_record(m["ids"], m["cfg"], m["langs"], r["outcome"]))
        rec_names.append(name)
    nrun = len(records)
    records += merge_records + immut_records
    tr, fails = pc.validate_trace(ctx, records, inputs_table)
    tlc_pairs, tlc_single = set(), set()
    for f in fails:
        for s in f["single"]:
            tlc_single.add((records[f["l"] - 1]["step"], s))
        for pr in f["pairs"]:
            a, b = rec_names[pr["k"] - 1], rec_names[f["l"] - 1]
            for v in pr["violated"]:
                tlc_pairs.add((min(a, b), max(a, b), v))
    if tlc_pairs != py_pairs:
        only_tlc = sorted(tlc_pairs - py_pairs)[:5]
        only_py = sorted(py_pairs - tlc_pairs)[:5]
        soft(ctx, "PipelineTrace and the oracle disagree: only TLC %s, only oracle %s" % (only_tlc, only_py))
    py_single = {(f["replay"].get("entry", "") + "/" + f["replay"].get("step", ""), "InputsNeverMutated") for f in ctx.failures
                 if f["replay"].get("clause") == "InputsNeverMutated" and f["signature"].endswith("/schemas")}
    if {x for x in tlc_single if x[1] == "InputsNeverMutated"} != py_single:
        soft(ctx, "PipelineTrace and the oracle disagree on InputsNeverMutated")
    py_merge = sorted({f["replay"]["id"] for f in ctx.failures if f["replay"].get("clause") == "MergeIsUnionOrConflict"})
    tlc_merge = sorted(x[0] for x in tlc_single if x[1] == "MergeIsUnionOrConflict")
    if tlc_merge != py_merge:
        soft(ctx, "PipelineTrace and the oracle disagree on MergeIsUnionOrConflict: TLC %s, oracle %s" % (tlc_merge[:8], py_merge[:8]))

    # binding self-test (Strict): a genuine pair is accepted, the same pair with one language hash corrupted is rejected
    ok_pair = None
    for (ids, cfg), names in by_key.items():
        good = sorted(n for n in names if not res[n]["err"] and not any(n in p for p in py_pairs))
        for g0, g1 in itertools.combinations(good, 2):
            l0, l1 = plan.meta[g0]["langs"], plan.meta[g1]["langs"]
            if sorted(l0) != sorted(l1) and set(l0) & set(l1):
                ok_pair = [records[rec_names.index(g0)], records[rec_names.index(g1)]]
                break
        if ok_pair:
            break
    selftest = None
    if ok_pair:
        r_ok, _ = pc.validate_trace(ctx, ok_pair, inputs_table, strict=True, allow_violation=True)
        bad = json.loads(json.dumps(ok_pair))
        common = sorted((set(bad[0]["files"]) & set(bad[1]["files"])) - {"_"})
        bad[1]["files"][common[0]] = "corrupted"
        r_bad, _ = pc.validate_trace(ctx, bad, inputs_table, strict=True, allow_violation=True)
        if r_ok["violated"] or not r_bad["violated"]:
            soft(ctx, "binding self-test failed: genuine pair rejected=%s, corrupted pair rejected=%s" % (r_ok["violated"], r_bad["violated"]))
        selftest = "PipelineTrace(Strict) accepts two genuine runs with overlapping language sets and rejects them once one language hash is corrupted"

    for k, v in nontrivial.items():
        if v == 0 and not ctx.failures:
            raise core.Inconclusive("clause %s never exercised non-trivially" % k)
    if (timeouts or any(r.get("timeout") for r in ires)) and not ctx.failures:
        raise core.Inconclusive("runs did not return (watchdog): %s" % (timeouts[:5],))
    # growth of Pipeline.tla beyond the listed clauses (DESIGN Appendix E.4 / E.5): input gating + parameters, file-set algebra
    parts = {}
    for pname, mod in (("inputs", pipeline_inputs_part), ("fileset", fileset_part)):
        t_part = time.time()
        part = mod.run_part(ctx)
        for sig, what, rp, key in part["fails"]:
            ctx.fail(sig, what, rp, key)
        parts[pname] = dict(part["coverage"], wall_s=round(time.time() - t_part, 1))

    failing = sorted(n for n in res if res[n]["err"])
    failing_why = {}
    for n in failing:
        failing_why.setdefault(res[n]["err"][:160], []).append(n)
    cov = {
        "states": sum(t["distinct"] for t in ctx.tlc_runs),
        "transitions": sum(t["generated"] for t in ctx.tlc_runs),
        "traces_validated_against_impl": len(records) - len(fails) + parts["inputs"]["conforming"] + parts["fileset"]["conforming"],
        "evaluations": len(plan.jobs) + len(mjobs) * 3 + sum(len(r["steps"]) for r in ires) + parts["inputs"]["replayed"] + parts["fileset"]["replayed"],
        "distinct_nontrivial": sum(nontrivial.values()) + parts["inputs"]["replayed"] + parts["fileset"]["replayed"],
        "growth_inputs": parts["inputs"], "growth_fileset": parts["fileset"],
        "comparisons_per_clause": counts, "nontrivial_per_clause": nontrivial,
        "real_pipeline_runs": len(plan.jobs), "runs_failing": len(failing), "runs_failing_why": {k: len(v) for k, v in failing_why.items()}, "merge_unions": merged_ok, "merge_conflicts": conflicts, "merge_one_attribute_redefinitions": effective,
        "tlc_cases": {k: len(v) for k, v in by_rel.items()}, "language_subsets": len(subsets), "input_sets_for_language_subsets": len(li_sets),
        "scheduler_mode": info["mode"], "language_loop_scheduled": bool(overlay and have_langloop),
        "model_selftest_faults": faults, "binding_selftest": selftest,
        "exhaustive": False,
        "rule": "one evaluation = one real pipeline run / merge load / transformation-chain application; a comparison is non-trivial when "
                "both runs succeed and generate files for a common language (LanguageIndependent), for the permuted inputs "
                "(InputOrderIndependent), package-specific files exist (UnrelatedInputIrrelevant), the two inputs share an object name "
                "(MergeIsUnionOrConflict), the chain ran without error (InputsNeverMutated)",
        "samples": [describe(n) for n in sorted(plan.meta)[:2]] + [{"merge": mmeta[mjobs[0]["id"]]}],
        "checker_cmd": "schedrewrite + go build -overlay; tlc Pipeline2MC (requirement level, CASE emission); worker pipe-run / c07-merge / c07-immut; tlc PipelineTrace; growth: tlc PipelineInputsMC -> worker inputs-load -> tlc PipelineInputsTrace; tlc PipelineFilesMC -> worker pipe-run -> tlc PipelineFilesTrace",
    }
    if not overlay:
        ctx.assumptions.append("scheduler overlay unavailable (%s): the language loop order is whatever the Go runtime picked" % info["why"])
    return ctx.finish("model_checking", cov, [
        "files specific to a package = a path segment equal to the package name (any letter case) or a file name starting with '<package>.'; "
        "shared runtime/index/registry files are not compared for UnrelatedInputIrrelevant (DESIGN 6.0)",
        "inputs of JSON Schema/OpenAPI/CUE cannot reference another cog package: every extra input is unrelated by construction",
        "a failing merge is accepted whatever its error (the property allows union or failure)",
        "schemas are compared by their JSON encoding (what cog inspect prints), pass parameters by their exported fields",
    ])


def write_chains(d):
    """Compiler-pass files used as explicit transformation chains over the shared schemas."""
    chains = {
        "names": [{"rename_object": {"from": "alpha.Mode", "to": "Modus"}}, {"duplicate_object": {"object": "alpha.Root", "as": "alpha.RootCopy"}},
                  {"omit": {"objects": ["alpha.Circle"]}}],
        "fields": [{"fields_set_default": {"defaults": {"alpha.Root.name": "zz"}}}, {"fields_set_required": {"fields": ["alpha.Root.mode"]}},
                   {"fields_set_not_required": {"fields": ["alpha.Root.name"]}}, {"omit_fields": {"fields": ["alpha.Root.tags"]}},
                   {"add_fields": {"to": "alpha.Root", "fields": [{"name": "added", "type": {"kind": "scalar", "scalar": {"scalar_kind": "string"}}}]}}],
        "retype": [{"retype_object": {"object": "alpha.Mode", "as": {"kind": "scalar", "scalar": {"scalar_kind": "string"}}}},
                   {"retype_field": {"field": "alpha.Root.tags", "as": {"kind": "array", "array": {"value_type": {"kind": "scalar", "scalar": {"scalar_kind": "int64"}}}}}},
                   {"hint_object": {"object": "alpha.Root", "hints": {"x": "1"}}}],
        "misc": [{"trim_enum_values": {}}, {"schema_set_identifier": {"package": "alpha", "identifier": "Alpha"}},
                 {"add_object": {"object": "alpha.Extra", "as": {"kind": "scalar", "scalar": {"scalar_kind": "bool"}}}},
                 {"replace_reference": {"from": "alpha.Mode", "to": "alpha.Root"}}],
    }
    out = []
    for name, passes in chains.items():
        p = os.path.join(d, "chain_%s.yaml" % name)
        open(p, "w").write(pc.yaml_dump({"passes": passes}))
        out.append(p)
    return out


# ------------------------------------------------------------------------------------------------ replay
def replay(ctx):
    rp = json.load(open(ctx.replay))
    sig, r = rp["signature"], rp["replay"]
    pc.build_with_scheduler(ctx)
    base = ctx.sub("replay")
    clause = r["clause"]
    if clause in ("inputs", "fileset"):
        verdicts = pipeline_inputs_part.replay_case(ctx, r["case"]) if clause == "inputs" else fileset_part.replay_case(ctx, r["cfg"])
        for cl, cls, what in verdicts:
            if "C07/%s/%s/%s" % (clause, cl, cls) == sig.split(" (input not")[0]:
                ctx.fail(sig, "replayed: " + what, r)
    elif clause in ("LanguageIndependent", "InputOrderIndependent", "UnrelatedInputIrrelevant", "Deterministic"):
        jobs = []
        for k, x in enumerate(r["runs"]):
            if x.get("entry"):
                kw = {"pkgs": x["entry_pkgs"]} if x.get("entry_pkgs") else {}
                e = ENTRIES[x["entry"]](base, "replay%d" % k, langs=x["langs"], **kw)
                j = {"id": "replay%d" % k, "yaml": e["yaml"], "inspect": False, "outdir": "out", "langs": x["langs"], "pkgs": e["pkgs"]}
                if x["sched"]:
                    j["sched"] = x["sched"]
                jobs.append(j)
                continue
            jobs.append(make_job(base, "replay%d" % k, x["inputs"], x["langs"], FLAGSETS[x["flags"]], x["allowed"], x["ndef"], x["sched"], x.get("final", ""), x.get("passes")))
        out = pc.run_jobs(ctx, "pipe-run", jobs, args=["-full"], parallel=2)
        a, b = sorted(out, key=lambda o: o["id"])
        common = set(r["runs"][0]["langs"]) & set(r["runs"][1]["langs"])
        rpkgs = lambda x: [pkg_name(i) for i in x["inputs"]] or list(x.get("entry_pkgs") or [])
        allp = sorted({p for x in r["runs"] for p in rpkgs(x)})
        keep = sorted(set(min((rpkgs(x) for x in r["runs"]), key=len)))
        only = (lambda p: lang_of(p, pc.LANGS) in common) if clause != "UnrelatedInputIrrelevant" else (lambda p: pkg_of(p, allp) in keep)
        paths = diff_paths(a.get("files") or {}, b.get("files") or {}, only=only)
        if paths or bool(a["err"]) != bool(b["err"]):
            ctx.fail(sig, "replayed: %s still differs at %s" % (clause, paths[:6]), r)
    elif clause == "MergeIsUnionOrConflict":
        parts = [make_job(base, "part%d" % k, [x], ["go"], FLAGSETS["types"])["yaml"] for k, x in enumerate(r["inputs"])]
        whole = make_job(base, "whole", r["inputs"], ["go"], FLAGSETS["types"])["yaml"]
        out = pc.run_jobs(ctx, "c07-merge", [{"id": "m", "parts": parts, "whole": whole}], parallel=1)[0]
        pkg = pkg_name(r["inputs"][0])
        union = {}
        collide = False
        for p in out["parts"]:
            for n, h in (p["packages"] or {}).get(pkg, {}).get("objects", {}).items():
                collide = collide or (n in union and union[n] != h)
                union.setdefault(n, h)
        w = out["whole"]
        if not w["err"]:
            wd = w["packages"].get(pkg, {}).get("objects", {})
            if collide or set(wd) != set(union) or any(wd[n] != union[n] for n in wd):
                ctx.fail(sig, "replayed: merge is neither the union nor a failure", r)
    else:
        idir = ctx.sub("immut")
        chains = write_chains(idir)
        entries = {"im-shapes": lambda: pc.feature_entry(idir, "im-shapes", {"pkgs": 2, "cands": 1, "defaults": 1}),
                   "im-compose": lambda: pc.feature_entry(idir, "im-compose", {"compose": 2, "cands": 1}),
                   "im-sink": lambda: pc.sink_entry(idir, "im-sink"),
                   "im-passes": lambda: pc.passes_entry(idir, "im-passes"),
                   "im-constref": lambda: pc.constref_entry(idir, "im-constref"),
                   "im-veneerparams": lambda: pc.veneer_params_entry(idir, "im-veneerparams"),
                   "im-veneers": lambda: pc.veneers_entry(idir, "im-veneers"),
                   "im-twins": lambda: bc.twins_entry(idir, "im-twins", pkgs=["alpha", "beta", "gamma"]),
                   "im-intenum": lambda: make_job(idir, "im-intenum", [{"abs": {"pkg": "p", "coll": False, "objs": {"A": {"body": "x", "ncands": 0}}},
                                                                        "fmt": "jsonschema", "special": "intenum"}], pc.LANGS, FLAGSETS["types"]),
                   "im-all": lambda: pc.feature_entry(idir, "im-all", {"pkgs": 2, "cands": 1, "defaults": 1, "compose": 2, "nested": 1, "collide": 1})}
        eid = r["entry"].replace("-rnd", "")
        e = entries[eid]()
        out = pc.run_jobs(ctx, "c07-immut", [{"id": eid, "yaml": e["yaml"], "chains": chains,
                                               "sched": {"random": ctx.seed + 101} if r["entry"].endswith("-rnd") else None}], parallel=1)[0]
        for s in out["steps"]:
            if s["step"] == r["step"] and (not s["same"] or (s["step"].startswith("chain") and not s.get("err") and not (s["params_same"] and s["repeatable"]))):
                ctx.fail(sig, "replayed: %s still modifies what it was handed" % s["step"], r)
    return ctx.finish("model_checking", {"evaluations": 1, "distinct_nontrivial": 0}, [])
