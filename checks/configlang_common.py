"""C20 helpers: the key grammar published in /repo/schemas/*.json (KPublished), in the shape
spec/ConfigLang.tla expects, and the signature classifier.

grammar = {file: {"root": id, "nodes": {id: node}}}
node    = {"kind": "map"|"free"|"list"|"scalar", "open": bool, "keys": [{"k": key, "c": child id, "f": ""}],
           "elem": id|"" , "t": value type, "gotype": "", "embeds": [], "custom": false}
Free-form nodes (`true`, `{}`, `{"type":"object"}` without properties, with or without a typed
additionalProperties) are kind "free".  Keywords the model does not interpret make the run inconclusive
rather than silently weaker.
"""
import json
import os

from vlib import core

FILES = {"pipeline": "pipeline.json", "compiler": "compiler_passes.json", "veneers": "veneers.json"}
ANNOTATIONS = {"description", "title", "$comment", "$schema", "$id", "$defs", "examples", "default", "deprecated"}
MODELLED = {"$ref", "type", "properties", "additionalProperties", "items"}
# keywords that constrain WHICH of the declared keys appear together, not which keys exist: the key grammar is unaffected,
# their effect is judged on documents by the reference validator (class "structure")
COMBINATION = {"minProperties", "maxProperties", "required", "minItems", "maxItems", "dependentRequired"}
# value-level keywords: no effect on keys
VALUE = {"enum", "const", "pattern", "format", "minimum", "maximum", "exclusiveMinimum", "exclusiveMaximum", "minLength", "maxLength",
         "multipleOf", "uniqueItems", "contentEncoding", "contentMediaType", "readOnly", "writeOnly"}
SCALARS = {"string": "string", "boolean": "bool", "integer": "int", "number": "float"}


def _node(kind, **kw):
    n = {"kind": kind, "open": False, "keys": [], "elem": "", "t": "", "gotype": "", "embeds": [], "custom": False,
         "customby": ""}
    n.update(kw)
    return n


class _Extractor:
    def __init__(self, schema, name):
        self.schema = schema
        self.name = name
        self.nodes = {}
        self.combination = set()   # (keyword, where) seen: noted
        self.unmodelled = set()    # keywords that may change the key language in ways the grammar does not express

    def keywords(self, sch, where):
        """keywords beyond the modelled ones are never a reason to give up: the documents are judged by the reference
        validator against the real loader anyway; here they only decide how far KPublished itself can be trusted"""
        extra = set(sch) - ANNOTATIONS - MODELLED
        for k in extra & COMBINATION:
            self.combination.add("%s at %s" % (k, where))
        for k in extra - COMBINATION - VALUE:
            self.unmodelled.add("%s at %s" % (k, where))

    def bad(self, where, what):
        raise core.Inconclusive("schemas/%s: %s at %s: the published schema itself is broken" % (self.name, what, where))

    def approx(self, where, what):
        """a construct the key grammar cannot express: the node is taken as free-form, KPublished is marked partial (its own
        verdicts are then not trusted; loader-vs-validator disagreements on documents still are)"""
        self.unmodelled.add("%s at %s" % (what, where))
        return _node("free", t="any")

    def visit(self, sch, where):
        """returns the node id for the sub-schema `sch` found at JSON pointer-ish `where`"""
        if sch is True or sch == {} or (isinstance(sch, dict) and not (set(sch) - ANNOTATIONS)):
            self.nodes.setdefault("any", _node("free", t="any"))
            return "any"
        if sch is False or not isinstance(sch, dict):
            self.unmodelled.add("schema %r at %s" % (sch, where))
            self.nodes.setdefault("any", _node("free", t="any"))
            return "any"
        self.keywords(sch, where)
        if "$ref" in sch:
            if set(sch) - ANNOTATIONS - {"$ref"} - COMBINATION - VALUE:
                self.unmodelled.add("$ref with sibling keywords at %s" % where)
            ref = sch["$ref"]
            if not ref.startswith("#/$defs/"):
                self.unmodelled.add("$ref %s at %s" % (ref, where))
                self.nodes.setdefault("any", _node("free", t="any"))
                return "any"
            name = ref[len("#/$defs/"):]
            if name not in self.schema.get("$defs", {}):
                self.bad(where, "dangling $ref %s" % ref)
            if name not in self.nodes:
                self.nodes[name] = None  # recursion guard
                self.nodes[name] = self.build(self.schema["$defs"][name], "#/$defs/" + name, name)
            return name
        # inline sub-schema: canonical id by structure for leaves, by location for inline objects
        n = self.build(sch, where, None)
        if n["kind"] == "scalar":
            nid = n["t"]
        elif n["kind"] == "free":
            nid = n["t"]
        elif n["kind"] == "list":
            nid = "[]" + n["elem"]
        else:
            nid = where
        self.nodes.setdefault(nid, n)
        return nid

    def build(self, sch, where, defname):
        if not isinstance(sch, dict):
            return self.approx(where, "schema %r" % (sch,))
        self.keywords(sch, where)
        if "$ref" in sch:  # a definition that is only an alias
            target = self.visit(sch, where)
            return dict(self.nodes[target]) if self.nodes[target] else self.approx(where, "recursive alias")
        t = sch.get("type")
        if t is None:
            if "properties" in sch or "additionalProperties" in sch:
                t = "object"   # untyped but shaped like an object: also admits non-objects, which is a value-level matter
                self.unmodelled.add("untyped object schema at %s" % where)
            elif "items" in sch:
                t = "array"
                self.unmodelled.add("untyped array schema at %s" % where)
            else:
                return _node("free", t="any")
        if isinstance(t, list):
            self.unmodelled.add("type list at %s" % where)
            t = [x for x in t if x != "null"][0] if [x for x in t if x != "null"] else "null"
        if t in SCALARS:
            return _node("scalar", t=SCALARS[t])
        if t == "array":
            if "items" not in sch:
                self.nodes.setdefault("any", _node("free", t="any"))
                return _node("list", elem="any")
            return _node("list", elem=self.visit(sch["items"], where + "/items"))
        if t == "object":
            props = sch.get("properties")
            ap = sch.get("additionalProperties", True)
            if props is None:
                if ap is False:
                    return _node("map")  # closed object without keys (e.g. a parameterless pass)
                if ap is True or ap == {}:
                    return _node("free", t="dict:any")
                vid = self.visit(ap, where + "/additionalProperties")
                vn = self.nodes[vid]
                if vn["kind"] == "scalar":
                    return _node("free", t="dict:" + vn["t"])
                if vn["kind"] == "free":
                    return _node("free", t="dict:any")
                return self.approx(where, "map with structured values")
            if ap is not False and ap is not True:
                self.unmodelled.add("properties together with a typed additionalProperties at %s" % where)
                ap = True
            keys = [{"k": k, "c": self.visit(v, where + "/properties/" + k), "f": ""} for k, v in props.items()]
            return _node("map", open=(ap is True), keys=keys)
        return _node("scalar", t="string") if t == "null" else self.approx(where, "type %r" % t)


def extract_published(repo):
    out = {}
    for f, fn in FILES.items():
        p = os.path.join(repo, "schemas", fn)
        if not os.path.exists(p):
            raise core.Inconclusive("published schema %s is missing" % p)
        sch = json.load(open(p))
        ex = _Extractor(sch, fn)
        root = ex.visit({k: v for k, v in sch.items() if k in ("$ref", "type", "properties", "additionalProperties", "items")}, "#")
        out[f] = {"root": root, "nodes": ex.nodes, "combination": sorted(ex.combination), "unmodelled": sorted(ex.unmodelled)}
    return out


def path_str(at, key=None):
    s = ""
    for seg in at:
        if seg == "[]":
            s += "[]"
        else:
            s += ("." if s else "") + seg
    if key is not None:
        s += ("." if s else "") + key
    return s or "."


# ------------------------------------------------------------------ TLA+ literal of the grammars
_IDENT = __import__("re").compile(r"^[A-Za-z][A-Za-z0-9_]*$")


def to_tla(v):
    """JSON value -> TLA+ expression (records for identifier keys, :> @@ functions otherwise)."""
    if isinstance(v, bool):
        return "TRUE" if v else "FALSE"
    if isinstance(v, int):
        return str(v)
    if isinstance(v, str):
        if '"' in v or "\\" in v:
            raise core.Inconclusive("string %r cannot be written as a TLA+ literal" % v)
        return '"%s"' % v
    if isinstance(v, list):
        return "<<" + ", ".join(to_tla(x) for x in v) + ">>"
    if isinstance(v, dict):
        if not v:
            return "<<>>"
        if all(_IDENT.match(k) for k in v):
            return "[" + ", ".join("%s |-> %s" % (k, to_tla(x)) for k, x in v.items()) + "]"
        return "(" + " @@ ".join('("%s" :> %s)' % (k, to_tla(x)) for k, x in v.items()) + ")"
    raise core.Inconclusive("value %r cannot be written as a TLA+ literal" % (v,))


def _slim(g):
    """only what the specification reads (kind, open, keys k/c, elem)"""
    return {f: {"root": gf["root"],
                "nodes": {nid: {"kind": n["kind"], "open": n["open"], "elem": n["elem"],
                                "keys": [{"k": k["k"], "c": k["c"]} for k in n["keys"]]} for nid, n in gf["nodes"].items()}}
            for f, gf in g.items()}


def data_module(kp, kl):
    """spec/ConfigLangData.tla for this run: both grammars as TLA+ constants (evaluated once by TLC)."""
    return ("---- MODULE ConfigLangData ----\n"
            "(* GENERATED at check time from /repo's current tree: schemas/*.json and the loaders' structs *)\n"
            "EXTENDS TLC\n"
            "DataKPublished == %s\n\nDataKLoader == %s\n====\n" % (to_tla(_slim(kp)), to_tla(_slim(kl)))).encode()
