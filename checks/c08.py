"""C08 - generated Validate() and the strict decoder (Go).

spec: Semantics.tla (StrictRejects, ValidateErrs, Base/Variants), SemanticsMC.tla (catalogue, CASE emission),
      SemanticsTrace.tla (TLC recomputes both on the recorded real outcomes)
real code: cog's pipeline generates Go for each schema in three input formats; the compiled code is run.
"""
from checks import semantics_common as sc


def run(ctx):
    return sc.docs_check(ctx, "C08", sc.C08_CLAUSES, sc.COMMON_ASSUMPTIONS + [
        "reading rules (DESIGN 6.0): reported paths are normalised to segment sequences; the segment naming the Go struct field of a union "
        "branch (`du.A.x`) is the representation's selector and not counted; enum membership, constants and bounds are not rejection causes "
        "of the strict decoder (documents labelled NonMember are observed, never judged); null is only injected where the property speaks "
        "about it (nullable fields, required non-nullable fields)",
        "Validate() is judged on documents the specification's strict decoder accepts (structure intact), decoded by json.Unmarshal and, "
        "separately, by UnmarshalJSONStrict",
    ], must=("defaults-str-bool", "falsy-defaults", "case-twins", "two-packages", "two-packages-reversed",
             "reused-union-orders", "reused-union-orders-reversed", "half-open-ranges", "reused-ref-orders",
             "optional-defaults", "negative-bounds", "openapi-annotations", "double-bounds"))
