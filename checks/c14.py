"""C14 - generated Go converters.

spec: BuilderMachine.tla (ConvertInv: RebuildOK = the rebuilt object equals v in every field that differs from the builder's
      defaults; NotOnce = every needed option / constructor argument appears exactly once), BuilderMC.tla (Mode "values":
      values of every builder type of the builder catalogue), BuilderTrace.tla (records "conv" and "node": TLC recomputes
      both clauses from the REAL default objects, the REAL rebuilt object and the call counts of the REAL expression).
real code: two-stage build. Stage 1: cog generates Go with `builders: true, converters: true`; the driver decodes each value
      into the generated type and runs the generated <Type>Converter: the returned text is the artefact. Stage 2: every text
      is embedded as `<text>.Build()` in its own file of one main package, compiled (compile errors attributed per
      expression) and executed; the built objects come back as JSON. The expression's call chains are counted on its Go AST
      (go/parser, worker c14-parse).
"""
import collections
import json
import zlib
import os
import re
import shutil
import subprocess
import time

from vlib import core
from checks import semantics_common as sc
from checks import buildermachine_common as bc
from checks.c09 import arg_kind

_EDIAG = re.compile(r"^(rebuild/(e_\d+)\.go):(\d+):(\d+): (.*)$")


def at_path(v, path):
    for seg in path:
        if not isinstance(v, dict) or seg not in v:
            return bc.ABSENT
        v = v[seg]
    return v


def differs(t, Dk, v):
    return [f["n"] for f in t["fields"] if not bc.same_obj(v.get(f["n"], bc.ABSENT), Dk.get(f["n"], bc.ABSENT))]


def branch_of(S, key, t, o):
    """for an appending option whose argument is ONE branch of the list's union: (union type, branch name), else None"""
    a = o["asgs"][0]
    if a["m"] != "append":
        return None
    _, ft = bc.type_at(S, key, t, a["path"])
    et = bc.unwrap(S, bc.unwrap(S, ft)["t"])
    at = o["args"][a["src"] - 1]
    if et["k"] == "dunion" and at["k"] == "ref" and at["name"] in et["refs"]:
        return et, at["name"]
    return None


def want(S, key, t, o, v):
    a = o["asgs"][0]
    x = at_path(v, a["path"])
    if a["m"] == "direct":
        return 1
    if a["m"] == "append":
        if not isinstance(x, list):
            return 0
        br = branch_of(S, key, t, o)
        if br:
            return len([e for e in x if bc.disc_of(S, br[0], e) == br[1]])
        return len(x)
    return len(x) if isinstance(x, dict) else 0


def base_at(S, D, key, t, d, v, path):
    """python twin of BuilderMachine!BaseAt"""
    key, st = bc.as_struct(S, key, t)
    n = path[0]
    dn = d.get(n, bc.ABSENT) if isinstance(d, dict) else bc.ABSENT
    vn = v.get(n, bc.ABSENT) if isinstance(v, dict) else bc.ABSENT
    if len(path) == 1:
        return dn
    f = bc.field_of(st, n)
    ckey, _ = bc.as_struct(S, key + "." + n, f["t"])
    child = dn if isinstance(dn, dict) else (D[ckey] if isinstance(vn, dict) else None)
    if not isinstance(child, dict):
        return bc.ABSENT
    return base_at(S, D, key + "." + n, f["t"], child, vn, path[1:])


def applicable(o, v):
    return all(bc.same_obj(at_path(v, a["path"]), sc.jv_to_py(a["c"])) for a in o["asgs"] if a["src"] == 0)


def arg_target_differs(S, t, D, key, o, v):
    return any(a["src"] > 0 and not bc.same_obj(at_path(v, a["path"]), base_at(S, D, key, t, D[key], v, a["path"])) for a in o["asgs"])


def needed_opts(S, t, D, key, b, v):
    """python twin of BuilderMachine!NeededOpts"""
    prom = [a["path"] for a in b["ctor"]["asgs"]]
    return [o for o in b["opts"] if o["asgs"][0]["path"] not in prom and applicable(o, v) and arg_target_differs(S, t, D, key, o, v)]


def group_count(b, counts, o):
    """calls of the option and of its duplicates (same arguments, same assignments)"""
    return sum(counts.get(x["name"], 0) for x in b["opts"] if x["args"] == o["args"] and x["asgs"] == o["asgs"])


def has_unset_ctor(S, B, key, t, v):
    """does the value leave a member unset that a constructor (of its builder or of a nested one) takes as argument?"""
    key, t = bc.as_struct(S, key, t)
    if t["k"] in ("arr", "map"):
        xs = v if isinstance(v, list) else list(v.values()) if isinstance(v, dict) else []
        return any(has_unset_ctor(S, B, key, t["t"], x) for x in xs)
    if t["k"] != "struct" or not isinstance(v, dict):
        return False
    b = B.get(key)
    if b and any(bc.canon(at_path(v, a["path"])) is None for a in b["ctor"]["asgs"]):
        return True
    return any(has_unset_ctor(S, B, key + "." + f["n"], f["t"], v[f["n"]]) for f in t["fields"] if f["n"] in v and v[f["n"]] is not None)


def value_feature(x):
    if x is bc.ABSENT or x is None:
        return "absent"
    if x == "" and isinstance(x, str):
        return "empty-string"
    if isinstance(x, bool):
        return "false" if not x else "true"
    if isinstance(x, (int, float)) and x == 0:
        return "zero"
    if isinstance(x, (list, dict)) and not x:
        return "empty-collection"
    return "value"


def leaf_class(S, t, v, r, n):
    """class of the first difference below field n of struct t: the LEAF that differs (so that a difference inside a
    nested object has the same class wherever the object is nested)"""
    f = bc.field_of(t, n)
    ft = f["t"]
    x, y = v.get(n, bc.ABSENT), r.get(n, bc.ABSENT) if isinstance(r, dict) else bc.ABSENT
    while True:
        ft = bc.unwrap(S, ft)
        if ft["k"] == "dunion" and isinstance(x, dict):
            rr = bc.disc_of(S, ft, x)
            ft = S[rr] if rr else ft
        if ft["k"] == "struct" and isinstance(x, dict) and isinstance(y, dict):
            sub = [g for g in ft["fields"] if not bc.same_obj(x.get(g["n"], bc.ABSENT), y.get(g["n"], bc.ABSENT))]
            if not sub:
                break
            f, ft = sub[0], sub[0]["t"]
            x, y = x.get(f["n"], bc.ABSENT), y.get(f["n"], bc.ABSENT)
            continue
        if ft["k"] in ("arr", "map") and type(x) is type(y) and isinstance(x, (list, dict)) and len(x) == len(y):
            items = list(zip(x, y)) if isinstance(x, list) else [(x[k], y.get(k, bc.ABSENT)) for k in x]
            bad = [(a, b) for a, b in items if not bc.same_obj(a, b)]
            if bad and isinstance(bad[0][0], dict) and isinstance(bad[0][1], dict):
                ft = ft["t"]
                x, y = bad[0]
                continue
        break
    what = "dropped" if bc.canon(y) is None else ("added" if bc.canon(x) is None else "changed")
    return "%s:%s:%s@%s" % (arg_kind(S, ft), what, value_feature(x),
                            ("field" if f["req"] else "optional-field") + ("+default" if f["def"]["j"] != "none" else ""))


def what_added(cls):
    return ":added:absent@" in cls


def diag_class(msg):
    m = re.match(r"^(undefined|cannot use|invalid operation|missing|too many|not enough|syntax error|unexpected|mismatched types|cannot convert)", msg)
    if m:
        return m.group(1).replace(" ", "-")
    if " undefined (type " in msg:
        return "undefined-method"
    if "expected" in msg:
        return "syntax-error"
    return "other"


class Walker:
    """aligns the call chains of one converter output with the value they stand for"""

    def __init__(self, entry, u):
        self.e, self.u, self.S = entry, u, entry["S"]
        self.ir = u["ir"]["go"]
        self.nodes = []     # (key, struct type, value, counts, unknown option names, flavour builder name or None)
        self.gaps = 0

    def ir_builder_by_go_name(self, name):
        for b in self.ir:
            g = self.u["glue"].get(bc.norm_name(b["name"]))
            if g and bc.norm_name(g["name"]) == bc.norm_name(name):
                return b
        return None

    def node(self, tree, key, t, v):
        b = self.e["B"].get(key)
        if b is None or not isinstance(v, dict):
            self.gaps += 1
            return
        counts = collections.Counter()
        counts["#ctor"] = len(tree["ctor_args"])
        unknown = []
        # which of the object's builders does the chain use (duplicate + initialize veneers give several)?
        flavour = None
        bound = self.u["bind"]["go"].get(key)
        used = self.ir_builder_by_go_name(tree["builder"])
        if bound and used is not None and used is not bound["ir"] and any(used is alt for alt in bound.get("alts", [])):
            flavour = used["name"]
        seen = collections.Counter()
        # constructor arguments that are builders
        for a, arg in zip(b["ctor"]["asgs"], tree["ctor_args"]):
            fk, ft = bc.type_at(self.S, key, t, a["path"])
            self.arg(arg, fk, ft, at_path(v, a["path"]))
        for call in tree["calls"]:
            hit = bc.pick_named(b["opts"], call["name"])
            if not hit:
                unknown.append(call["name"])
                continue
            o = hit[0]
            counts[o["name"]] += 1
            a = o["asgs"][0]
            fk, ft = bc.type_at(self.S, key, t, a["path"])
            x = at_path(v, a["path"])
            if len(call["args"]) != len(o["args"]):
                self.gaps += 1
                continue
            io = bc.pick_named([x for x in self.u["bind"]["go"][key]["opts"] if x is not None], o["name"])[0]
            val_arg = call["args"][io["argpos"][a["src"]]]
            if a["m"] == "direct":
                for a2 in [x for x in o["asgs"] if x["src"] > 0]:
                    fk2, ft2 = bc.type_at(self.S, key, t, a2["path"])
                    self.arg(call["args"][io["argpos"][a2["src"]]], fk2, ft2, at_path(v, a2["path"]))
            elif a["m"] == "append":
                i = seen[o["name"]]
                seen[o["name"]] += 1
                br = branch_of(self.S, key, t, o)
                if br and isinstance(x, list):
                    x = [e for e in x if bc.disc_of(self.S, br[0], e) == br[1]]
                    if i < len(x):
                        self.arg(val_arg, br[1], self.S[br[1]], x[i])
                    else:
                        self.gaps += 1
                elif isinstance(x, list) and i < len(x):
                    self.arg(val_arg, fk, bc.unwrap(self.S, ft)["t"], x[i])
                else:
                    self.gaps += 1
            else:
                karg = call["args"][io["argpos"][a["key"]]]
                try:
                    mk = json.loads(karg["text"]) if karg["k"] == "lit" else None
                except ValueError:
                    mk = None
                if isinstance(x, dict) and mk in x:
                    self.arg(val_arg, fk, bc.unwrap(self.S, ft)["t"], x[mk])
                else:
                    self.gaps += 1
        self.nodes.append((key, t, v, counts, unknown, flavour))

    def arg(self, tree, key, t, v):
        """tree: an argument of a call; (key, t): the specification type it stands for; v: the value"""
        if v is bc.ABSENT or v is None:
            return
        while t["k"] in ("ref", "nullable"):
            if t["k"] == "ref":
                key, t = t["name"], self.S[t["name"]]
            else:
                t = t["t"]
        k = t["k"]
        if tree["k"] == "chain":
            irb = self.ir_builder_by_go_name(tree["builder"])
            if irb is not None and irb["disjunction"]:
                # Go's struct for a union: one call naming the branch; look through it
                for call in tree["calls"]:
                    if k == "dunion" and len(call["args"]) == 1:
                        r = bc.disc_of(self.S, t, v)
                        if r:
                            self.arg(call["args"][0], r, self.S[r], v)
                return
            if k == "struct":
                self.node(tree, key, t, v)
            else:
                self.gaps += 1
            return
        if tree["k"] == "composite":
            if k == "arr" and isinstance(v, list):
                if len(tree["elts"]) != len(v):
                    self.gaps += 1
                for el, x in zip(tree["elts"], v):
                    self.arg(el["v"], key, t["t"], x)
            elif k == "map" and isinstance(v, dict):
                for el in tree["elts"]:
                    try:
                        mk = json.loads(el["key"])
                    except ValueError:
                        self.gaps += 1
                        continue
                    if mk in v:
                        self.arg(el["v"], key, t["t"], v[mk])
                    else:
                        self.gaps += 1
            else:
                self.gaps += 1


def stage2(ctx, batch, exprs):
    """exprs: {eid: (pkg, text)} -> ({eid: record}, {eid: [diagnostics]}); compiles with per-expression attribution."""
    gen = batch.gen_dir
    d = os.path.join(gen, "rebuild")
    os.makedirs(d)
    shutil.copy(os.path.join(core.VERIF, "harness", "semdriver", "rebuild.go.txt"), os.path.join(d, "main.go"))
    fname = {}
    for i, (eid, (pkg, text)) in enumerate(sorted(exprs.items())):
        fn = "e_%06d" % i
        fname[fn] = eid
        # the standard library packages a %#v rendering may name (time.Date(...)) are imported when the text names them
        std = "".join('\t"%s"\n' % p_ for p_ in ("time",) if re.search(r"\b%s\." % p_, text))
        src = ("package main\n\nimport (\n%s\tcog \"%s/go/cog\"\n\t%s \"%s/go/%s\"\n)\n\nvar _ cog.BuildErrors\nvar _ = %s.New%sBuilder\n\n"
               "func init() {\n\texprs[%s] = func() (any, error) {\n\t\treturn %s.\n\t\t\tBuild()\n\t}\n}\n") % (
            std, bc.MODULE, pkg, bc.MODULE, pkg, pkg, "Root", json.dumps(eid), text)
        open(os.path.join(d, fn + ".go"), "w").write(src)
    bad = collections.defaultdict(list)
    binp = os.path.join(gen, "rebuild-bin")
    for attempt in range(4):
        p = subprocess.run(["go", "build", "-gcflags=-e", "-o", binp, "./rebuild"], cwd=gen, env=ctx.goenv(), capture_output=True, text=True)
        if p.returncode == 0:
            break
        hit = False
        for line in (p.stdout + p.stderr).splitlines():
            m = _EDIAG.match(line.strip())
            if m and m.group(2) in fname:
                bad[fname[m.group(2)]].append(m.group(5))
                hit = True
        if not hit:
            core.log((p.stdout + p.stderr)[-3000:])
            raise core.Inconclusive("stage 2 does not build and no diagnostic names an expression file")
        for fn, eid in list(fname.items()):
            if eid in bad and os.path.exists(os.path.join(d, fn + ".go")):
                os.remove(os.path.join(d, fn + ".go"))
    else:
        raise core.Inconclusive("stage 2 still does not build after removing the failing expressions")
    out = subprocess.run([binp], capture_output=True, timeout=1800)
    if out.returncode != 0:
        core.log(out.stderr.decode(errors="replace")[-2000:])
        raise core.Inconclusive("stage 2 binary exited with %d" % out.returncode)
    res = {}
    for line in out.stdout.decode().splitlines():
        r = json.loads(line)
        res[r["id"]] = r
    return res, bad


def run(ctx):
    replay = None
    ids, formats = None, bc.FORMATS
    if ctx.replay:
        replay = json.load(open(ctx.replay))["replay"]
        ids, formats = [replay["entry_id"]], (replay["format"],)
    batch = bc.run_bbatch(ctx, ids=ids, formats=formats, converters=True, python=False)
    if replay and batch.cat[replay["entry_id"]]["schema"] != replay["schema"]:
        raise core.Inconclusive("the catalogue changed: entry %d is no longer the replay's schema" % replay["entry_id"])
    vals, _ = bc.emit_values(ctx, batch.ids)
    n_values = sum(len(v) for v in vals.values())
    n_pairs = 0
    pair_unit = {}
    if not ctx.replay:
        # root values differing from the base document at TWO members, on one input format per entry: thorough for every entry,
        # quick for the entries whose root has at most six members
        pair_ids = [i for i in batch.ids if not ctx.quick() or len(batch.cat[i]["S"]["Root"]["fields"]) <= 6]
        pairs, _ = bc.emit_values(ctx, pair_ids, mode="pairs")
        for eid, lst in pairs.items():
            have = {sc.dumps(v["py"]) for v in vals[eid] if v["key"] == "Root"}
            for v in lst:
                if sc.dumps(v["py"]) in have:
                    continue
                v["n"] += 100000
                v["pair"] = True
                vals[eid].append(v)
                n_pairs += 1
        for eid in batch.ids:
            us = sorted([u for u in batch.units.values() if u["id"] == eid and u["status"] == "ok" and u["bind"].get("go")], key=lambda u: u["fmt"])
            if us:
                pair_unit[eid] = us[(ctx.seed + eid) % len(us)]["pkg"]
    if replay:
        vals = {replay["entry_id"]: [{"id": replay["entry_id"], "key": replay["key"], "py": replay["value"], "n": 0}]}
    D, dproblems = bc.real_defaults(ctx, batch, langs=("go",))
    # ---- stage 1: run the generated converters
    cmds, index = [], {}
    units = [u for u in batch.units.values() if u["status"] == "ok" and u["bind"].get("go") and (u["pkg"], "go") in D]
    if ctx.quick() and not replay:
        # quick: every value, one input format per entry (rotating with the seed); thorough: all three
        keep = []
        for eid in batch.ids:
            us = sorted([u for u in units if u["id"] == eid], key=lambda u: u["fmt"])
            if us:
                keep.append(us[(ctx.seed + eid) % len(us)])
        units = keep
    for u in units:
        entry = batch.cat[u["id"]]
        pl = bc.Planner(entry, u, "go", u["bind"]["go"])
        for v in vals.get(u["id"], []):
            if v["key"] not in u["bind"]["go"]:
                continue
            if any(r["k"] == "flavour" and r["obj"] == v["key"] for r in entry["rules"]):
                # the object has no builder of its own, only flavours chosen by their constructor constants: its values
                # are converted where they occur (inside the root's values)
                batch.stats["standalone_values_of_flavoured_types"] += 1
                continue
            if v.get("pair") and pair_unit.get(u["id"]) != u["pkg"]:
                continue
            g = u["glue"][bc.norm_name(u["bind"]["go"][v["key"]]["ir"]["name"])]
            if not g.get("converter"):
                batch.stats["no_converter"] += 1
                continue
            cid = "%s/%s/%d" % (u["pkg"], v["key"], v["n"])
            cmds.append({"op": "convert", "id": cid, "pkg": u["pkg"], "type": g["name"], "doc": v["py"]})
            index[cid] = (u, v)
    if not cmds:
        raise core.Inconclusive("no converter could be run")
    res1 = bc.run_go(ctx, batch, cmds, "convert")
    # ---- parse the texts (AST), stage 2: compile and execute them
    d = ctx.sub("c14-parse")
    inp, outp = os.path.join(d, "in.ndjson"), os.path.join(d, "out.ndjson")
    skipped = collections.Counter()
    glue_problems = []
    texts = {}
    with open(inp, "w") as f:
        for cid, r in res1.items():
            if r.get("glue_err"):
                glue_problems.append("%s: %s" % (cid, r["glue_err"]))
                continue
            if r.get("panic"):
                # the generated converter itself crashes on this value: no text at all
                u_, v_ = index[cid]
                e_ = batch.cat[u_["id"]]
                cls = "unset-constructor-argument" if has_unset_ctor(e_["S"], e_["B"], v_["key"], e_["S"][v_["key"]], v_["py"]) else "other"
                ctx.fail("C14/go/compiles/converter-panics:%s" % cls,
                         "the generated %s converter panics on %s: %s" % (v_["key"], sc.dumps(v_["py"]), r["panic"]),
                         {"entry_id": u_["id"], "entry": e_["name"], "format": u_["fmt"], "schema": e_["schema"], "schema_text": u_["text"],
                          "veneers": u_.get("veneers"), "key": v_["key"], "value": v_["py"], "panic": r["panic"]})
                skipped["converter-panicked"] += 1
                continue
            if r.get("err"):
                skipped["value-not-decodable-into-the-go-type"] += 1
                continue
            texts[cid] = r["text"]
            f.write(json.dumps({"id": cid, "text": r["text"]}) + "\n")
    ctx.run_worker(["c14-parse"], stdin_path=inp, stdout_path=outp)
    trees, parse_err = {}, {}
    for line in open(outp):
        r = json.loads(line)
        if r["ok"]:
            trees[r["id"]] = r["tree"]
        else:
            parse_err[r["id"]] = r["err"]
    t0 = time.time()
    res2, compile_bad = stage2(ctx, batch, {cid: (index[cid][0]["pkg"], texts[cid]) for cid in trees})
    batch.timing["stage2_s"] = round(time.time() - t0, 2)
    # ---- judge + trace records
    tdir = ctx.sub("trace-c14")
    tpath = os.path.join(tdir, "trace.ndjson")
    tf = open(tpath, "w")
    entries_idx, entries, defaults_idx, defaults = {}, [], {}, []
    records = []    # (kind, cid, violated, info)
    per = collections.Counter()
    gaps = 0
    samples = []

    def ei_di(u, entry):
        if u["id"] not in entries_idx:
            entries.append({"schema": entry["schema"], "builders": entry["builders"]})
            entries_idx[u["id"]] = len(entries)
        dk = u["pkg"]
        if dk not in defaults_idx:
            defaults.append([{"key": k, "obj": sc.py_to_jv(x)} for k, x in sorted(D[(u["pkg"], "go")].items())])
            defaults_idx[dk] = len(defaults)
        return entries_idx[u["id"]], defaults_idx[dk]

    for cid in sorted(texts):
        u, v = index[cid]
        entry = batch.cat[u["id"]]
        S = entry["S"]
        Dr = D[(u["pkg"], "go")]
        key = v["key"]
        t = S[key]
        vgo = res1[cid]["enc"]
        base = {"entry_id": u["id"], "entry": entry["name"], "format": u["fmt"], "schema": entry["schema"], "schema_text": u["text"],
                "veneers": u.get("veneers"), "key": key, "value": v["py"], "value_as_go_encodes_it": vgo, "converter_output": texts[cid],
                "default_object": Dr[key]}
        per["values"] += 1
        # compiles
        if cid in parse_err or cid in compile_bad:
            msg = parse_err.get(cid) or compile_bad[cid][0]
            cls = "syntax-error" if cid in parse_err else diag_class(msg)
            ctx.fail("C14/go/compiles/%s@%s" % (cls, entry["name"]),
                     "the converter output for %s is not a valid Go expression over the builder API: %s" % (sc.dumps(v["py"]), msg),
                     dict(base, diagnostics=[msg] + compile_bad.get(cid, [])[:5]))
            per["compiles:failed"] += 1
            continue
        per["compiles"] += 1
        r2 = res2.get(cid)
        if r2 is None:
            raise core.Inconclusive("stage 2 did not report expression %s" % cid)
        try:
            ei, di = ei_di(u, entry)
            has_r = r2.get("enc") is not None and not r2.get("panic") and r2.get("err") is None
            rebuilt = r2.get("enc") if has_r else None
            rec = {"kind": "conv", "ei": ei, "di": di, "key": key, "v": sc.py_to_jv(vgo), "hasR": bool(has_r),
                   "r": sc.py_to_jv(rebuilt) if has_r else {"j": "none"}}
        except sc.NotInUniverse:
            skipped["outside-number-universe"] += 1
            continue
        violated = set()
        if not has_r:
            violated.add("NoObject")
        else:
            diff = [n for n in differs(t, Dr[key], vgo) if not bc.same_obj(rebuilt.get(n, bc.ABSENT), vgo.get(n, bc.ABSENT))]
            if diff:
                violated.add("Rebuild")
        tf.write(json.dumps(rec, separators=(",", ":")) + "\n")
        records.append(("conv", cid, violated))
        per["rebuilds"] += 1
        per["rebuilds:fields-differing-from-default"] += len(differs(t, Dr[key], vgo))
        no_object = None
        if "NoObject" in violated:
            # reported after the call chains were looked at: when a needed option is missing, THAT is the finding (the object
            # then keeps a default that does not validate); a build error with every needed option present is its own class
            no_object = ("C14/go/rebuilds/%s@%s" % ("panic" if r2.get("panic") else "build-error", entry["name"]),
                         "executing the converter output for %s does not build an object: %s" % (sc.dumps(vgo), r2.get("panic") or r2.get("err")),
                         dict(base, stage2=r2))
        elif "Rebuild" in violated:
            n = diff[0]
            cls = leaf_class(S, t, vgo, rebuilt, n)
            if what_added(cls) and has_unset_ctor(S, entry["B"], key, t, vgo):
                cls += "/unset-constructor-argument"     # a constructor always sets what it takes: an unset optional member cannot be kept unset
            owners = [o for o in entry["B"][key]["opts"] if any(a["path"][0] == n for a in o["asgs"])]
            if owners and all(len([a_ for a_ in o["asgs"] if a_["src"] > 0]) > 1 for o in owners):
                cls += "/via-multi-argument-option"
            ctx.fail("C14/go/rebuilds/%s" % cls,
                     "value %s: the rebuilt object %s differs at field %s (default %s)" % (sc.dumps(vgo), sc.dumps(rebuilt), n, sc.dumps(Dr[key])),
                     dict(base, rebuilt=rebuilt, differing_fields=diff))
        elif len(samples) < 3 and (zlib.crc32(cid.encode()) + ctx.seed) % 37 == 0:
            samples.append({"package": u["pkg"], "entry": entry["name"], "type": key, "value": vgo, "converter_output": texts[cid], "rebuilt": rebuilt})
        # exactly once: every call chain of the expression against the value it stands for
        w = Walker(entry, u)
        w.node(trees[cid], key, t, vgo)
        gaps += w.gaps
        fails_before = len(ctx.failures)
        for nkey, nt, nv, counts, unknown, flavour in w.nodes:
            b = entry["B"][nkey]
            Dn, ndi = Dr, di
            if flavour:
                fk = "%s@%s" % (nkey, flavour)
                if fk not in Dr:
                    skipped["flavour-default-not-obtainable"] += 1
                    continue
                # the chain uses another builder of the same object: ITS freshly constructed object is the default
                Dn = dict(Dr)
                Dn[nkey] = Dr[fk]
                dk = (u["pkg"], nkey, flavour)
                if dk not in defaults_idx:
                    defaults.append([{"key": k, "obj": sc.py_to_jv(x)} for k, x in sorted(Dn.items())])
                    defaults_idx[dk] = len(defaults)
                ndi = defaults_idx[dk]
                per["exactly-once:flavour-chains"] += 1
            try:
                rec = {"kind": "node", "ei": ei, "di": ndi, "key": nkey, "v": sc.py_to_jv(nv),
                       "counts": [{"n": k, "c": c} for k, c in sorted(counts.items())]}
            except sc.NotInUniverse:
                continue
            nviol = set()
            notonce = []
            for o in needed_opts(S, nt, Dn, nkey, b, nv):
                if group_count(b, counts, o) != want(S, nkey, nt, o, nv):
                    notonce.append(o)
            ctor_bad = counts["#ctor"] != len(b["ctor"]["args"])
            if notonce or ctor_bad:
                nviol.add("Once")
            tf.write(json.dumps(rec, separators=(",", ":")) + "\n")
            records.append(("node", cid, nviol))
            per["exactly-once:chains"] += 1
            per["exactly-once:needed-options"] += len(needed_opts(S, nt, Dn, nkey, b, nv))
            if len(b["ctor"]["args"]):
                per["exactly-once:constructor-arguments"] += 1
            for o in needed_opts(S, nt, Dn, nkey, b, nv):
                per["exactly-once:%s" % o["asgs"][0]["m"]] += 1
                if branch_of(S, nkey, nt, o):
                    per["exactly-once:branch-append"] += 1
                if len(o["asgs"][0]["path"]) > 1:
                    per["exactly-once:nested-path"] += 1
            if nkey != key:
                per["exactly-once:nested-chains"] += 1
            for o in notonce:
                a = o["asgs"][0]
                _, ft = bc.type_at(S, nkey, nt, a["path"])
                c, wnt = group_count(b, counts, o), want(S, nkey, nt, o, nv)
                rel = "missing" if c < wnt else "repeated"
                cls = "%s:%s@%s/%s:%s" % (rel, a["m"], "field" if len(a["path"]) == 1 else "nested-path", arg_kind(S, ft),
                                          value_feature(at_path(nv, a["path"])))
                if len([a_ for a_ in o["asgs"] if a_["src"] > 0]) > 1:
                    absent = [a2["path"][-1] for a2 in o["asgs"] if bc.canon(at_path(nv, a2["path"])) is None]
                    cls = "%s:multi-argument-option%s" % (rel, ":some-target-absent" if absent else "")
                ctx.fail("C14/go/exactly-once/%s" % cls,
                         "value %s of %s: option %s appears %d time(s) in the converter output, needed %d" % (sc.dumps(nv), nkey, o["name"], c, wnt),
                         dict(base, chain_of=nkey, chain_value=nv, option=o["name"], count=c, needed=wnt, counts=dict(counts)))
            if ctor_bad:
                ctx.fail("C14/go/exactly-once/constructor-arguments",
                         "value %s of %s: the constructor is called with %d argument(s), the builder takes %d" % (sc.dumps(nv), nkey, counts["#ctor"], len(b["ctor"]["args"])),
                         dict(base, chain_of=nkey, counts=dict(counts)))
        if no_object is not None and len(ctx.failures) == fails_before:
            ctx.fail(*no_object)
    tf.close()
    if glue_problems:
        bc.soft_inconclusive(ctx, "converter driver problems: %s" % glue_problems[:3])
    if not records:
        raise core.Inconclusive("no converter output reached stage 2")
    # ---- TLC recomputes both clauses
    ep, dp = os.path.join(tdir, "entries.json"), os.path.join(tdir, "defaults.json")
    json.dump(entries, open(ep, "w"))
    json.dump(defaults, open(dp, "w"))
    tr = ctx.run_tlc("BuilderTrace", "BuilderTrace.cfg", workers=1, timeout=3000,
                     files={"trace.ndjson": tpath, "entries.json": ep, "defaults.json": dp}, constants={"Strict": "FALSE"})
    consumed = None
    for line in open(tr["out"], errors="replace"):
        if line.startswith('<<"CONSUMED", '):
            consumed = int(line[len('<<"CONSUMED", '):].split(">>")[0])
    if consumed != len(records):
        raise core.Inconclusive("BuilderTrace consumed %s of %d records" % (consumed, len(records)))
    tlc_viol = {f["l"] - 1: set(f["violated"]) for f in core.tagged_lines(tr["out"], "FAIL")}
    agree = 0
    for i, (kind, cid, violated) in enumerate(records):
        tv = tlc_viol.get(i, set())
        if tv != violated:
            bc.soft_inconclusive(ctx, "TLC and the python join disagree on %s record of %s: TLC %s, python %s" % (kind, cid, sorted(tv), sorted(violated)))
        if not tv:
            agree += 1
    if not replay:
        need = ["compiles", "rebuilds", "rebuilds:fields-differing-from-default", "exactly-once:chains", "exactly-once:needed-options",
                "exactly-once:nested-chains", "exactly-once:constructor-arguments", "exactly-once:direct", "exactly-once:append",
                "exactly-once:index", "exactly-once:nested-path", "exactly-once:flavour-chains", "exactly-once:branch-append"]
        vac = [k for k in need if per[k] == 0]
        if vac:
            bc.soft_inconclusive(ctx, "vacuous clauses (never exercised): %s" % vac)
    binding = None
    if not replay:
      try:
        binding = selftest(ctx, records, tpath=None, entries=entries, defaults=defaults, tr_dir=tr["dir"])
      except core.Inconclusive as e:
        bc.soft_inconclusive(ctx, str(e))
    status = collections.Counter(u["status"] for u in batch.units.values())
    not_exec = collections.Counter()
    for u in batch.units.values():
        if u["status"] != "ok":
            not_exec["%s/%s: %s" % (u["fmt"], u["status"], (u.get("why") or "; ".join(u.get("diagnostics", [])))[:160])] += 1
        for lang, e in (u.get("bind_err") or {}).items():
            not_exec["%s/%s bind: %s" % (u["fmt"], lang, e[:160])] += 1
    cov = {
        "states": sum(r["distinct"] for r in ctx.tlc_runs),
        "transitions": sum(r["generated"] for r in ctx.tlc_runs),
        "traces_validated_against_impl": agree,
        "real_records_validated_by_tlc_trace_spec": len(records),
        "exhaustive": not ctx.quick(),
        "evaluations": per["values"],
        "distinct_nontrivial": per["rebuilds"],
        "rule": "one evaluation = one (catalogue entry, input format, builder type, value): the value is decoded into the generated Go type, the "
                "generated converter is run, its output is compiled inside `<text>.Build()` and executed; non-trivial = the expression compiled "
                "and was executed. TLC states = values of BuilderMC (Mode values) plus one state per trace record of BuilderTrace",
        "tlc_values": n_values, "tlc_two_place_values": n_pairs, "units_used": sorted(u["pkg"] for u in units),
        "entries": [batch.cat[i]["name"] for i in batch.ids],
        "units": dict(status), "units_not_observed": dict(not_exec), "values_skipped": dict(skipped),
        "chain_alignment_gaps": gaps, "per_clause": dict(per), "timing": batch.timing, "binding_selftest": binding,
        "default_objects_not_obtainable": [list(p) for p in dproblems][:10],
        "samples": samples or [{"note": "no sample drawn"}],
        "checker_cmd": "tlc BuilderMC (index, values); worker c09-gen, c09-glue; go build; bdriver convert; worker c14-parse; go build ./rebuild; tlc BuilderTrace",
    }
    assumptions = [
        "bounded, sampled universe: the builder catalogue of spec/BuilderMC.tla; values = the documents of Semantics!Docs the schema accepts "
        "(base document and its one-place variants, with all and with no optional members) for the root and every named struct type; "
        "thorough tier: also root values differing from the base document at two members (one input format per entry)",
        "a value is what json.Unmarshal makes of the document in the generated Go type (compared through its own json.Marshal); objects are "
        "compared on encoded JSON where an absent / null collection and an empty one are one value; `differs from the builder's defaults` is "
        "decided against the REAL freshly constructed builder's object, field by field of the built type",
        "an option is needed when one of its target paths differs from the default and no constructor argument already sets it; an append / "
        "index option is needed once per element / entry; Go's intermediate struct for a union (one option per branch) is looked through",
        "packages that cog cannot generate or that do not compile are excluded and counted (units_not_observed)",
    ]
    # IR half of C14 (ConverterIR.tla, ConverterMC.tla): the real ConverterGenerator.FromBuilder judged by TLC
    from checks import converterir_part
    part = converterir_part.run_part(ctx)
    for sig, what, replay, key in part["fails"]:
        ctx.fail(sig, what, replay, key=key)
    cov.update(part["coverage"])
    return ctx.finish("exploration", cov, assumptions + batch.assumptions)


def _inline_type(S, key):
    owner, field = key.rsplit(".", 1)
    t = S[owner] if owner in S else _inline_type(S, owner)
    return bc.field_of(t, field)["t"]


def selftest(ctx, records, tpath, entries, defaults, tr_dir):
    """a genuine `conv` record passes Strict mode; with one member of the recorded rebuilt object removed it is rejected"""
    lines = [json.loads(x) for x in open(os.path.join(tr_dir, "trace.ndjson"))]
    pick = None
    for i, (kind, cid, violated) in enumerate(records):
        if kind == "conv" and not violated and lines[i]["hasR"] and lines[i]["r"]["j"] == "obj":
            Dk = {d["key"]: d["obj"] for d in defaults[lines[i]["di"] - 1]}[lines[i]["key"]]
            dflt = sc.jv_to_py(Dk)
            r = sc.jv_to_py(lines[i]["r"])
            cand = [k for k in r if not bc.same_obj(r[k], dflt.get(k, bc.ABSENT))]
            if cand:
                pick = (lines[i], cand[0])
                if (i + ctx.seed) % 7 == 0:
                    break
    if pick is None:
        raise core.Inconclusive("binding self-test: no clean conv record with a non-default field")
    rec, field = pick
    res = {}
    for name in ("good", "bad"):
        r2 = json.loads(json.dumps(rec))
        if name == "bad":
            r2["r"]["ps"] = [p for p in r2["r"]["ps"] if p["k"] != field]
        d = ctx.sub("selftest-" + name)
        tp, ep, dp = os.path.join(d, "trace.ndjson"), os.path.join(d, "entries.json"), os.path.join(d, "defaults.json")
        open(tp, "w").write(json.dumps(r2) + "\n")
        json.dump(entries, open(ep, "w"))
        json.dump(defaults, open(dp, "w"))
        r = ctx.run_tlc("BuilderTrace", "BuilderTrace.cfg", workers=1, timeout=300,
                        files={"trace.ndjson": tp, "entries.json": ep, "defaults.json": dp}, constants={"Strict": "TRUE"}, allow_violation=True)
        res[name] = r["violated"]
    if res["good"] or not res["bad"]:
        raise core.Inconclusive("binding self-test failed: good rejected=%s, corrupted rejected=%s" % (res["good"], res["bad"]))
    return "BuilderTrace(Strict) accepts a genuine conv record and rejects it once the non-default field %s is removed from the recorded rebuilt object" % field
