"""Go + Python batch on top of checks/semantics_common.py, shared by C10 and C11 (DESIGN 4.5, 6 "C10", "C11").

  TLC SemanticsDefaultsMC (index)     -> catalogue of schemas declaring defaults (ids 10001..), merged with SemanticsMC's
  TLC SemanticsDefaultsMC (cases)     -> documents + expectations for ANY id (C11)
  TLC SemanticsDefaultsMC (defaults)  -> DefaultDoc / FullDefault per (schema, struct object) (C10)
  sc.generate(extra_languages=PY)     -> the real pipeline writes Go AND Python (generate_json_marshaller: true)
  sc.build                            -> one go build, one reflection driver (ops doc / new / newobj)
  harness/pydriver/driver.py          -> ONE /usr/bin/python3 process importing every generated models module
  SemanticsPyTrace.tla                -> TLC recomputes DefaultDoc / Norm / JSON-equality on the recorded real outcomes
"""
import collections
import json
import os
import re
import subprocess
import time

from vlib import core
from checks import semantics_common as sc

PY_LANG = "    - python:\n        generate_json_marshaller: true\n"
PYTHON = "/usr/bin/python3"
ID_BASE = 10000
MC = ("SemanticsDefaultsMC", "SemanticsDefaultsMC.cfg")


# ----------------------------------------------------------------------------------------------
# TLC: catalogue, cases, defaults
# ----------------------------------------------------------------------------------------------
def _ids(ids):
    return "{%s}" % ",".join(str(i) for i in sorted(ids))


def load_def_catalogue(ctx):
    r = ctx.run_tlc(MC[0], MC[1], workers=4, timeout=300, constants={"Mode": '"index"', "Ids": "{}", "Fuel": 3})
    cat = {o["id"]: o for o in core.tagged_lines(r["out"], "INDEX")}
    if len(cat) != r["distinct"]:
        raise core.Inconclusive("SemanticsDefaultsMC index: %d INDEX lines for %d states" % (len(cat), r["distinct"]))
    os.remove(r["out"])
    return cat


def emit_cases(ctx, ids):
    r = ctx.run_tlc(MC[0], MC[1], workers=8, timeout=1500, constants={"Mode": '"cases"', "Ids": _ids(ids), "Fuel": 3})
    cases = collections.defaultdict(list)
    n = 0
    for c in core.tagged_lines(r["out"], "CASE"):
        cases[c["id"]].append(c)
        n += 1
    if n != r["distinct"]:
        raise core.Inconclusive("SemanticsDefaultsMC cases: %d CASE lines for %d states" % (n, r["distinct"]))
    os.remove(r["out"])
    for i in cases:
        cases[i].sort(key=lambda c: (c["f"] != "base", c["f"], c["p"], sc.dumps(c["doc"])))
        for k, c in enumerate(cases[i]):
            c["n"] = k
            c["py"] = sc.jv_to_py(c["doc"])
    return cases, r


def emit_defaults(ctx, ids):
    """{id: {object name: {"doc": DefaultDoc (python), "full": FullDefault or None}}}"""
    r = ctx.run_tlc(MC[0], MC[1], workers=4, timeout=600, constants={"Mode": '"defaults"', "Ids": _ids(ids), "Fuel": 3})
    out = collections.defaultdict(dict)
    n = 0
    for d in core.tagged_lines(r["out"], "DEFAULT"):
        out[d["id"]][d["obj"]] = {"doc": sc.jv_to_py(d["doc"]), "full": None if d["full"]["j"] == "none" else sc.jv_to_py(d["full"])}
        n += 1
    if n != r["distinct"]:
        raise core.Inconclusive("SemanticsDefaultsMC defaults: %d DEFAULT lines for %d states" % (n, r["distinct"]))
    os.remove(r["out"])
    return out, r


def run_batch(ctx, select, want_cases=False, want_defaults=False, formats=sc.FORMATS, go_flags=None, with_base=True):
    """select(cat) -> ids, over the union of both catalogues. Returns a sc.Batch with .defaults / .py_* extras."""
    if ctx.worker is None:
        ctx.build_worker()
    b = sc.Batch()
    b.cat = dict(sc.load_catalogue(ctx)) if with_base else {}
    b.cat.update(load_def_catalogue(ctx))
    b.ids = sorted(select(b.cat))
    if not b.ids:
        raise core.Inconclusive("no schema selected")
    b.cases, b.defaults = {}, {}
    if want_cases:
        b.cases, b.tlc_cases = emit_cases(ctx, b.ids)
        missing = [i for i in b.ids if not b.cases.get(i)]
        if missing:
            raise core.Inconclusive("no documents for schemas %s" % missing[:5])
    if want_defaults:
        b.defaults, _ = emit_defaults(ctx, b.ids)
        missing = [i for i in b.ids if b.cat[i]["schema"]["root"] not in b.defaults.get(i, {})]
        if missing:
            raise core.Inconclusive("no DefaultDoc for schemas %s" % missing[:5])
    sc.generate(ctx, b, go_flags, (PY_LANG,), formats)
    try:
        sc.build(ctx, b)
    except core.Inconclusive as e:
        # Python is judged on its own: Go that does not compile (C02) only removes the Go side (replay of a single unit)
        if "no generated package compiles" not in str(e):
            raise
        b.timing["build_s"] = 0.0
    import_python(ctx, b)
    core.log("batch: %d schemas, %d units: go %s, python %s; gen %.1fs build %.1fs" % (
        len(b.ids), len(b.units), dict(collections.Counter(u["status"] for u in b.units.values())),
        dict(collections.Counter(u.get("py", "absent") for u in b.units.values())), b.timing["generate_s"], b.timing["build_s"]))
    return b


# ----------------------------------------------------------------------------------------------
# the python driver
# ----------------------------------------------------------------------------------------------
def run_pydriver(ctx, batch, commands, name="py"):
    d = ctx.sub("pydrv-" + name)
    inp, out = os.path.join(d, "in.ndjson"), os.path.join(d, "out.ndjson")
    with open(inp, "w") as f:
        for c in commands:
            f.write(json.dumps(c, separators=(",", ":")) + "\n")
    t0 = time.time()
    env = {"PATH": "/usr/bin:/bin", "PYTHONDONTWRITEBYTECODE": "1", "PYTHONHASHSEED": "0", "LC_ALL": "C.UTF-8"}
    p = subprocess.run([PYTHON, "-S", "-E", os.path.join(core.VERIF, "harness", "pydriver", "driver.py"), os.path.join(batch.gen_dir, "python")],
                       stdin=open(inp), stdout=open(out, "w"), stderr=subprocess.PIPE, timeout=3600, env=env)
    if p.returncode != 0:
        core.log(p.stderr.decode(errors="replace")[-3000:])
        raise core.Inconclusive("python driver exited with %d" % p.returncode)
    res = {}
    for line in open(out):
        r = json.loads(line)
        res[r["id"]] = r
    if len(res) != len(commands):
        raise core.Inconclusive("python driver answered %d of %d commands" % (len(res), len(commands)))
    batch.timing["pydriver_%s_s" % name] = round(time.time() - t0, 2)
    return res


def import_python(ctx, batch):
    """u["py"]: ok | not_executable (compile()/import fails: C02's business) | absent (nothing was generated)."""
    cmds = []
    for u in batch.units.values():
        u["py"] = "absent"
        if u["status"] in ("ok", "not_executable", "no_root_type", "generated") and \
                os.path.exists(os.path.join(batch.gen_dir, "python", "models", u["pkg"] + ".py")):
            cmds.append({"op": "import", "id": u["pkg"], "module": u["pkg"]})
    if not cmds:
        raise core.Inconclusive("no python module was generated")
    res = run_pydriver(ctx, batch, cmds, "import")
    for pkg, r in res.items():
        u = batch.units[pkg]
        if r["ok"]:
            u["py"] = "ok"
            u["py_classes"] = r["classes"]
        else:
            u["py"] = "not_executable"
            u["py_err"] = r.get("err", "")
            batch.stats["py_not_executable"] += 1
    if not any(u["py"] == "ok" for u in batch.units.values()):
        raise core.Inconclusive("no generated python module imports: %s" % [u.get("py_err") for u in batch.units.values()][:3])


# ----------------------------------------------------------------------------------------------
# python twins of SemanticsDefaults.tla (quick feedback and classification; TLC's verdict is compared with these)
# ----------------------------------------------------------------------------------------------
def is_const(S, f):
    return sc.resolve(S, f["t"])["k"] == "const"


def has_default(f):
    return f["def"]["j"] != "none"


def constrained(S, f):
    return has_default(f) or is_const(S, f)


def _field(t, name):
    for f in t["fields"]:
        if f["n"] == name:
            return f
    return None


def overlay(a, b):
    if not isinstance(a, dict) or not isinstance(b, dict):
        return b
    out = {}
    for k, v in a.items():
        out[k] = overlay(v, b[k]) if k in b else v
    for k, v in b.items():
        if k not in a:
            out[k] = v
    return out


def value_for(S, t, d):
    r = sc.resolve(S, t)
    if r["k"] == "struct" and isinstance(d, dict):
        ov = {}
        for k, v in d.items():
            f = _field(r, k)
            ov[k] = v if f is None else value_for(S, f["t"], v)
        return overlay(default_doc(S, r), ov)
    return d


def field_expect(S, f):
    if has_default(f):
        return value_for(S, f["t"], sc.jv_to_py(f["def"]))
    return sc.jv_to_py(sc.resolve(S, f["t"])["v"])


def default_doc(S, t):
    return {f["n"]: field_expect(S, f) for f in t["fields"] if constrained(S, f)}


def holds(e, r):
    if isinstance(e, dict):
        return isinstance(r, dict) and all(k in r and holds(v, r[k]) for k, v in e.items())
    return sc.json_equal(e, r)


def absent_ok(S, f):
    """reading rule: an optional field whose declared default is an empty collection may be absent"""
    return not f["req"] and field_expect(S, f) in ([], {})


def field_holds(S, f, v):
    return holds(field_expect(S, f), v[f["n"]]) if f["n"] in v else absent_ok(S, f)


_ABSENT = object()


def fail_paths(S, t, v, path=()):
    if not isinstance(v, dict):
        return {path}
    out = set()
    for f in t["fields"]:
        r = sc.resolve(S, f["t"])
        if constrained(S, f):
            if not field_holds(S, f, v):
                out.add(path + (f["n"],))
        elif r["k"] == "struct" and isinstance(v.get(f["n"]), dict):
            out |= fail_paths(S, r, v[f["n"]], path + (f["n"],))
    return out


def disagree_paths(S, t, a, b, path=()):
    if not isinstance(a, dict) or not isinstance(b, dict):
        return set() if sc.json_equal(a, b) else {path}
    out = set()
    for f in t["fields"]:
        r = sc.resolve(S, f["t"])
        ha, hb = f["n"] in a, f["n"] in b
        if constrained(S, f):
            dflt = field_expect(S, f) if absent_ok(S, f) else _ABSENT
            va = a[f["n"]] if ha else dflt
            vb = b[f["n"]] if hb else dflt
            if (va is _ABSENT) != (vb is _ABSENT) or (va is not _ABSENT and not sc.json_equal(va, vb)):
                out.add(path + (f["n"],))
        elif r["k"] == "struct" and ha and hb and isinstance(a[f["n"]], dict) and isinstance(b[f["n"]], dict):
            out |= disagree_paths(S, r, a[f["n"]], b[f["n"]], path + (f["n"],))
    return out


def field_at(S, t, path):
    """(field, containing struct, position tokens) of the constrained field a FailPaths path names."""
    toks = []
    f = None
    for i, seg in enumerate(path):
        t = sc.resolve(S, t)
        f = _field(t, seg)
        if f is None:
            return None, t, toks
        if i < len(path) - 1:
            toks.append("ref" if f["t"]["k"] == "ref" else "anon")
            t = f["t"]
    if f is not None and not f["req"]:
        toks.append("optional")
    return f, t, toks


_SCALAR_NAME = {"str": "string", "int": "integer", "num": "float", "bool": "bool", "time": "time", "enum": "enum", "ienum": "int-enum",
                "ref": "ref", "any": "any"}


def _jname(v):
    return "bool" if isinstance(v, bool) else "integer" if isinstance(v, int) else "float" if isinstance(v, float) else \
        "string" if isinstance(v, str) else "list" if isinstance(v, list) else "struct" if isinstance(v, dict) else "null"


def value_type(S, f):
    """The property's value types (bool, integer, float, string, enum member, list, struct with partial overrides,
    union branch) + constants; falsy defaults are kept apart (false / 0 / [] are the classic `if default` victims)."""
    r = sc.resolve(S, f["t"])
    k = r["k"]
    if k == "const":
        return "constant-" + _jname(sc.jv_to_py(r["v"]))
    d = sc.jv_to_py(f["def"])
    if k == "bool":
        return "bool" if d else "bool-false"
    if k == "int":
        return "integer-negative" if d < 0 else "integer" if d != 0 else "integer-zero"
    if k == "num":
        return "float-negative" if d < 0 else "float"
    if k in ("str", "time"):
        return "string"
    if k == "enum":
        return "enum-ref-member" if f["t"]["k"] == "ref" else "enum-member"
    if k == "ienum":
        return "int-enum-member"
    if k == "arr":
        return "list-empty" if d == [] else "list-" + _SCALAR_NAME.get(sc.resolve(S, r["t"])["k"], "other")
    if k == "struct":
        return "struct-override"
    if k == "union":
        return "union-branch-" + _jname(d)
    if k == "dunion":
        return "union-branch-struct"
    return "other-" + k


VALUE_TYPES = ("bool", "integer", "float", "string", "enum-member", "list-string", "struct-override", "union-branch-string")
# signature value types: falsy defaults and the branch kind of a scalar union are witnesses of the same value type
SIG_TYPE = {"bool-false": "bool", "integer-zero": "integer", "integer-negative": "integer", "float-negative": "float", "union-branch-string": "union-branch-scalar",
            "union-branch-integer": "union-branch-scalar", "union-branch-bool": "union-branch-scalar", "union-branch-float": "union-branch-scalar"}


def _is_num(x):
    return isinstance(x, (int, float)) and not isinstance(x, bool)


def _retyped(e, r):
    if isinstance(e, list) and isinstance(r, list) and len(e) == len(r):
        return any(_retyped(x, y) for x, y in zip(e, r))
    return _jname(e) != _jname(r) and not (_is_num(e) and _is_num(r))


def clause_of(S, f, expected, has, real):
    """`altered, re-typed or dropped`: dropped = the field is absent / null or holds what the language puts there when NO
    default is declared (zero value, first enum member, a value of another union branch); re-typed = the JSON type changed
    (3 -> "3"), also inside a list; altered = anything else."""
    if not has or real is None:
        return "dropped"
    r = sc.resolve(S, f["t"])
    if any(real == z and type(real) is type(z) for z in (0, 0.0, "", False, [], {})) and not sc.json_equal(expected, real):
        return "dropped"
    if r["k"] in ("enum", "ienum") and real == r["vals"][0] and expected != real:
        return "dropped"
    if r["k"] == "dunion" and isinstance(real, dict) and isinstance(expected, dict) and real.get(r["disc"]) != expected.get(r["disc"]):
        return "dropped"
    if _retyped(expected, real):
        return "retyped"
    return "altered"


def dig(v, path):
    for seg in path:
        if not isinstance(v, dict) or seg not in v:
            return False, None
        v = v[seg]
    return True, v


# ----------------------------------------------------------------------------------------------
# traces for SemanticsPyTrace.tla
# ----------------------------------------------------------------------------------------------
NONE = {"j": "none"}


class PyTraceWriter(sc.TraceWriter):
    def add_default(self, pkg, obj, go, py, skip=()):
        """go / py: (executable?, real JSON value or None). Returns False when a value is outside the number universe."""
        u = self.batch.units[pkg]
        try:
            gj = sc.py_to_jv(go[1]) if go[0] else NONE
            pj = sc.py_to_jv(py[1]) if py[0] else NONE
        except sc.NotInUniverse:
            return False
        self.add((pkg, obj), {"kind": "default", "si": self.si(u["id"]), "pkg": pkg, "obj": obj,
                              "judge": {"go": go[0], "py": py[0]}, "go": gj, "py": pj, "skip": [list(p) for p in skip]})
        return True

    def add_pyrt(self, pkg, c, accepted, py_ok, py_enc, has_go, go_enc):
        u = self.batch.units[pkg]
        try:
            pj = sc.py_to_jv(py_enc) if py_ok else NONE
            gj = sc.py_to_jv(go_enc) if has_go else NONE
        except sc.NotInUniverse:
            return False
        self.add((pkg, c["n"]), {"kind": "pyrt", "si": self.si(u["id"]), "pkg": pkg, "n": c["n"], "doc": c["doc"],
                                 "judge": {"accepted": accepted},
                                 "real": {"pyOK": py_ok, "py": pj, "hasGo": has_go, "go": gj}})
        return True

    def validate(self, strict=False, allow_violation=False):
        """Run SemanticsPyTrace; returns ({record index: set of tuples}, tlc run)."""
        self.f.close()
        sp = os.path.join(self.dir, "schemas.json")
        json.dump(self.schemas, open(sp, "w"))
        if not self.keys:
            return {}, None
        r = self.ctx.run_tlc("SemanticsPyTrace", "SemanticsPyTrace.cfg", workers=1, timeout=3000,
                             files={"trace.ndjson": self.path, "schemas.json": sp},
                             constants={"Strict": "TRUE" if strict else "FALSE"}, allow_violation=allow_violation)
        if strict:
            return None, r
        consumed = None
        for line in open(r["out"], errors="replace"):
            m = re.match(r'^<<"CONSUMED", (\d+)>>', line)
            if m:
                consumed = int(m.group(1))
        if consumed != len(self.keys):
            raise core.Inconclusive("SemanticsPyTrace consumed %s of %d records" % (consumed, len(self.keys)))
        out = {}
        for f in core.tagged_lines(r["out"], "FAIL"):
            out[f["l"] - 1] = {tuple(v) for v in f["violated"]}
        return out, r


def selftest(ctx, batch, make_good, corrupt, what):
    """DESIGN 7 rule 6: Strict mode accepts a genuine record and rejects it once one recorded field is corrupted."""
    res = {}
    for name in ("good", "bad"):
        tw = PyTraceWriter(ctx, batch, "selftest-" + name)
        make_good(tw) if name == "good" else corrupt(tw)
        _, r = tw.validate(strict=True, allow_violation=True)
        res[name] = r["violated"]
    if res["good"] or not res["bad"]:
        raise core.Inconclusive("binding self-test failed: genuine record rejected=%s, corrupted record rejected=%s" % (res["good"], res["bad"]))
    return what


def unit_problems(batch):
    """Units whose Go and/or Python could not be observed, with cog's own reason (C02 / C04 own these)."""
    out = collections.Counter()
    for u in batch.units.values():
        if u["status"] not in ("ok",):
            why = " ".join((u.get("why") or "; ".join(u.get("diagnostics", [])) or u.get("refval_err") or "").split()).replace(u["pkg"], "<pkg>")
            out["%s/go/%s: %s" % (u["fmt"], u["status"], why[:200])] += 1
        if u.get("py") == "not_executable":
            out["%s/python/not_executable: %s" % (u["fmt"], u.get("py_err", "")[:140])] += 1
    return dict(out)
