"""Go + Python batch on top of checks/semantics_common.py, shared by C10 and C11 (DESIGN 4.5, 6 "C10", "C11").

  TLC SemanticsDefaultsMC (index)     -> catalogue of schemas declaring defaults (ids 10001..), merged with SemanticsMC's
  TLC SemanticsDefaultsMC (cases)     -> documents + expectations for ANY id (C11)
  TLC SemanticsDefaultsMC (defaults)  -> DefaultDoc / FullDefault per (schema, struct object) (C10)
  sc.generate(extra_languages=PY)     -> the real pipeline writes Go AND Python (generate_json_marshaller: true)
  sc.build                            -> one go build, one reflection driver (ops doc / new / newobj)
  harness/pydriver/driver.py          -> ONE /usr/bin/python3 process importing every generated models module
  SemanticsPyTrace.tla                -> TLC recomputes DefaultDoc / Norm / JSON-equality on the recorded real outcomes
"""
import collections
import json
import os
import re
import subprocess
import time

from vlib import core
from checks import semantics_common as sc

PY_LANG = "    - python:\n        generate_json_marshaller: true\n"
# Go: only what C10 / C11 speak of - constructors and the JSON (un)marshallers. Equals / Validate / the strict decoder are other
# properties' subjects (C13, C08): generated with them, a defect that makes THEIR code not compile would remove the whole package and
# hide the constructor / wire behaviour of the same change (MUTATION_CLASSES 11, 15)
GO_FLAGS = {"generate_json_marshaller": True, "generate_strict_unmarshaller": False, "generate_equal": False, "generate_validate": False}
PYTHON = "/usr/bin/python3"
ID_BASE = 10000
MC = ("SemanticsDefaultsMC", "SemanticsDefaultsMC.cfg")
DEEP_MC = ("SemanticsDefaultsDeepMC", "SemanticsDefaultsDeepMC.cfg")      # thorough tier: deeper catalogue, more document families, generated schemas
DEEP_BASE, GEN_BASE = 20000, 30000
N_GENERATED = 250


# ----------------------------------------------------------------------------------------------
# tokens: values TLC cannot hold (non-ASCII / escaped strings, integers beyond its 32 bits) travel as tokens in the
# specification's universe and as the real value through cog, the generated code and the reference validators
# ----------------------------------------------------------------------------------------------
STR_TOKENS = {"@uni": "h\u00e9llo \u2713 \u65e5\u672c", "@esc": 'a"b\\c\nd\te',
              # backslashes that FORM escapes in a hand-written literal (\t \n \x41 \\ and a trailing one), both kinds of quotes
              "@bs": "C:" + chr(92) + "temp" + chr(92) + "new" + chr(92) + "x41" + chr(92) + chr(92) + "e'q'" + chr(92),
              # the same without the trailing backslash (the Go jenny's own hand-escaped literals do not survive that one: C02)
              "@bt": "a" + chr(92) + "tb" + chr(92) + "new" + chr(92) + "x41" + chr(92) + chr(92) + "e'q'"}
NUM_TOKENS = {7770001: 2 ** 53 + 1, 7770002: 2 ** 31 - 1, -7770002: -2 ** 31, 7770003: 2 ** 63 - 1, -7770003: -2 ** 63,
              7770004: 2 ** 64 - 1, 7770005: 2 ** 32 - 1, 7770006: 2 ** 24 + 1, 7770007: 3 * 10 ** 9, 7770008: 2 ** 53, -7770008: -2 ** 53}
_STR_BACK = {v: k for k, v in STR_TOKENS.items()}
_NUM_BACK = {v: k for k, v in NUM_TOKENS.items()}
TLC_MAX = 200000000      # 10 * value must stay below 2^31


def detok(x):
    """specification universe -> real value"""
    if isinstance(x, str):
        return STR_TOKENS.get(x, x)
    if isinstance(x, bool) or x is None:
        return x
    if isinstance(x, int):
        return NUM_TOKENS.get(x, x)
    if isinstance(x, list):
        return [detok(e) for e in x]
    if isinstance(x, dict):
        return {detok(k): detok(v) for k, v in x.items()}
    return x


def tok(x):
    """real value -> specification universe; a number TLC cannot hold and that is no known token becomes a stand-in token
    derived from its value (it can then only ever be found different from an expectation)"""
    if isinstance(x, str):
        return _STR_BACK.get(x, x)
    if isinstance(x, bool) or x is None:
        return x
    if isinstance(x, (int, float)):
        exact = x if isinstance(x, int) else int(x) if x.is_integer() else None      # the float's exact integer value
        if exact in _NUM_BACK:
            return _NUM_BACK[exact]
        if abs(x) >= TLC_MAX:
            return (7780000 + int(abs(x)) % 9973) * (1 if x > 0 else -1)
        return x
    if isinstance(x, list):
        return [tok(e) for e in x]
    if isinstance(x, dict):
        return {tok(k): tok(v) for k, v in x.items()}
    return x



# ----------------------------------------------------------------------------------------------
# TLC: catalogue, cases, defaults
# ----------------------------------------------------------------------------------------------
def _ids(ids):
    return "{%s}" % ",".join(str(i) for i in sorted(ids))


def load_def_catalogue(ctx):
    r = ctx.run_tlc(MC[0], MC[1], workers=4, timeout=300, constants={"Mode": '"index"', "Ids": "{}", "Fuel": 3})
    cat = {o["id"]: o for o in core.tagged_lines(r["out"], "INDEX")}
    if len(cat) != r["distinct"]:
        raise core.Inconclusive("SemanticsDefaultsMC index: %d INDEX lines for %d states" % (len(cat), r["distinct"]))
    os.remove(r["out"])
    return cat


def emit_cases(ctx, ids):
    r = ctx.run_tlc(MC[0], MC[1], workers=8, timeout=1500, constants={"Mode": '"cases"', "Ids": _ids(ids), "Fuel": 3})
    cases = collections.defaultdict(list)
    n = 0
    for c in core.tagged_lines(r["out"], "CASE"):
        cases[c["id"]].append(c)
        n += 1
    if n != r["distinct"]:
        raise core.Inconclusive("SemanticsDefaultsMC cases: %d CASE lines for %d states" % (n, r["distinct"]))
    os.remove(r["out"])
    for i in cases:
        cases[i].sort(key=lambda c: (c["f"] != "base", c["f"], c["p"], sc.dumps(c["doc"])))
        for k, c in enumerate(cases[i]):
            c["n"] = k
            c["py"] = sc.jv_to_py(c["doc"])
    return cases, r


def emit_defaults(ctx, ids):
    """{id: {object name: {"doc": DefaultDoc (python), "full": FullDefault or None}}}"""
    r = ctx.run_tlc(MC[0], MC[1], workers=4, timeout=600, constants={"Mode": '"defaults"', "Ids": _ids(ids), "Fuel": 3})
    out = collections.defaultdict(dict)
    n = 0
    for d in core.tagged_lines(r["out"], "DEFAULT"):
        out[d["id"]][d["obj"]] = {"doc": sc.jv_to_py(d["doc"]), "full": None if d["full"]["j"] == "none" else sc.jv_to_py(d["full"])}
        n += 1
    if n != r["distinct"]:
        raise core.Inconclusive("SemanticsDefaultsMC defaults: %d DEFAULT lines for %d states" % (n, r["distinct"]))
    os.remove(r["out"])
    return out, r


# ----------------------------------------------------------------------------------------------
# thorough tier: SemanticsDefaultsDeepMC (deep catalogue, Docs + ReKey + ReNum), SemanticsGenMC (seeded simulation)
# ----------------------------------------------------------------------------------------------
def load_deep_catalogue(ctx):
    r = ctx.run_tlc(DEEP_MC[0], DEEP_MC[1], workers=4, timeout=300, files={"gen_schemas.json": b"[]"},
                    constants={"Mode": '"index"', "Ids": "{}", "Fuel": 3, "Deep": "TRUE"})
    cat = {o["id"]: o for o in core.tagged_lines(r["out"], "INDEX")}
    if len(cat) != r["distinct"]:
        raise core.Inconclusive("SemanticsDefaultsDeepMC index: %d INDEX lines for %d states" % (len(cat), r["distinct"]))
    os.remove(r["out"])
    return cat


def generate_schemas(ctx, n=N_GENERATED):
    """Seeded random compositions 3..5 wrappers deep: one `tlc -simulate` run of SemanticsGenMC (seed = --seed); the distinct
    schemas it printed are sampled deterministically (every wrapper first, then in order of appearance)."""
    r = ctx.run_tlc("SemanticsGenMC", "SemanticsGenMC.cfg", workers=1, timeout=600, simulate="num=%d" % max(100, n // 2), depth=8)
    seen, entries = set(), []
    for e in core.tagged_lines(r["out"], "GEN"):
        key = sc.dumps(e["schema"])
        if key not in seen:
            seen.add(key)
            entries.append(e)
    os.remove(r["out"])
    if len(entries) < n // 2:
        raise core.Inconclusive("the simulation produced only %d distinct schemas" % len(entries))
    import random
    random.Random(ctx.seed).shuffle(entries)
    chosen, covered = [], set()
    for e in entries:                      # cover every wrapper / leaf at least once
        toks = set(e["leaf"].split(">"))
        if not toks <= covered:
            chosen.append(e)
            covered |= toks
    for e in entries:
        if len(chosen) >= n:
            break
        if e not in chosen:
            chosen.append(e)
    chosen = chosen[:n]
    return {GEN_BASE + i + 1: dict(e, id=GEN_BASE + i + 1) for i, e in enumerate(chosen)}, len(entries), r


def _deep_run(ctx, batch, mode, ids, workers, timeout):
    gen = [batch.cat[i] for i in sorted(batch.cat) if i > GEN_BASE]
    payload = json.dumps([{k: e[k] for k in ("schema", "leaf", "pos", "cons", "spell")} for e in gen]).encode()
    return ctx.run_tlc(DEEP_MC[0], DEEP_MC[1], workers=workers, timeout=timeout, files={"gen_schemas.json": payload},
                       constants={"Mode": '"%s"' % mode, "Ids": _ids(ids), "Fuel": 3, "Deep": "TRUE"})


def emit_cases_deep(ctx, batch, ids):
    r = _deep_run(ctx, batch, "cases", ids, 16, 3000)
    cases = collections.defaultdict(list)
    n = 0
    for c in core.tagged_lines(r["out"], "CASE"):
        cases[c["id"]].append(c)
        n += 1
    if n != r["distinct"]:
        raise core.Inconclusive("SemanticsDefaultsDeepMC cases: %d CASE lines for %d states" % (n, r["distinct"]))
    os.remove(r["out"])
    for i in cases:
        cases[i].sort(key=lambda c: (c["f"] != "base", c["f"], c["p"], sc.dumps(c["doc"])))
        for k, c in enumerate(cases[i]):
            c["n"] = k
            c["py"] = sc.jv_to_py(c["doc"])
    return cases, r


def emit_defaults_deep(ctx, batch, ids):
    r = _deep_run(ctx, batch, "defaults", ids, 8, 1200)
    out = collections.defaultdict(dict)
    n = 0
    for d in core.tagged_lines(r["out"], "DEFAULT"):
        out[d["id"]][d["obj"]] = {"doc": sc.jv_to_py(d["doc"]), "full": None if d["full"]["j"] == "none" else sc.jv_to_py(d["full"])}
        n += 1
    if n != r["distinct"]:
        raise core.Inconclusive("SemanticsDefaultsDeepMC defaults: %d DEFAULT lines for %d states" % (n, r["distinct"]))
    os.remove(r["out"])
    return out, r


# ---- schema TEXT post-processing: tokens -> real values, alternative spellings of numeric defaults
def _spell(x, spell):
    neg = "-" if x < 0 else ""
    a = abs(x)
    if spell == "dot0":
        return "%s%d.0" % (neg, a) if float(a).is_integer() else "%s%s0" % (neg, repr(float(a)))
    if spell == "exp":
        return "%s%de0" % (neg, a) if float(a).is_integer() else "%s%de-1" % (neg, round(a * 10))
    if spell == "negzero":
        if a != 0:
            raise sc.NotExpressible("negative zero of a non-zero number")
        return "-0" if isinstance(x, int) else "-0.0"
    raise ValueError(spell)


_JS_SCALAR = ("string", "integer", "number", "boolean")


def _json_text(text, spell, fmt="jsonschema"):
    doc = detok(json.loads(text))
    if spell == "plain":
        return json.dumps(doc, indent=1)
    if spell in ("const-first", "const-last"):
        if fmt == "openapi":
            raise sc.NotExpressible("openapi: no `const` to write T | constant with")
        hit = [0]

        def rewrite(node):
            if isinstance(node, dict):
                for k, v in list(node.items()):
                    if isinstance(v, dict) and "default" in v and v.get("type") in _JS_SCALAR and set(v) <= {"type", "default", "format"}:
                        branches = [{"const": v["default"]}, {k2: v[k2] for k2 in v if k2 != "default"}]
                        node[k] = {"anyOf": branches if spell == "const-first" else branches[::-1]}
                        hit[0] += 1
                    else:
                        rewrite(v)
            elif isinstance(node, list):
                for v in node:
                    rewrite(v)
        rewrite(doc)
        if not hit[0]:
            raise sc.NotExpressible("no scalar default to write as T | constant")
        return json.dumps(doc, indent=1)
    nums = []

    def mark(v):
        if isinstance(v, bool):
            return v
        if isinstance(v, (int, float)):
            nums.append(v)
            return "@@N%d@@" % (len(nums) - 1)
        if isinstance(v, list):
            return [mark(e) for e in v]
        if isinstance(v, dict):
            return {k: mark(e) for k, e in v.items()}
        return v

    def walk(node):
        if isinstance(node, dict):
            for k in list(node):
                if k in ("default", "const") or (k == "enum" and all(isinstance(e, (int, float)) and not isinstance(e, bool) for e in node[k])):
                    node[k] = mark(node[k])
                else:
                    walk(node[k])
        elif isinstance(node, list):
            for e in node:
                walk(e)
    walk(doc)
    out = json.dumps(doc, indent=1)
    for i, v in enumerate(nums):
        out = out.replace('"@@N%d@@"' % i, _spell(v, spell))
    return out


_CUE_FLOAT_INT_DEFAULT = re.compile(r"(float(?:32|64)\)?(?: \| null)? \| \*)(-?\d+)(?![\d.eE])")
_CUE_NUM = re.compile(r"-?\d+(?:\.\d+)?")


def _cue_text(text, spell):
    for t, real in STR_TOKENS.items():
        text = text.replace(json.dumps(t), json.dumps(real))
    for t, real in sorted(NUM_TOKENS.items()):          # negative tokens first: "-7770003" is one token, not minus 7770003
        text = re.sub(r"(?<![\w.])%s(?![\w.])" % re.escape(str(t)), str(real), text)
    # a nullable field with a default: the flat disjunction `T | null | *d` (cog rejects the parenthesised `(T | null) | *d` with
    # "unexpected node with kind '(null|T)'" - same CUE value, the flat one is the spelling it reads)
    text = re.sub(r"(?m)^(\s*\w+\??: )\((.+) \| null\) \| \*", r"\1\2 | null | *", text)
    # field labels that are not identifiers are quoted ("max-value", "a b", "1st")
    out_lines = []
    for ln in text.split("\n"):
        m = re.match(r"^(\t+)([^\t:\"#(\[{][^:]*?)(\??): ", ln)
        if m and not re.fullmatch(r"[A-Za-z_$][A-Za-z0-9_$]*", m.group(2)):
            ln = m.group(1) + json.dumps(m.group(2)) + m.group(3) + ": " + ln[m.end():]
        out_lines.append(ln)
    text = "\n".join(out_lines)
    # CUE tells 2 from 2.0: the default of a float-typed field is spelled as a float
    text = _CUE_FLOAT_INT_DEFAULT.sub(lambda m: m.group(1) + m.group(2) + ".0", text)
    if spell == "plain":
        return text
    lines = text.split("\n")
    hit = 0
    if spell in ("const-first", "const-last"):
        # `v: string | *"utc"`  ->  `v: "utc" | string` / `v: string | "utc"` (no default marker: the compiler pass makes it one)
        for i, ln in enumerate(lines):
            m = re.match(r"^(\s*\S+\??: )\(?([a-z0-9]+)\)? \| \*(.+)$", ln)
            if m:
                lines[i] = m.group(1) + ("%s | %s" % (m.group(3), m.group(2)) if spell == "const-first" else "%s | %s" % (m.group(2), m.group(3)))
                hit += 1
        if not hit:
            raise sc.NotExpressible("cue: no scalar default to write as T | constant")
        return "\n".join(lines)
    for i, ln in enumerate(lines):
        if " | *" not in ln:
            continue
        head, dflt = ln.rsplit(" | *", 1)
        is_float = "float" in head
        def sub(m):
            lit = m.group(0)
            v = float(lit) if "." in lit else int(lit)
            if not is_float:
                if spell != "negzero":
                    raise sc.NotExpressible("cue: an integer has one spelling")
                return _spell(v, spell)
            return _spell(float(v), spell)
        lines[i] = head + " | *" + _CUE_NUM.sub(sub, dflt)
        hit += 1
    if not hit:
        raise sc.NotExpressible("cue: no default to respell (constants are spelled as the type itself)")
    return "\n".join(lines)


def ref_validate(ctx, batch, items):
    """sc.ref_validate, with one adaptation: kin-openapi only resolves discriminator.mapping values written as references, cog only reads
    schema NAMES. The validator is handed the same document without the mapping (oneOf over branches whose discriminator values are
    disjoint accepts exactly the same documents)."""
    swapped = {}
    for pkg, _ in items:
        u = batch.units[pkg]
        if u["fmt"] == "openapi" and '"mapping"' in u.get("text", ""):
            doc = json.loads(u["text"])

            def strip(node):
                if isinstance(node, dict):
                    if isinstance(node.get("discriminator"), dict):
                        node["discriminator"].pop("mapping", None)
                    for v in node.values():
                        strip(v)
                elif isinstance(node, list):
                    for v in node:
                        strip(v)
            strip(doc)
            swapped[pkg] = u["text"]
            u["text"] = json.dumps(doc, indent=1)
    try:
        return sc.ref_validate(ctx, batch, items)
    finally:
        for pkg, text in swapped.items():
            batch.units[pkg]["text"] = text


def make_render_hook(batch):
    def hook(sid, fmt, pkg, text):
        spell = batch.cat[sid].get("spell", "plain")
        if fmt != "cue" and '"default": %d' % 7770004 in text:
            # JSON Schema / OpenAPI integers are signed 64-bit for cog (no unsigned type to declare): 2^64-1 is outside the field's type
            raise sc.NotExpressible("%s: no unsigned 64-bit integer type" % fmt)
        return _cue_text(text, spell) if fmt == "cue" else _json_text(text, spell, fmt)
    return hook


_PASSES = "passes:\n  - disjunction_with_constant_to_default: {}\n"


def make_yaml_hook(batch):
    """units whose default is spelled `T | constant` enable the (opt-in) compiler pass that reads it as a default"""
    def hook(sid, fmt, pkg, ytext):
        if batch.cat[sid].get("spell") not in ("const-first", "const-last"):
            return ytext
        path = os.path.join(batch.gen_dir, "_in", "c10-passes.yaml")
        if not os.path.exists(path):
            open(path, "w").write(_PASSES)
        return ytext + "transformations:\n  schemas:\n    - '%s'\n" % path
    return hook


def run_batch(ctx, select, want_cases=False, want_defaults=False, formats=sc.FORMATS, go_flags=None, with_base=True, deep=False,
              n_generated=N_GENERATED):
    """select(cat) -> ids, over the union of both catalogues. Returns a sc.Batch with .defaults / .py_* extras."""
    if ctx.worker is None:
        ctx.build_worker()
    b = sc.Batch()
    b.cat = dict(sc.load_catalogue(ctx)) if with_base else {}
    b.cat.update(load_def_catalogue(ctx))
    b.render_hook = make_render_hook(b)
    b.yaml_hook = make_yaml_hook(b)
    b.generated_pool = 0
    if deep:
        b.cat.update(load_deep_catalogue(ctx))
        gen, b.generated_pool, _ = generate_schemas(ctx, n_generated)
        b.cat.update(gen)
    b.ids = sorted(select(b.cat))
    if not b.ids:
        raise core.Inconclusive("no schema selected")
    b.cases, b.defaults = {}, {}
    if want_cases:
        b.cases, b.tlc_cases = emit_cases_deep(ctx, b, b.ids) if deep else emit_cases(ctx, b.ids)
        missing = [i for i in b.ids if not b.cases.get(i)]
        if missing:
            raise core.Inconclusive("no documents for schemas %s" % missing[:5])
    if want_defaults:
        b.defaults, _ = emit_defaults_deep(ctx, b, b.ids) if deep else emit_defaults(ctx, b.ids)
        missing = [i for i in b.ids if b.cat[i]["schema"]["root"] not in b.defaults.get(i, {})]
        if missing:
            raise core.Inconclusive("no DefaultDoc for schemas %s" % missing[:5])
    sc.generate(ctx, b, GO_FLAGS if go_flags is None else go_flags, (PY_LANG,), formats)
    try:
        sc.build(ctx, b)
    except core.Inconclusive as e:
        # Python is judged on its own: Go that does not compile (C02) only removes the Go side (replay of a single unit)
        # ... and so does a generated runtime / driver that does not build under a change: the Go side is lost, recorded, not fatal
        for u in b.units.values():
            if u["status"] in ("generated", "ok", "retry"):
                u["status"] = "not_executable"
                u.setdefault("diagnostics", []).append("go side unusable: %s" % e)
        b.go_unusable = str(e)
        b.driver = None
        b.timing.setdefault("build_s", 0.0)
    import_python(ctx, b)
    core.log("batch: %d schemas, %d units: go %s, python %s; gen %.1fs build %.1fs" % (
        len(b.ids), len(b.units), dict(collections.Counter(u["status"] for u in b.units.values())),
        dict(collections.Counter(u.get("py", "absent") for u in b.units.values())), b.timing["generate_s"], b.timing["build_s"]))
    return b


# ----------------------------------------------------------------------------------------------
# the python driver
# ----------------------------------------------------------------------------------------------
def run_pydriver(ctx, batch, commands, name="py"):
    d = ctx.sub("pydrv-" + name)
    inp, out = os.path.join(d, "in.ndjson"), os.path.join(d, "out.ndjson")
    with open(inp, "w") as f:
        for c in commands:
            f.write(json.dumps(c, separators=(",", ":")) + "\n")
    t0 = time.time()
    env = {"PATH": "/usr/bin:/bin", "PYTHONDONTWRITEBYTECODE": "1", "PYTHONHASHSEED": "0", "LC_ALL": "C.UTF-8"}
    p = subprocess.run([PYTHON, "-S", "-E", os.path.join(core.VERIF, "harness", "pydriver", "driver.py"), os.path.join(batch.gen_dir, "python")],
                       stdin=open(inp), stdout=open(out, "w"), stderr=subprocess.PIPE, timeout=3600, env=env)
    if p.returncode != 0:
        core.log(p.stderr.decode(errors="replace")[-3000:])
        raise core.Inconclusive("python driver exited with %d" % p.returncode)
    res = {}
    for line in open(out):
        r = json.loads(line)
        res[r["id"]] = r
    if len(res) != len(commands):
        raise core.Inconclusive("python driver answered %d of %d commands" % (len(res), len(commands)))
    batch.timing["pydriver_%s_s" % name] = round(time.time() - t0, 2)
    return res


def import_python(ctx, batch):
    """u["py"]: ok | not_executable (compile()/import fails: C02's business) | absent (nothing was generated)."""
    cmds = []
    for u in batch.units.values():
        u["py"] = "absent"
        if u["status"] in ("ok", "not_executable", "no_root_type", "generated") and \
                os.path.exists(os.path.join(batch.gen_dir, "python", "models", u["pkg"] + ".py")):
            cmds.append({"op": "import", "id": u["pkg"], "module": u["pkg"]})
    if not cmds:
        raise core.Inconclusive("no python module was generated")
    res = run_pydriver(ctx, batch, cmds, "import")
    for pkg, r in res.items():
        u = batch.units[pkg]
        if r["ok"]:
            u["py"] = "ok"
            u["py_classes"] = r["classes"]
        else:
            u["py"] = "not_executable"
            u["py_err"] = r.get("err", "")
            batch.stats["py_not_executable"] += 1
    if not any(u["py"] == "ok" for u in batch.units.values()):
        batch.python_unusable = "no generated python module imports: %s" % [u.get("py_err") for u in batch.units.values()][:3]


# ----------------------------------------------------------------------------------------------
# python twins of SemanticsDefaults.tla (quick feedback and classification; TLC's verdict is compared with these)
# ----------------------------------------------------------------------------------------------
def is_const(S, f):
    return sc.resolve(S, f["t"])["k"] == "const"


def has_default(f):
    return f["def"]["j"] != "none"


def constrained(S, f):
    return has_default(f) or is_const(S, f)


def _field(t, name):
    for f in t["fields"]:
        if f["n"] == name:
            return f
    return None


def overlay(a, b):
    if not isinstance(a, dict) or not isinstance(b, dict):
        return b
    out = {}
    for k, v in a.items():
        out[k] = overlay(v, b[k]) if k in b else v
    for k, v in b.items():
        if k not in a:
            out[k] = v
    return out


def value_for(S, t, d):
    r = sc.resolve(S, t)
    if r["k"] == "struct" and isinstance(d, dict):
        return overlay(default_doc(S, r), d)
    return d


def field_expect(S, f):
    if has_default(f):
        return value_for(S, f["t"], sc.jv_to_py(f["def"]))
    return sc.jv_to_py(sc.resolve(S, f["t"])["v"])


def default_doc(S, t):
    return {f["n"]: field_expect(S, f) for f in t["fields"] if constrained(S, f)}


def holds(e, r):
    if isinstance(e, dict):
        return isinstance(r, dict) and all(k in r and holds(v, r[k]) for k, v in e.items())
    return sc.json_equal(e, r)


def absent_ok(S, f):
    """reading rule: an optional field whose declared default is an empty collection may be absent"""
    return not f["req"] and (field_expect(S, f) in ([], {}) or (has_default(f) and sc.jv_to_py(f["def"]) in ([], {})))


def field_holds(S, f, v):
    return holds(field_expect(S, f), v[f["n"]]) if f["n"] in v else absent_ok(S, f)


_ABSENT = object()


def inside_paths(S, r, e, v, path):
    if not isinstance(v, dict):
        return {path}
    out = set()
    for k, ev in e.items():
        g = _field(r, k)
        if g is None:
            if not (k in v and holds(ev, v[k])):
                out.add(path + (k,))
            continue
        rg = sc.resolve(S, g["t"])
        if k not in v:
            if not (not g["req"] and (ev in ([], {}) or (has_default(g) and sc.jv_to_py(g["def"]) in ([], {})))):
                out.add(path + (k,))
        elif rg["k"] == "struct" and isinstance(ev, dict):
            out |= inside_paths(S, rg, ev, v[k], path + (k,))
        elif not holds(ev, v[k]):
            out.add(path + (k,))
    return out


def expected_at(S, t, path):
    """the value the specification demands at a FailPaths path: the (merged) expectation of the first constrained field on it"""
    for i, seg in enumerate(path):
        t = sc.resolve(S, t)
        f = _field(t, seg)
        if f is None:
            return None
        if constrained(S, f):
            ok, e = dig(field_expect(S, f), path[i + 1:])
            return e if ok else None
        t = f["t"]
    return None


def nullable_on(S, t, path):
    for seg in path:
        t = sc.resolve(S, t)
        f = _field(t, seg) if t["k"] == "struct" else None
        if f is None:
            return False
        if f["null"]:
            return True
        t = f["t"]
    return False


def report_path(S, t, path):
    """Where a failing path is REPORTED: a member inside a struct-valued default is reported for itself when it declares its own
    default / constant and the enclosing default does not override it (the defect is about that member's value type), otherwise at
    the field that declares the struct default (the override was lost)."""
    tt = t
    for i, seg in enumerate(path):
        tt = sc.resolve(S, tt)
        f = _field(tt, seg)
        if f is None:
            return path
        if constrained(S, f):
            if i == len(path) - 1:
                return path
            g, _, _ = field_at(S, t, path)
            if g is not None and constrained(S, g) and sc.json_equal(field_expect(S, g), expected_at(S, t, path)):
                return path
            return path[:i + 1]
        tt = f["t"]
    return path


def fail_paths(S, t, v, path=()):
    if not isinstance(v, dict):
        return {path}
    out = set()
    for f in t["fields"]:
        r = sc.resolve(S, f["t"])
        if constrained(S, f):
            e = field_expect(S, f)
            if r["k"] == "struct" and has_default(f) and isinstance(e, dict) and f["n"] in v:
                out |= inside_paths(S, r, e, v[f["n"]], path + (f["n"],))
            elif not field_holds(S, f, v):
                out.add(path + (f["n"],))
        elif r["k"] == "struct" and isinstance(v.get(f["n"]), dict):
            out |= fail_paths(S, r, v[f["n"]], path + (f["n"],))
    return out


def disagree_paths(S, t, a, b, path=()):
    if not isinstance(a, dict) or not isinstance(b, dict):
        return set() if sc.json_equal(a, b) else {path}
    out = set()
    for f in t["fields"]:
        r = sc.resolve(S, f["t"])
        ha, hb = f["n"] in a, f["n"] in b
        if constrained(S, f):
            dflt = field_expect(S, f) if absent_ok(S, f) else _ABSENT
            va = a[f["n"]] if ha else dflt
            vb = b[f["n"]] if hb else dflt
            if (va is _ABSENT) != (vb is _ABSENT) or (va is not _ABSENT and not sc.json_equal(va, vb)):
                out.add(path + (f["n"],))
        elif r["k"] == "struct" and ha and hb and isinstance(a[f["n"]], dict) and isinstance(b[f["n"]], dict):
            out |= disagree_paths(S, r, a[f["n"]], b[f["n"]], path + (f["n"],))
    return out


def field_at(S, t, path):
    """(field, containing struct, position tokens) of the constrained field a FailPaths path names."""
    toks = []
    f = None
    for i, seg in enumerate(path):
        t = sc.resolve(S, t)
        f = _field(t, seg)
        if f is None:
            return None, t, toks
        if i < len(path) - 1:
            toks.append("ref" if f["t"]["k"] == "ref" else "anon")
            t = f["t"]
    if f is not None and not f["req"]:
        toks.append("optional")
    return f, t, toks


_SCALAR_NAME = {"str": "string", "int": "integer", "num": "float", "bool": "bool", "time": "time", "enum": "enum", "ienum": "int-enum",
                "ref": "ref", "any": "any"}


def _jname(v):
    return "bool" if isinstance(v, bool) else "integer" if isinstance(v, int) else "float" if isinstance(v, float) else \
        "string" if isinstance(v, str) else "list" if isinstance(v, list) else "struct" if isinstance(v, dict) else "null"


def constants_only(S, t):
    """A union whose branches are all constants or (references to) enums."""
    return t["k"] == "union" and all(sc.resolve(S, b)["k"] in ("const", "enum", "ienum") for b in t["ts"])


def first_constant(S, t):
    b = sc.resolve(S, t["ts"][0])
    return sc.jv_to_py(b["v"]) if b["k"] == "const" else b["vals"][0]


def value_type(S, f):
    """The property's value types (bool, integer, float, string, enum member, list, struct with partial overrides,
    union branch) + constants; falsy defaults are kept apart (false / 0 / [] are the classic `if default` victims)."""
    r = sc.resolve(S, f["t"])
    k = r["k"]
    if not constrained(S, f):
        return "struct-override"       # a member that only the enclosing struct default sets
    if k == "const":
        c = sc.jv_to_py(r["v"])
        if f["t"]["k"] == "ref":
            return "constant-alias-" + _jname(c)          # the constant is a named object, the field refers to it
        return "constant-" + _jname(c) + ("-big" if _is_num(c) and abs(c) >= 7770000 else "") + ("-with-default" if has_default(f) else "")
    d = sc.jv_to_py(f["def"])
    if f["t"]["k"] == "ref" and S[f["t"]["name"]]["k"] not in ("struct", "enum", "ienum"):
        # a named non-struct type (alias), possibly of another alias
        return ("enum-alias-member" if k in ("enum", "ienum") else "alias-struct-override" if k == "struct" else "alias-" + _SCALAR_NAME.get(k, k))
    if k == "bool":
        return "bool" if d else "bool-false"
    if k == "int":
        return "integer-big" if abs(d) >= 7770000 else "integer-negative" if d < 0 else "integer" if d != 0 else "integer-zero"
    if k == "num":
        return "float-negative" if d < 0 else "float-zero" if d == 0 else "float-integral" if float(d).is_integer() else "float"
    if k in ("str", "time"):
        return "string-empty" if d == "" else "string" if (d.isascii() and d.isalnum()) else "string-special"
    if k == "enum":
        return "enum-ref-member" if f["t"]["k"] == "ref" else "enum-member"
    if k == "ienum":
        return "int-enum-big-member" if abs(d) >= 7770000 else "int-enum-member"
    if k == "arr":
        return "list-empty" if d == [] else "list-" + _SCALAR_NAME.get(sc.resolve(S, r["t"])["k"], "list" if sc.resolve(S, r["t"])["k"] == "arr" else "other")
    if k == "struct":
        return "struct-override" if d else "struct-empty-override"
    if k == "union":
        if constants_only(S, r):
            # `1 | 2 | *3`: every branch is a constant (or a named enum): generators turn such a disjunction into an enum whose
            # members are NAMED after the constants; the default designates a member by VALUE
            # (a branch that is a named enum is a witness class of its own: its members come from another object)
            return "constants-disjunction-" + ("enum-ref" if any(b["k"] != "const" for b in r["ts"]) else _jname(d))
        return "union-branch-" + _jname(d)
    if k == "dunion":
        return "union-branch-struct"
    return "other-" + k


VALUE_TYPES = ("bool", "integer", "float", "string", "enum-member", "list-string", "struct-override", "union-branch-string")
# signature value types: falsy defaults and the branch kind of a scalar union are witnesses of the same value type
SIG_TYPE = {"bool-false": "bool", "integer-zero": "integer", "integer-negative": "integer", "float-negative": "float",
            "float-zero": "float", "float-integral": "float", "struct-empty-override": "struct-override",
            "alias-struct-override": "struct-override", "union-branch-string": "union-branch-scalar",
            "union-branch-integer": "union-branch-scalar", "union-branch-bool": "union-branch-scalar", "union-branch-float": "union-branch-scalar"}


def _is_num(x):
    return isinstance(x, (int, float)) and not isinstance(x, bool)


def _retyped(e, r):
    if isinstance(e, list) and isinstance(r, list) and len(e) == len(r):
        return any(_retyped(x, y) for x, y in zip(e, r))
    return _jname(e) != _jname(r) and not (_is_num(e) and _is_num(r))


def clause_of(S, f, expected, has, real):
    """`altered, re-typed or dropped`: dropped = the field is absent / null or holds what the language puts there when NO
    default is declared (zero value, first enum member, a value of another union branch); re-typed = the JSON type changed
    (3 -> "3"), also inside a list; altered = anything else."""
    if not has or real is None:
        return "dropped"
    r = sc.resolve(S, f["t"])
    if any(real == z and type(real) is type(z) for z in (0, 0.0, "", False, [], {})) and not sc.json_equal(expected, real):
        return "dropped"
    if r["k"] in ("enum", "ienum") and real == r["vals"][0] and expected != real:
        return "dropped"
    if constants_only(S, r) and sc.json_equal(real, first_constant(S, r)) and not sc.json_equal(expected, real):
        return "dropped"          # the first constant: what stands there when the disjunction declares no default
    if r["k"] == "dunion" and isinstance(real, dict) and isinstance(expected, dict) and real.get(r["disc"]) != expected.get(r["disc"]):
        return "dropped"
    if r["k"] == "struct" and isinstance(real, dict) and isinstance(expected, dict) and holds(default_doc(S, r), real):
        return "dropped"          # the struct's own defaults, without the declared overrides
    if _retyped(expected, real):
        return "retyped"
    return "altered"


def dig(v, path):
    for seg in path:
        if not isinstance(v, dict) or seg not in v:
            return False, None
        v = v[seg]
    return True, v


# ----------------------------------------------------------------------------------------------
# traces for SemanticsPyTrace.tla
# ----------------------------------------------------------------------------------------------
NONE = {"j": "none"}


class PyTraceWriter(sc.TraceWriter):
    def add_default(self, pkg, obj, go, py, skip=()):
        """go / py: (executable?, real JSON value or None). Returns False when a value is outside the number universe."""
        u = self.batch.units[pkg]
        try:
            gj = sc.py_to_jv(go[1]) if go[0] else NONE
            pj = sc.py_to_jv(py[1]) if py[0] else NONE
        except sc.NotInUniverse:
            return False
        self.add((pkg, obj), {"kind": "default", "si": self.si(u["id"]), "pkg": pkg, "obj": obj,
                              "judge": {"go": go[0], "py": py[0]}, "go": gj, "py": pj, "skip": [list(p) for p in skip]})
        return True

    def add_pyrt(self, pkg, c, accepted, py_ok, py_enc, has_go, go_enc):
        u = self.batch.units[pkg]
        try:
            pj = sc.py_to_jv(py_enc) if py_ok else NONE
            gj = sc.py_to_jv(go_enc) if has_go else NONE
        except sc.NotInUniverse:
            return False
        self.add((pkg, c["n"]), {"kind": "pyrt", "si": self.si(u["id"]), "pkg": pkg, "n": c["n"], "doc": c["doc"],
                                 "judge": {"accepted": accepted},
                                 "real": {"pyOK": py_ok, "py": pj, "hasGo": has_go, "go": gj}})
        return True

    def add_cross(self, pkg, c, src, accepted, ok, out):
        """src: what one SDK wrote (token space); out: what the other SDK wrote after reading it"""
        u = self.batch.units[pkg]
        try:
            sj = sc.py_to_jv(src)
            oj = sc.py_to_jv(out) if ok else NONE
        except sc.NotInUniverse:
            return False
        self.add((pkg, c["n"], "cross"), {"kind": "cross", "si": self.si(u["id"]), "pkg": pkg, "n": c["n"], "src": sj,
                                          "judge": {"accepted": accepted}, "real": {"ok": ok, "out": oj}})
        return True

    def validate(self, strict=False, allow_violation=False):
        """Run SemanticsPyTrace; returns ({record index: set of tuples}, tlc run)."""
        self.f.close()
        sp = os.path.join(self.dir, "schemas.json")
        json.dump(self.schemas, open(sp, "w"))
        if not self.keys:
            return {}, None
        r = self.ctx.run_tlc("SemanticsPyTrace", "SemanticsPyTrace.cfg", workers=1, timeout=3000,
                             files={"trace.ndjson": self.path, "schemas.json": sp},
                             constants={"Strict": "TRUE" if strict else "FALSE"}, allow_violation=allow_violation)
        if strict:
            return None, r
        consumed = None
        for line in open(r["out"], errors="replace"):
            m = re.match(r'^<<"CONSUMED", (\d+)>>', line)
            if m:
                consumed = int(m.group(1))
        if consumed != len(self.keys):
            raise core.Inconclusive("SemanticsPyTrace consumed %s of %d records" % (consumed, len(self.keys)))
        out = {}
        for f in core.tagged_lines(r["out"], "FAIL"):
            out[f["l"] - 1] = {tuple(v) for v in f["violated"]}
        return out, r


def selftest(ctx, batch, make_good, corrupt, what):
    """DESIGN 7 rule 6: Strict mode accepts a genuine record and rejects it once one recorded field is corrupted."""
    res = {}
    for name in ("good", "bad"):
        tw = PyTraceWriter(ctx, batch, "selftest-" + name)
        make_good(tw) if name == "good" else corrupt(tw)
        _, r = tw.validate(strict=True, allow_violation=True)
        res[name] = r["violated"]
    if res["good"] or not res["bad"]:
        raise core.Inconclusive("binding self-test failed: genuine record rejected=%s, corrupted record rejected=%s" % (res["good"], res["bad"]))
    return what


def unit_problems(batch):
    """Units whose Go and/or Python could not be observed, with cog's own reason (C02 / C04 own these)."""
    out = collections.Counter()
    for u in batch.units.values():
        if u["status"] not in ("ok",):
            why = " ".join((u.get("why") or "; ".join(u.get("diagnostics", [])) or u.get("refval_err") or "").split()).replace(u["pkg"], "<pkg>")
            why = re.sub(r"0x[0-9a-f]+", "0x..", why)
            out["%s/go/%s: %s" % (u["fmt"], u["status"], why[:200])] += 1
        if u.get("py") == "not_executable":
            out["%s/python/not_executable: %s" % (u["fmt"], u.get("py_err", "")[:140])] += 1
    return dict(out)


# ----------------------------------------------------------------------------------------------
# the check's own escape hatches (notes/MUTATION_CLASSES.md 14, 15)
# ----------------------------------------------------------------------------------------------
def settle(ctx, soft):
    """A vacuity gate, a failed self-test or a disagreement between TLC and the python join makes the run inconclusive ONLY when no
    violation outside the known findings was observed: observed violations are reported (exit 1), the reasons become notes."""
    if not soft:
        return
    known = {k.get("signature") for k in core.load_known() if k["property"] == ctx.pid and k.get("status", "known") == "known"}
    if any(f["signature"] not in known for f in ctx.failures):
        for m in soft:
            ctx.notes.append("not enforced because violations were observed: " + m)
        return
    raise core.Inconclusive("; ".join(soft))


def run_driver_safe(ctx, batch, commands, name):
    """sc.run_driver; when the driver PROCESS dies (fatal error in generated code: stack overflow, out of memory - not a recoverable
    panic) the commands are re-run one package at a time and the death is attributed to the package that causes it."""
    try:
        return sc.run_driver(ctx, batch, commands, name)
    except core.Inconclusive as e:
        first = str(e)
    groups = collections.defaultdict(list)
    for c in commands:
        groups[c["type"].split(".")[0]].append(c)
    res = {}
    for pkg, cs in sorted(groups.items()):
        try:
            res.update(sc.run_driver(ctx, batch, cs, "%s-%s" % (name, pkg)))
        except core.Inconclusive as e:
            for c in cs:
                res[c["id"]] = {"id": c["id"], "op": c["op"], "panic": "the driver process died while running this package (%s)" % e, "crash": True,
                                "std_err": "driver process died", "strict_err": None, "has_strict": False}
    if not any(r.get("crash") for r in res.values()):
        raise core.Inconclusive(first)
    return res


def run_pydriver_safe(ctx, batch, commands, name):
    try:
        return run_pydriver(ctx, batch, commands, name)
    except core.Inconclusive as e:
        first = str(e)
    groups = collections.defaultdict(list)
    for c in commands:
        groups[c["module"]].append(c)
    res = {}
    for mod, cs in sorted(groups.items()):
        try:
            res.update(run_pydriver(ctx, batch, cs, "%s-%s" % (name, mod)))
        except core.Inconclusive as e:
            for c in cs:
                res[c["id"]] = {"id": c["id"], "op": c["op"], "ok": False, "stage": "crash", "crash": True,
                                "err": "FatalError: the python process died while running this module (%s)" % e}
    if not any(r.get("crash") for r in res.values()):
        raise core.Inconclusive(first)
    return res
