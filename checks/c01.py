"""C01 - documents the source schema accepts decode (standard and strict) and round-trip (Go).

spec: Semantics.tla (Accepts, Norm), SemanticsMC.tla, SemanticsTrace.tla (DecodeOK, StrictDecodeOK, RoundTripOK, ReAcceptOK)
real code: generated Go from JSON Schema, OpenAPI and CUE renderings of every catalogue schema; reference validators of the
           three schema languages decide `accepts` for the original and for the re-encoded document.
"""
from checks import semantics_common as sc


def run(ctx):
    return sc.docs_check(ctx, "C01", sc.C01_CLAUSES, sc.COMMON_ASSUMPTIONS + [
        "JSON-equal (DESIGN 6.0): numbers by value, key order irrelevant; the only tolerated difference is an optional property given as "
        "explicit null being omitted (Semantics!Norm applied to both sides)",
        "only documents using declared properties and accepted by the reference validator of the source format are judged",
        "C01 only needs the decoders and the encoder: Go is generated with generate_json_marshaller and generate_strict_unmarshaller "
        "only, so that a defect in the emitted Equals/Validate (C13/C08/C02's subject) cannot hide a package from this check",
    ], must=("optional-collections", "times-and-numeric-unions", "reused-nullable-union", "case-twins",
              "reused-union-orders", "reused-union-orders-reversed", "optional-defaults", "union-two-constants"),
        go_flags={"generate_json_marshaller": True, "generate_strict_unmarshaller": True})
