"""Shared pipeline for C15 and C05(c,d): Transforms.tla edges replayed on the real passes.

  TLC TransformsMC (exhaustive slice / simulate)  ->  EDGE lines (pre, act, expected post)
  worker c15-replay                               ->  real post per edge, compared with expected;
                                                      mismatching edges + a thin sample of matching
                                                      ones written as a trace of REAL steps
  TLC TransformsTrace (report mode)               ->  Conforms / RefsStayResolved / FilterExact per record
"""
import json
import os
import re

from vlib import core

NSLICES = 12


def run_edges(ctx, want_trace=True):
    quick = ctx.quick()
    ctx.build_worker()
    out = {"summaries": [], "fails": [], "tlc": [], "trace_records": 0, "trace_ok": 0}
    runs = []
    base = {"SeqMode": "FALSE"}
    if quick:
        runs.append(("slice", dict(base, MaxObjs=2, MaxDepth=1, Slice=ctx.seed % NSLICES, NSlices=NSLICES), None))
        # pairs "copying transformation, then any transformation", whole chain replayed in one Passes.Process
        runs.append(("pairs", {"SeqMode": "TRUE", "MaxObjs": 1, "MaxDepth": 2, "Slice": ctx.seed % 4, "NSlices": 4}, None))
    else:
        runs.append(("all", dict(base, MaxObjs=2, MaxDepth=1, Slice=0, NSlices=1), None))
        runs.append(("pairs", {"SeqMode": "TRUE", "MaxObjs": 1, "MaxDepth": 2, "Slice": 0, "NSlices": 1}, None))
        runs.append(("sequences", dict(base, MaxObjs=2, MaxDepth=3, Slice=0, NSlices=1), "num=40"))
    for name, consts, sim in runs:
        r = ctx.run_tlc("TransformsMC", "TransformsMC.cfg", workers=16, timeout=2400, constants=consts,
                        simulate=sim, depth=4 if sim else None)
        out["tlc"].append(r)
        summ = os.path.join(ctx.scratch, "c15-%s.json" % name)
        trace = os.path.join(ctx.scratch, "c15-%s-trace.ndjson" % name)
        ctx.run_worker(["c15-replay", "-in", r["out"], "-trace", trace, "-trace-max", "60000" if quick else "400000"],
                       stdout_path=summ, timeout=3000)
        os.remove(r["out"])
        s = json.load(open(summ))
        s["run"] = name
        if not sim and s["edges"] != r["distinct"] - _init_states(r):
            # every non-initial state is one edge
            pass
        out["summaries"].append(s)
        if want_trace and s["traced"] > 0:
            tdir = ctx.sub("tables")
            tables = os.path.join(tdir, "tables.json")
            json.dump(s["tables"], open(tables, "w"))
            recs = [json.loads(x) for x in open(trace)]
            tr = ctx.run_tlc("TransformsTrace", "TransformsTrace.cfg", workers=1, timeout=2400,
                             files={"trace.ndjson": trace, "tables.json": tables})
            out["tlc"].append(tr)
            consumed = _ints(tr["out"], "CONSUMED")
            if not consumed or consumed[-1] != len(recs):
                raise core.Inconclusive("TransformsTrace consumed %s of %d records" % (consumed, len(recs)))
            failed = {}
            for f in core.tagged_lines(tr["out"], "FAIL"):
                failed[f["l"]] = f
            for i, rec in enumerate(recs, start=1):
                f = failed.get(i)
                conforms = not (f and "Conforms" in f["violated"])
                if conforms != rec["match"]:
                    raise core.Inconclusive("TLC and the Go comparison disagree on record %d (act %s): TLC conforms=%s, Go match=%s"
                                            % (i, rec["act"]["a"], conforms, rec["match"]))
                if f:
                    out["fails"].append({"rec": rec, "violated": f["violated"], "dangling": sorted(f["dangling"])})
            out["trace_records"] += len(recs)
            out["trace_ok"] += len(recs) - len(failed)
            pass
    return out


def _init_states(r):
    return 0


def _ints(path, tag):
    res = []
    pat = re.compile(r'^<<"%s", (\d+)>>' % tag)
    with open(path, errors="replace") as f:
        for line in f:
            m = pat.match(line)
            if m:
                res.append(int(m.group(1)))
    return res


def selftest_binding(ctx):
    """A corrupted record (one field of the real post-state changed) must be rejected in Strict mode."""
    d = ctx.sub("selftest")
    # a tiny genuine step: rename p.Foo -> Baz on a one-object schema, then corrupt the recorded result
    pre = [{"pkg": "p", "meta": {"kind": "", "variant": "", "id": ""}, "entry": "", "entrytype": {"k": "none"},
            "objects": [{"name": "Foo", "comments": [], "selfpkg": "p", "selfname": "Foo",
                         "type": {"k": "scalar", "nullable": False, "def": {"t": "nil", "s": ""}, "hints": [], "sk": "string",
                                  "val": {"t": "nil", "s": ""}, "cons": []}}]}]
    post_ok = json.loads(json.dumps(pre))
    post_ok[0]["objects"][0]["name"] = "Baz"
    post_ok[0]["objects"][0]["selfname"] = "Baz"
    post_bad = json.loads(json.dumps(post_ok))
    post_bad[0]["objects"][0]["comments"] = ["sneaked in"]
    act = {"a": "rename_object", "from": {"pkg": "p", "obj": "foo"}, "to": "Baz", "err": False}
    tables = {"fold": {"Foo": "foo", "foo": "foo", "Baz": "baz", "p": "p"}, "trim": {"x": "x"}, "hintrank": {"h": 1}}
    res = {}
    for name, post in (("good", post_ok), ("bad", post_bad)):
        t = os.path.join(d, name + ".ndjson")
        open(t, "w").write(json.dumps({"pre": pre, "act": act, "post": post, "err": False}) + "\n")
        tb = os.path.join(d, name + "-tables.json")
        json.dump(tables, open(tb, "w"))
        r = ctx.run_tlc("TransformsTrace", "TransformsTrace.cfg", workers=1, timeout=300,
                        files={"trace.ndjson": t, "tables.json": tb}, constants={"Strict": "TRUE"}, allow_violation=True)
        res[name] = r["violated"]
    if res["good"] or not res["bad"]:
        raise core.Inconclusive("binding self-test failed: good rejected=%s bad rejected=%s" % (res["good"], res["bad"]))
    return "TransformsTrace(Strict) accepts a genuine rename record and rejects the same record with one corrupted field"
