"""C05 part (a): parser outputs. Catalogue schemas (Semantics.tla, enumerated by TLC) rendered as JSON Schema,
OpenAPI and CUE, parsed by the REAL parsers through Pipeline.LoadSchemas, judged by ParsersTrace.tla.
A few reference-bearing documents the catalogue's renderers do not spell (explicit discriminator mappings,
entry points, cross-file references) are added as fixed inputs."""
import json
import os
import re

from vlib import core
from checks import semantics_common as sc

EXTRA = [
    ("openapi", "discriminator-mapping", json.dumps({
        "openapi": "3.0.0", "info": {"title": "t", "version": "1"}, "paths": {},
        "components": {"schemas": {
            "A": {"type": "object", "required": ["kind"], "properties": {"kind": {"type": "string", "enum": ["a"]}}},
            "B": {"type": "object", "required": ["kind"], "properties": {"kind": {"type": "string", "enum": ["b"]}}},
            "U": {"oneOf": [{"$ref": "#/components/schemas/A"}, {"$ref": "#/components/schemas/B"}],
                  "discriminator": {"propertyName": "kind", "mapping": {"a": "#/components/schemas/A", "b": "#/components/schemas/B"}}},
            "Holder": {"type": "object", "properties": {"u": {"$ref": "#/components/schemas/U"}, "l": {"type": "array", "items": {"$ref": "#/components/schemas/A"}}}}}}})),
    ("jsonschema", "nested-defs-and-recursion", json.dumps({
        "$schema": "http://json-schema.org/draft-07/schema#", "$ref": "#/definitions/Root",
        "definitions": {
            "Root": {"type": "object", "properties": {"next": {"$ref": "#/definitions/Root"}, "leaf": {"$ref": "#/definitions/Leaf"},
                                                     "m": {"type": "object", "additionalProperties": {"$ref": "#/definitions/Leaf"}}}},
            "Leaf": {"type": "object", "properties": {"k": {"$ref": "#/definitions/Kind"}}},
            "Kind": {"type": "string", "enum": ["x", "y"]}}})),
    ("jsonschema", "definitions-differing-by-case", json.dumps({
        "$schema": "http://json-schema.org/draft-07/schema#", "$ref": "#/definitions/Query",
        "definitions": {
            "Query": {"type": "object", "properties": {"current": {"$ref": "#/definitions/DataSource"}, "legacy": {"$ref": "#/definitions/Datasource"},
                                                      "modes": {"type": "array", "items": {"$ref": "#/definitions/Mode"}}, "mode": {"$ref": "#/definitions/mode"}}},
            "DataSource": {"type": "object", "properties": {"uid": {"type": "string"}}},
            "Datasource": {"type": "object", "properties": {"name": {"type": "string"}}},
            "Mode": {"type": "string", "enum": ["a", "b"]},
            "mode": {"type": "integer"}}})),
    ("openapi", "schemas-differing-by-case", json.dumps({
        "openapi": "3.0.0", "info": {"title": "t", "version": "1"}, "paths": {},
        "components": {"schemas": {
            "Query": {"type": "object", "properties": {"current": {"$ref": "#/components/schemas/DataSource"}, "legacy": {"$ref": "#/components/schemas/Datasource"}}},
            "DataSource": {"type": "object", "properties": {"uid": {"type": "string"}}},
            "Datasource": {"type": "object", "properties": {"name": {"type": "string"}}}}}})),
    # a reference to the WHOLE document ("$ref": "#"), with the root an object and with the root itself a $ref to a definition;
    # also a $ref into "$defs" and a reference nested three collections deep
    ("jsonschema", "document-self-reference-root-object", json.dumps({
        "$schema": "http://json-schema.org/draft-07/schema#", "type": "object",
        "properties": {"name": {"type": "string"}, "parent": {"$ref": "#"}, "children": {"type": "array", "items": {"$ref": "#"}}}})),
    ("jsonschema", "document-self-reference-root-ref", json.dumps({
        "$schema": "http://json-schema.org/draft-07/schema#", "$ref": "#/definitions/Node",
        "definitions": {
            "Node": {"type": "object", "properties": {"name": {"type": "string"}, "doc": {"$ref": "#"}, "byName": {"type": "object", "additionalProperties": {"$ref": "#"}},
                                                     "leaf": {"$ref": "#/definitions/Leaf"}}},
            "Leaf": {"type": "object", "properties": {"up": {"$ref": "#"}, "deep": {"type": "array", "items": {"type": "object", "additionalProperties": {"type": "array", "items": {"$ref": "#/definitions/Leaf"}}}}}}}})),
    ("jsonschema", "dollar-defs", json.dumps({
        "$schema": "https://json-schema.org/draft/2020-12/schema", "$ref": "#/$defs/Root",
        "$defs": {"Root": {"type": "object", "properties": {"leaf": {"$ref": "#/$defs/Leaf"}}}, "Leaf": {"type": "object", "properties": {"v": {"type": "string"}}}}})),
    # the configuration route of allowed_objects (codegen.InputBase.filterSchema): object NAMES of the input's package, exact
    # spelling, also when a name contains dots (legal OpenAPI component names); 4th element = the lists to restrict with
    ("openapi", "allowed-dotted-names", json.dumps({
        "openapi": "3.0.0", "info": {"title": "t", "version": "1"}, "paths": {},
        "components": {"schemas": {
            "models.User": {"type": "object", "properties": {"address": {"$ref": "#/components/schemas/models.Address"}, "name": {"type": "string"}}},
            "models.Address": {"type": "object", "properties": {"street": {"type": "string"}}},
            "io.k8s.Pod": {"type": "object", "properties": {"owner": {"$ref": "#/components/schemas/models.User"}}},
            "Other": {"type": "object", "properties": {"id": {"type": "string"}}},
            "User": {"type": "object", "properties": {"legacy": {"type": "boolean"}}}}}}),
     [["models.User"], ["models.Address", "Other"], ["io.k8s.Pod"], ["User"], ["Other"]]),
    ("jsonschema", "allowed-plain-names", json.dumps({
        "$schema": "http://json-schema.org/draft-07/schema#", "$ref": "#/definitions/Root",
        "definitions": {
            "Root": {"type": "object", "properties": {"next": {"$ref": "#/definitions/Root"}, "leaf": {"$ref": "#/definitions/Leaf"}}},
            "Leaf": {"type": "object", "properties": {"k": {"$ref": "#/definitions/Kind"}}},
            "Kind": {"type": "string", "enum": ["x", "y"]},
            "leaf": {"type": "object", "properties": {"lower": {"type": "string"}}},
            "Unused": {"type": "object", "properties": {"u": {"type": "string"}}}}}),
     [["Leaf"], ["leaf"], ["Kind", "Unused"], ["Root"]]),
    # a forced envelope turns the root's regular fields into fields of the envelope object: references to a SIBLING field
    # (not a definition) must still name a declared object
    ("cue", "envelope-sibling-field-references", "package %(pkg)s\n\nlimits: {\n\tmax: int64\n}\ncurrent: limits\nlist: [...limits]\nbyName: [string]: limits\n#Def: {\n\tl: limits\n}\nd: #Def\n"),
    ("cue", "envelope-definitions-only", "package %(pkg)s\n\n#Limits: {\n\tmax: int64\n}\ncurrent: #Limits\nlist: [...#Limits]\n"),
    ("cue", "enum-member-constant-and-entry", "package %(pkg)s\n\n#Kind: \"x\" | \"y\" @cog(kind=\"enum\")\n#Leaf: {\n\tkind: #Kind & \"x\"\n\tnext?: #Leaf\n}\n#Root: {\n\tleaf: #Leaf\n\tall: [...#Leaf]\n\tbyName: [string]: #Leaf\n}\n"),
]


def _write_input(d, pkg, fmt, text):
    if fmt == "cue":      # a CUE input is a package directory
        pd = os.path.join(d, pkg)
        os.makedirs(pd)
        open(os.path.join(pd, pkg + ".cue"), "w").write(text)
        return pd
    path = os.path.join(d, pkg + ".json")
    open(path, "w").write(text)
    return path


def run_parsers(ctx):
    cat = sc.load_catalogue(ctx)
    ids = sc.select_schemas(ctx, cat, 60 if ctx.quick() else 10 ** 6)
    d = ctx.sub("parsers")
    jobs = []
    skipped = 0
    for sid in ids:
        for fmt in sc.FORMATS:
            pkg = sc.pkg_name(sid, fmt)
            try:
                text = sc.render(cat[sid]["schema"], fmt, pkg)
            except sc.NotExpressible:
                skipped += 1
                continue
            path = _write_input(d, pkg, fmt, text)
            y = os.path.join(d, pkg + ".yaml")
            open(y, "w").write(sc.pipeline_yaml(fmt, path, pkg, {}))
            jobs.append({"id": sid, "fmt": fmt, "yaml": y, "tag": "%s/%s" % (cat[sid]["leaf"], cat[sid]["pos"])})
    restricted = {}          # index of a restricted job -> (index of the unrestricted job, pkg, allowed names)
    for n, extra in enumerate(EXTRA):
        fmt, tag, text = extra[:3]
        pkg = "x%03d%s" % (n, fmt[0])
        path = _write_input(d, pkg, fmt, text % {"pkg": pkg} if fmt == "cue" else text)
        y = os.path.join(d, pkg + ".yaml")
        ytext = sc.pipeline_yaml(fmt, path, pkg, {})
        for k, allowed in enumerate(extra[3] if len(extra) > 3 else []):
            ya = os.path.join(d, "%s_allowed%d.yaml" % (pkg, k))
            yt = ytext.replace("      package: %s\n" % pkg, "      package: %s\n      allowed_objects: %s\n" % (pkg, json.dumps(allowed)), 1)
            if "allowed_objects" not in yt:
                raise core.Inconclusive("could not set allowed_objects in the pipeline of %s" % tag)
            open(ya, "w").write(yt)
            restricted[len(jobs) + 1 + k] = (len(jobs), pkg, allowed)
        nallowed = len(extra[3]) if len(extra) > 3 else 0
        if tag.startswith("envelope-"):
            ytext = ytext.replace("      package: %s\n" % pkg, "      package: %s\n      forced_envelope: Envelope\n" % pkg, 1)
            if "forced_envelope" not in ytext:
                raise core.Inconclusive("could not set forced_envelope in the pipeline of %s" % tag)
        open(y, "w").write(ytext)
        jobs.append({"id": 90000 + n, "fmt": fmt, "yaml": y, "tag": "extra/" + tag})
        for k in range(nallowed):
            jobs.append({"id": 91000 + 10 * n + k, "fmt": fmt, "yaml": os.path.join(d, "%s_allowed%d.yaml" % (pkg, k)),
                         "tag": "extra/%s/allowed=%s" % (tag, "+".join(extra[3][k]))})
    jf = os.path.join(d, "jobs.ndjson")
    open(jf, "w").write("".join(json.dumps(j) + "\n" for j in jobs))
    trace = os.path.join(d, "trace.ndjson")
    ctx.run_worker(["c05-parse"], stdin_path=jf, stdout_path=trace, timeout=1800, cwd=d)
    recs = [json.loads(x) for x in open(trace)]
    if len(recs) != len(jobs):
        raise core.Inconclusive("c05-parse returned %d records for %d jobs" % (len(recs), len(jobs)))
    # restricted parses carry the list and the unrestricted parse of the same document (ParsersTrace: Allowed clause)
    n_restricted = 0
    for i, r in enumerate(recs):
        r["allowed"], r["full"] = [], []
        if i in restricted:
            j, pkg, allowed = restricted[i]
            if recs[j]["err"]:
                continue
            r["allowed"] = [{"pkg": pkg, "obj": a} for a in allowed]
            r["full"] = recs[j]["post"]
            n_restricted += 0 if r["err"] else 1
    if restricted and not n_restricted:
        raise core.Inconclusive("no restricted parse (allowed_objects) returned an IR")
    open(trace, "w").write("".join(json.dumps(r) + "\n" for r in recs))
    tr = ctx.run_tlc("ParsersTrace", "ParsersTrace.cfg", workers=1, timeout=1800, files={"trace.ndjson": trace})
    consumed = [int(m.group(1)) for m in re.finditer(r'<<"CONSUMED", (\d+)>>', open(tr["out"], errors="replace").read())]
    if not consumed or consumed[-1] != len(recs):
        raise core.Inconclusive("ParsersTrace consumed %s of %d" % (consumed, len(recs)))
    fails = []
    for f in core.tagged_lines(tr["out"], "FAIL"):
        rec = {k: v for k, v in recs[f["l"] - 1].items() if k != "full"}
        fails.append({"rec": rec, "dangling": sorted(f["dangling"]), "shape": sorted(f["shape"]) + sorted(f.get("allowed", []))})
    parsed = sum(1 for r in recs if not r["err"])
    with_refs = sum(1 for r in recs if not r["err"] and '"k": "ref"' in json.dumps(r["post"]))
    return {"fails": fails, "tlc": [tr], "records": len(recs), "parsed": parsed, "with_refs": with_refs, "not_expressible": skipped, "restricted_parses": n_restricted,
            "errors": [{"id": r["id"], "fmt": r["fmt"], "error": r["error"][:160]} for r in recs if r["err"]][:5]}
