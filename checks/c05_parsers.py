"""C05 part (a): parser outputs. Catalogue schemas (Semantics.tla, enumerated by TLC) rendered as JSON Schema,
OpenAPI and CUE, parsed by the REAL parsers through Pipeline.LoadSchemas, judged by ParsersTrace.tla.
A few reference-bearing documents the catalogue's renderers do not spell (explicit discriminator mappings,
entry points, cross-file references) are added as fixed inputs."""
import json
import os
import re

from vlib import core
from checks import semantics_common as sc

EXTRA = [
    ("openapi", "discriminator-mapping", json.dumps({
        "openapi": "3.0.0", "info": {"title": "t", "version": "1"}, "paths": {},
        "components": {"schemas": {
            "A": {"type": "object", "required": ["kind"], "properties": {"kind": {"type": "string", "enum": ["a"]}}},
            "B": {"type": "object", "required": ["kind"], "properties": {"kind": {"type": "string", "enum": ["b"]}}},
            "U": {"oneOf": [{"$ref": "#/components/schemas/A"}, {"$ref": "#/components/schemas/B"}],
                  "discriminator": {"propertyName": "kind", "mapping": {"a": "#/components/schemas/A", "b": "#/components/schemas/B"}}},
            "Holder": {"type": "object", "properties": {"u": {"$ref": "#/components/schemas/U"}, "l": {"type": "array", "items": {"$ref": "#/components/schemas/A"}}}}}}})),
    ("jsonschema", "nested-defs-and-recursion", json.dumps({
        "$schema": "http://json-schema.org/draft-07/schema#", "$ref": "#/definitions/Root",
        "definitions": {
            "Root": {"type": "object", "properties": {"next": {"$ref": "#/definitions/Root"}, "leaf": {"$ref": "#/definitions/Leaf"},
                                                     "m": {"type": "object", "additionalProperties": {"$ref": "#/definitions/Leaf"}}}},
            "Leaf": {"type": "object", "properties": {"k": {"$ref": "#/definitions/Kind"}}},
            "Kind": {"type": "string", "enum": ["x", "y"]}}})),
    ("jsonschema", "definitions-differing-by-case", json.dumps({
        "$schema": "http://json-schema.org/draft-07/schema#", "$ref": "#/definitions/Query",
        "definitions": {
            "Query": {"type": "object", "properties": {"current": {"$ref": "#/definitions/DataSource"}, "legacy": {"$ref": "#/definitions/Datasource"},
                                                      "modes": {"type": "array", "items": {"$ref": "#/definitions/Mode"}}, "mode": {"$ref": "#/definitions/mode"}}},
            "DataSource": {"type": "object", "properties": {"uid": {"type": "string"}}},
            "Datasource": {"type": "object", "properties": {"name": {"type": "string"}}},
            "Mode": {"type": "string", "enum": ["a", "b"]},
            "mode": {"type": "integer"}}})),
    ("openapi", "schemas-differing-by-case", json.dumps({
        "openapi": "3.0.0", "info": {"title": "t", "version": "1"}, "paths": {},
        "components": {"schemas": {
            "Query": {"type": "object", "properties": {"current": {"$ref": "#/components/schemas/DataSource"}, "legacy": {"$ref": "#/components/schemas/Datasource"}}},
            "DataSource": {"type": "object", "properties": {"uid": {"type": "string"}}},
            "Datasource": {"type": "object", "properties": {"name": {"type": "string"}}}}}})),
    # a forced envelope turns the root's regular fields into fields of the envelope object: references to a SIBLING field
    # (not a definition) must still name a declared object
    ("cue", "envelope-sibling-field-references", "package %(pkg)s\n\nlimits: {\n\tmax: int64\n}\ncurrent: limits\nlist: [...limits]\nbyName: [string]: limits\n#Def: {\n\tl: limits\n}\nd: #Def\n"),
    ("cue", "envelope-definitions-only", "package %(pkg)s\n\n#Limits: {\n\tmax: int64\n}\ncurrent: #Limits\nlist: [...#Limits]\n"),
    ("cue", "enum-member-constant-and-entry", "package %(pkg)s\n\n#Kind: \"x\" | \"y\" @cog(kind=\"enum\")\n#Leaf: {\n\tkind: #Kind & \"x\"\n\tnext?: #Leaf\n}\n#Root: {\n\tleaf: #Leaf\n\tall: [...#Leaf]\n\tbyName: [string]: #Leaf\n}\n"),
]


def _write_input(d, pkg, fmt, text):
    if fmt == "cue":      # a CUE input is a package directory
        pd = os.path.join(d, pkg)
        os.makedirs(pd)
        open(os.path.join(pd, pkg + ".cue"), "w").write(text)
        return pd
    path = os.path.join(d, pkg + ".json")
    open(path, "w").write(text)
    return path


def run_parsers(ctx):
    cat = sc.load_catalogue(ctx)
    ids = sc.select_schemas(ctx, cat, 60 if ctx.quick() else 10 ** 6)
    d = ctx.sub("parsers")
    jobs = []
    skipped = 0
    for sid in ids:
        for fmt in sc.FORMATS:
            pkg = sc.pkg_name(sid, fmt)
            try:
                text = sc.render(cat[sid]["schema"], fmt, pkg)
            except sc.NotExpressible:
                skipped += 1
                continue
            path = _write_input(d, pkg, fmt, text)
            y = os.path.join(d, pkg + ".yaml")
            open(y, "w").write(sc.pipeline_yaml(fmt, path, pkg, {}))
            jobs.append({"id": sid, "fmt": fmt, "yaml": y, "tag": "%s/%s" % (cat[sid]["leaf"], cat[sid]["pos"])})
    for n, (fmt, tag, text) in enumerate(EXTRA):
        pkg = "x%03d%s" % (n, fmt[0])
        path = _write_input(d, pkg, fmt, text % {"pkg": pkg} if fmt == "cue" else text)
        y = os.path.join(d, pkg + ".yaml")
        ytext = sc.pipeline_yaml(fmt, path, pkg, {})
        if tag.startswith("envelope-"):
            ytext = ytext.replace("      package: %s\n" % pkg, "      package: %s\n      forced_envelope: Envelope\n" % pkg, 1)
            if "forced_envelope" not in ytext:
                raise core.Inconclusive("could not set forced_envelope in the pipeline of %s" % tag)
        open(y, "w").write(ytext)
        jobs.append({"id": 90000 + n, "fmt": fmt, "yaml": y, "tag": "extra/" + tag})
    jf = os.path.join(d, "jobs.ndjson")
    open(jf, "w").write("".join(json.dumps(j) + "\n" for j in jobs))
    trace = os.path.join(d, "trace.ndjson")
    ctx.run_worker(["c05-parse"], stdin_path=jf, stdout_path=trace, timeout=1800, cwd=d)
    recs = [json.loads(x) for x in open(trace)]
    if len(recs) != len(jobs):
        raise core.Inconclusive("c05-parse returned %d records for %d jobs" % (len(recs), len(jobs)))
    tr = ctx.run_tlc("ParsersTrace", "ParsersTrace.cfg", workers=1, timeout=1800, files={"trace.ndjson": trace})
    consumed = [int(m.group(1)) for m in re.finditer(r'<<"CONSUMED", (\d+)>>', open(tr["out"], errors="replace").read())]
    if not consumed or consumed[-1] != len(recs):
        raise core.Inconclusive("ParsersTrace consumed %s of %d" % (consumed, len(recs)))
    fails = []
    for f in core.tagged_lines(tr["out"], "FAIL"):
        fails.append({"rec": recs[f["l"] - 1], "dangling": sorted(f["dangling"]), "shape": sorted(f["shape"])})
    parsed = sum(1 for r in recs if not r["err"])
    with_refs = sum(1 for r in recs if not r["err"] and '"k": "ref"' in json.dumps(r["post"]))
    return {"fails": fails, "tlc": [tr], "records": len(recs), "parsed": parsed, "with_refs": with_refs, "not_expressible": skipped,
            "errors": [{"id": r["id"], "fmt": r["fmt"], "error": r["error"][:160]} for r in recs if r["err"]][:5]}
