"""Growth item 3 (DESIGN Appendix E) - the converter IR, the IR half of C14.

requirement (spec/ConverterIR.tla): languages.ConverterGenerator.FromBuilder plans one OptionMapping per option (none for an
      option whose assignments were all mapped by earlier options: no path is mapped twice) and the constructor arguments;
      guards derived from the assignment paths (nullable items non-nil per NullableConfig, constants equal, arrays/strings
      non-empty, scalars different from their default, envelope fields non-nil); append/index options repeated over the
      array/map; options appending one branch of a disjunction struct to the same list grouped in ONE repeated mapping;
      one argument mapping per non-constant assignment by kind (runtime, disjunction, array, map, builder / choice, direct).
spec: ConverterIR.tla (ConverterOf - requirement as a function -, ConverterViolated - clause by clause comparison -),
      ConverterMC.tla (builder sets: one schema set with every field kind the converter distinguishes, rewritten by
      histories of veneer rules; design check MappedOnce), GrowthTrace.tla.
real code: FromAST + Rewriter.ApplyTo give the builders; NewConverterGenerator(cfg).FromBuilder(context, builder) runs for the
      go, java and php configurations on every builder; every distinct (language, builder, builder directory) is judged.

run_part(ctx) -> dict(fails=[(signature, what, replay, key)], coverage={...}, tlc=[...]);
signatures C14/converter-ir/<Header|ConstructorArgs|OneMappingPerOption|Grouping|Guards|Arguments>/<class>.
"""
import json
import os

from vlib import core
from checks import builders_common as bc
from checks import nilchecks_part as np_

NSLICES = 4
REQUIRED = ["arg:direct", "arg:builder", "arg:choice", "arg:array", "arg:map", "arg:disjunction", "arg:runtime", "arg-guards",
            "guard:not-nil", "guard:constant", "guard:non-empty-array", "guard:non-empty-string", "guard:non-default",
            "constructor-args", "option-without-mapping", "plain", "repeat-append", "repeat-index", "grouped-list-of-disjunction"]


def signature(rec, v):
    return "C14/converter-ir/%s/%s" % (v["clause"], v["class"])


def judge(ctx, tlc_out, tag):
    summ = os.path.join(ctx.scratch, "conv-%s-sum.json" % tag)
    trace = os.path.join(ctx.scratch, "conv-%s-trace.ndjson" % tag)
    tables = os.path.join(ctx.scratch, "conv-%s-tables.json" % tag)
    ctx.run_worker(["converter-replay", "-in", tlc_out, "-trace", trace, "-tables", tables], stdout_path=summ, timeout=3000)
    s = json.load(open(summ))
    res = {"summary": s, "fails": [], "accepted": 0, "classes": {}, "tlc": [], "accepted_records": [], "mappings": 0}
    if s["traced"] == 0:
        return res
    tb = json.load(open(tables))
    chunks, _n = bc.split_file(trace, 1000, ctx, "conv-%s-chunk" % tag)
    os.remove(trace)
    for path, _first in chunks:
        recs = [json.loads(x) for x in open(path)]
        tr, fails, stats, consumed = np_.run_growth_trace(ctx, path, tb)
        res["tlc"].append(tr)
        if consumed != len(recs):
            raise core.Inconclusive("GrowthTrace consumed %d of %d records" % (consumed, len(recs)))
        for i, rec in enumerate(recs, start=1):
            for c in stats.get(i, []):
                res["classes"][c] = res["classes"].get(c, 0) + 1
            res["mappings"] += sum(len(m["options"]) for m in rec["conv"]["mappings"])
            vs = fails.get(i)
            if not vs:
                res["accepted"] += 1
                if len(res["accepted_records"]) < 20 and rec["conv"]["mappings"]:
                    res["accepted_records"].append(rec)
                continue
            for v in vs:
                sig = signature(rec, v)
                res["fails"].append((sig, "%s for builder %s (%s configuration) after %s" % (
                    json.dumps(v), rec["builder"]["name"], rec["lang"], json.dumps([h["r"] for h in rec["hist"]])),
                    {"S": s["S"], "cfg": s["spec_cfg"], "hist": rec["hist"], "lang": rec["lang"], "builder": rec["builder"]["name"], "violated": v}, sig))
    return res


def replay_part(ctx, replay_obj):
    if ctx.worker is None:
        ctx.build_worker()
    f = os.path.join(ctx.scratch, "conv-replay.out")
    with open(f, "w") as out:
        out.write(bc.tlc_line("SC", {"S": replay_obj["S"], "B0": [], "cfg": replay_obj.get("cfg", {})}))
        out.write(bc.tlc_line("CASEC", {"hist": replay_obj["hist"], "post": [], "err": False}))
    return judge(ctx, f, "replay")["fails"]


def run_part(ctx):
    quick = ctx.quick()
    if ctx.worker is None:
        ctx.build_worker()
    consts = {"MaxLen": 2, "NSlices": 1, "Slice": 0} if quick else {"MaxLen": 3, "NSlices": NSLICES, "Slice": ctx.seed % NSLICES}
    r = ctx.run_tlc("ConverterMC", "ConverterMC.cfg", workers=8, timeout=2400, constants=consts)
    res = judge(ctx, r["out"], "mc")
    os.remove(r["out"])
    s = res["summary"]
    missing = [c for c in REQUIRED if res["classes"].get(c, 0) == 0]
    if missing:
        raise core.Inconclusive("converter IR: never required of a real builder: %s" % missing)
    binding = selftest(ctx, res["accepted_records"], s["S"])
    if binding.startswith("not run") and not res["fails"]:
        raise core.Inconclusive("converter IR binding self-test: no accepted record with a mapping")
    cov = {
        "converter_histories": s["cases"], "converter_records_judged_by_tlc": s["traced"], "converter_records_accepted": res["accepted"],
        "converter_option_mappings_in_judged_records": res["mappings"],
        "converter_states_equal_to_model": s["states_equal_to_model"], "converter_rejected_by_rewriter": s["rejected_by_rewriter"],
        "converter_per_language": s["per_language"], "converter_requirement_classes": res["classes"],
        "converter_binding_selftest": binding,
        "converter_observations_for_other_properties": s["observations_for_other_properties"],
        "converter_rule": "one record = one distinct (language configuration, builder, builders of the run): the builder as left by the real "
                          "rewriter after a history of <=%d veneer rules (24 instances%s) and the Converter the real "
                          "ConverterGenerator.FromBuilder plans for it; judged by TLC clause by clause against ConverterOf" % (
                              consts["MaxLen"], "" if quick else ", last rule sliced %d/%d" % (consts["Slice"], NSLICES)),
        "converter_samples": [{k: v for k, v in x.items() if k != "converter"} for x in (s["samples"] or [])],
    }
    return {"fails": res["fails"], "coverage": cov, "tlc": [r] + res["tlc"]}


def selftest(ctx, records, S):
    """A real record is accepted in Strict mode; the same record with one guard of one option mapping removed is rejected."""
    rec = None
    for r in records:
        for mi, m in enumerate(r["conv"]["mappings"]):
            for oi, o in enumerate(m["options"]):
                if o["guards"]:
                    rec, where = r, (mi, oi)
                    break
            if rec:
                break
        if rec:
            break
    if rec is None:
        return "not run: no real converter with a guarded option mapping was accepted (see the violations)"
    bad = json.loads(json.dumps(rec))
    bad["conv"]["mappings"][where[0]]["options"][where[1]]["guards"] = bad["conv"]["mappings"][where[0]]["options"][where[1]]["guards"][1:]
    d = ctx.sub("selftest-conv")
    names = set()

    def collect(v):
        if isinstance(v, dict):
            for x in v.values():
                collect(x)
        elif isinstance(v, list):
            for x in v:
                collect(x)
        elif isinstance(v, str) and v:
            names.add(v)
    collect(rec)
    tb = {"fold": {n: n.lower() for n in names} or {"p": "p"}, "singular": {"tags": "tag"}, "lcamel": {"Inner": "inner"},
          "ucamel": {"dataquery": "Dataquery"}, "schemas": [S]}
    res = {}
    for name, r in (("good", rec), ("bad", bad)):
        t = os.path.join(d, name + ".ndjson")
        open(t, "w").write(json.dumps(r) + "\n")
        out, _f, _s, _c = np_.run_growth_trace(ctx, t, tb, strict=True, allow_violation=True, timeout=300)
        res[name] = out["violated"]
    if res["good"] or not res["bad"]:
        raise core.Inconclusive("converter IR binding self-test failed: good rejected=%s bad rejected=%s" % (res["good"], res["bad"]))
    return "GrowthTrace(Strict) accepts a real Converter and rejects it with one guard of an option mapping removed"


def run(ctx):
    """Stand-alone entry (./vcheck CONVERTERIR_PART)."""
    if ctx.replay:
        rp = json.load(open(ctx.replay))
        fails = [f for f in replay_part(ctx, rp["replay"]) if f[0] == rp["signature"]]
        cov, tlc = {"evaluations": 1, "distinct_nontrivial": 0}, []
    else:
        part = run_part(ctx)
        fails, cov, tlc = part["fails"], part["coverage"], part["tlc"]
    known = {k["signature"] for k in core.load_known() if k.get("status", "known") == "known"}
    seen_known = set()
    for sig, what, replay, key in fails:
        if sig in known:
            seen_known.add(sig)
        else:
            ctx.fail(sig, what, replay, key)
    for sig in sorted(seen_known):
        print("KNOWN-FINDING: property=C14 [%s]" % sig)
    if tlc:
        cov.update({"states": sum(r["distinct"] for r in tlc), "transitions": sum(r["generated"] for r in tlc),
                    "traces_validated_against_impl": cov["converter_records_accepted"], "exhaustive": True,
                    "evaluations": cov["converter_records_judged_by_tlc"], "distinct_nontrivial": cov["converter_records_judged_by_tlc"],
                    "rule": cov["converter_rule"], "samples": cov["converter_samples"] or [{"note": "none drawn"}]})
    return ctx.finish("model_checking", cov, ["order of mappings and of guards is not compared",
                                              "the dashboard panel runtime special case is outside the universe"])
