"""Builders and converters of generated code: shared machinery of C09 and C14 (DESIGN 3.8, 4.5, 6).

Built ON TOP of the generated-code batch pipeline (checks/semantics_common.py): renderers, JV <-> python,
go build with per-package attribution and the scratch module layout are reused; what is added:

  TLC BuilderMC (index)    -> catalogue entries: schema term, builder transformations (veneers), the options
                              the requirement derives (name, argument types, assignments), specification defaults
  TLC BuilderMC (cases)    -> the builder state machine: call sequences of <= 3 options with the expected
                              internal object, nested-builder errors, raised flags, Build() verdict
  TLC BuilderMC (values)   -> C14: values of every builder type
  worker c09-gen           -> REAL pipeline with `builders: true`, `converters: true`, Go + Python, veneers
                              from a generated directory; dumps the builder IR the jennies received
  worker c09-glue          -> typed glue per generated package (go/parser on the generated builders)
  one go build, bdriver    -> runs call plans: option N with JSON arguments, nested builders from nested plans
  one python3 process      -> the same plans on the generated Python builders
  python twin + BuilderTrace.tla -> verdicts on the REAL outcomes, recomputed by TLC from the REAL defaults
"""
import collections
import json
import os
import random
import re
import shutil
import subprocess
import time

from vlib import core
from checks import semantics_common as sc

MODULE = sc.MODULE
FORMATS = sc.FORMATS
LANGS = ("go", "python")
GO_FLAGS = dict(sc.GO_FLAGS_FULL)


def ucamel(s):
    return s[:1].upper() + s[1:]


def snake(s):
    return re.sub(r"(?<=[a-z0-9])([A-Z])", r"_\1", s).lower()


def pick_named(items, want, key=lambda x: x["name"]):
    """The items called `want`: exactly, else in a generated spelling (UpperCamel method, snake_case function, lowerCamel
    branch), else the unique one equal up to case and underscores. Names that differ only in letter case stay apart."""
    hit = [x for x in items if key(x) == want]
    if hit:
        return hit
    styled = {ucamel(want), snake(want), want[:1].lower() + want[1:]}
    hit = [x for x in items if key(x) in styled]
    if len(hit) == 1:
        return hit
    rev = [x for x in items if want in {ucamel(key(x)), snake(key(x)), key(x)[:1].lower() + key(x)[1:]}]
    if len(rev) == 1:
        return rev
    hit = [x for x in items if norm_name(key(x)) == norm_name(want)]
    return hit if len(hit) == 1 else []


def norm_name(s):
    return s.replace("_", "").lower()


# ----------------------------------------------------------------------------------------------
# TLC: catalogue, cases, values
# ----------------------------------------------------------------------------------------------
def load_index(ctx):
    r = ctx.run_tlc("BuilderMC", "BuilderMC.cfg", workers=4, timeout=300,
                    constants={"Mode": '"index"', "Ids": "{}"})
    cat = {}
    for o in core.tagged_lines(r["out"], "INDEX"):
        o["S"] = sc.defs_of(o["schema"])
        o["B"] = {b["key"]: b for b in o["builders"]}
        o["D"] = {d["key"]: sc.jv_to_py(d["obj"]) for d in o["defaults"]}
        cat[o["id"]] = o
    if len(cat) != r["distinct"]:
        raise core.Inconclusive("BuilderMC index: %d INDEX lines for %d states" % (len(cat), r["distinct"]))
    os.remove(r["out"])
    return cat


def emit_cases(ctx, ids, maxlen=3, langs=LANGS, win=0, start=0):
    r = ctx.run_tlc("BuilderMC", "BuilderMC.cfg", workers=8, timeout=1500,
                    constants={"Mode": '"cases"', "Ids": "{%s}" % ",".join(str(i) for i in ids), "MaxLen": maxlen, "Win": win, "From": start,
                               "Langs": "{%s}" % ",".join('"%s"' % x for x in langs)})
    cases = collections.defaultdict(list)
    n = 0
    for c in core.tagged_lines(r["out"], "CASE"):
        cases[(c["id"], c["lang"])].append(c)
        n += 1
    if n != r["distinct"]:
        raise core.Inconclusive("BuilderMC cases: %d CASE lines for %d states" % (n, r["distinct"]))
    os.remove(r["out"])
    for k in cases:
        cases[k].sort(key=lambda c: (len(c["seq"]), sc.dumps(c["seq"])))
        for i, c in enumerate(cases[k]):
            c["n"] = i
            c["pyseq"] = [{"o": x["o"], "as": [sc.jv_to_py(a) for a in x["as"]]} for x in c["seq"]]
            c["pyobj"] = sc.jv_to_py(c["obj"])
    return cases, r


def emit_values(ctx, ids, mode="values"):
    r = ctx.run_tlc("BuilderMC", "BuilderMC.cfg", workers=4, timeout=1500,
                    constants={"Mode": '"%s"' % mode, "Ids": "{%s}" % ",".join(str(i) for i in ids), "Fuel": 4})
    vals = collections.defaultdict(list)
    n = 0
    for v in core.tagged_lines(r["out"], "VALUE"):
        v["py"] = sc.jv_to_py(v["v"])
        vals[v["id"]].append(v)
        n += 1
    if n != r["distinct"]:
        raise core.Inconclusive("BuilderMC values: %d VALUE lines for %d states" % (n, r["distinct"]))
    os.remove(r["out"])
    for i in vals:
        vals[i].sort(key=lambda v: (v["key"], sc.dumps(v["py"])))
        for k, v in enumerate(vals[i]):
            v["n"] = k
    return vals, r


# ----------------------------------------------------------------------------------------------
# python twin of BuilderMachine.tla (cross-checked against TLC on every case; TLC re-runs it on the real data)
# ----------------------------------------------------------------------------------------------
ABSENT = object()


def canon(v):
    """Semantics!Canon: absent / null / empty collection are one token; numbers by value; key order irrelevant."""
    if v is ABSENT or v is None:
        return None
    if isinstance(v, bool):
        return ("b", v)
    if isinstance(v, (int, float)):
        return ("n", float(v))
    if isinstance(v, str):
        return ("s", v)
    if isinstance(v, list):
        return ("a", tuple(canon(x) for x in v)) if v else None
    if isinstance(v, dict):
        ms = tuple(sorted((k, c) for k, c in ((k, canon(x)) for k, x in v.items()) if c is not None))
        return ("o", ms) if ms else None
    raise ValueError(repr(v))


def same_obj(a, b):
    return canon(a) == canon(b)


def field_of(t, n):
    for f in t["fields"]:
        if f["n"] == n:
            return f
    return None


def is_const_field(S, f):
    """python twin of BuilderMachine!IsConstF"""
    if f["t"]["k"] == "const":
        return True
    return f["req"] and not f["null"] and f["t"]["k"] == "ref" and unwrap(S, f["t"])["k"] == "const"


def const_val(S, f):
    return sc.jv_to_py(unwrap(S, f["t"])["v"])


def const_of_text(ft, s):
    """python twin of BuilderMachine!ConstOfText"""
    if ft["k"] == "bool":
        return s == "true"
    if ft["k"] in ("int", "num"):
        return 0 if s == "0" else 1 if s == "1" else 2
    return s


def as_struct(S, key, t):
    while True:
        if t["k"] == "ref":
            key, t = t["name"], S[t["name"]]
        elif t["k"] == "nullable":
            t = t["t"]
        else:
            return key, t


def unwrap(S, t):
    while t["k"] in ("ref", "nullable"):
        t = S[t["name"]] if t["k"] == "ref" else t["t"]
    return t


def type_at(S, key, t, path):
    for i, seg in enumerate(path):
        key, st = as_struct(S, key, t)
        f = field_of(st, seg)
        key, t = key + "." + f["n"], f["t"]
    return key, t


def is_builder_arg(S, t):
    k = t["k"]
    if k in ("struct", "dunion"):
        return True
    if k == "ref":
        return is_builder_arg(S, S[t["name"]])
    if k in ("arr", "map", "nullable"):
        return is_builder_arg(S, t["t"])
    return False


def disc_of(S, t, v):
    for r in t["refs"]:
        for f in S[r]["fields"]:
            if f["n"] == t["disc"] and f["t"]["k"] == "const" and isinstance(v, dict) and v.get(t["disc"], ABSENT) == sc.jv_to_py(f["t"]["v"]):
                return r
    return None


def built(S, D, key, t, v):
    k = t["k"]
    if k == "ref":
        return built(S, D, t["name"], S[t["name"]], v)
    if k == "nullable" and v is not None:
        return built(S, D, key, t["t"], v)
    if k == "arr" and isinstance(v, list):
        return [built(S, D, key, t["t"], x) for x in v]
    if k == "map" and isinstance(v, dict):
        return {mk: built(S, D, key, t["t"], x) for mk, x in v.items()}
    if k == "dunion" and isinstance(v, dict) and disc_of(S, t, v):
        r = disc_of(S, t, v)
        return built(S, D, r, S[r], v)
    if k == "struct" and isinstance(v, dict):
        acc = json.loads(json.dumps(D[key]))
        for mk, x in v.items():
            f = field_of(t, mk)
            if f is None or is_const_field(S, f):
                continue
            acc[mk] = built(S, D, key + "." + mk, f["t"], x)
        return acc
    return v


def validate_errs(S, t, v, path=()):
    """python twin of Semantics!ValidateErrs restricted to the kinds of the builder catalogue."""
    k = t["k"]
    if k in ("int", "num"):
        return {path} if (isinstance(v, (int, float)) and not isinstance(v, bool) and not sc._bounds_ok(t, v)) else set()
    if k == "str":
        ok = (t["mn"] == -1 or len(v) >= t["mn"]) and (t["mx"] == -1 or len(v) <= t["mx"]) if isinstance(v, str) else True
        return set() if ok else {path}
    if k == "nullable":
        return set() if v is None else validate_errs(S, t["t"], v, path)
    if k == "arr" and isinstance(v, list):
        out = set()
        for i, x in enumerate(v):
            out |= validate_errs(S, t["t"], x, path + ("#%d" % i,))
        return out
    if k == "map" and isinstance(v, dict):
        out = set()
        for mk, x in v.items():
            out |= validate_errs(S, t["t"], x, path + (mk,))
        return out
    if k == "ref":
        return validate_errs(S, S[t["name"]], v, path)
    if k == "dunion" and isinstance(v, dict):
        r = disc_of(S, t, v)
        if r is None:
            # Semantics picks the first branch the strict decoder accepts; without a discriminator none does
            return set()
        return validate_errs(S, S[r], v, path)
    if k == "struct" and isinstance(v, dict):
        out = set()
        for f in t["fields"]:
            if f["n"] in v and v[f["n"]] is not None:
                out |= validate_errs(S, f["t"], v[f["n"]], path + (f["n"],))
        return out
    return set()


def apply_at(S, D, key, t, obj, path, m, val, mk):
    key, st = as_struct(S, key, t)
    n = path[0]
    f = field_of(st, n)
    ck = key + "." + n
    obj = dict(obj)
    if len(path) == 1:
        if m == "direct":
            obj[n] = val
        elif m == "append":
            cur = obj.get(n)
            obj[n] = (list(cur) if isinstance(cur, list) else []) + [val]
        else:
            cur = obj.get(n)
            cur = dict(cur) if isinstance(cur, dict) else {}
            cur[mk] = val
            obj[n] = cur
        return obj
    cur = obj.get(n)
    ckey, _ = as_struct(S, ck, f["t"])
    child = cur if isinstance(cur, dict) else json.loads(json.dumps(D[ckey]))
    obj[n] = apply_at(S, D, ck, f["t"], child, path[1:], m, val, mk)
    return obj


class Machine:
    """One run of the machine; keeps what the signatures need (which call was bad, why)."""

    def __init__(self, lang, entry, D, root="Root"):
        self.lang, self.S, self.D, self.entry = lang, entry["S"], D, entry
        self.b = entry["B"][root]
        self.rk, self.rt = root, entry["S"][root]
        self.obj = json.loads(json.dumps(D[root]))
        self.errs = []        # paths (tuples) whose nested builder failed
        self.raised = []
        self.calls = []       # per call: dict(bad, nested, path, m, vt, reassigned...)

    def call(self, c):
        asgs = self.b["ctor"]["asgs"] if c["o"] == 0 else self.b["opts"][c["o"] - 1]["asgs"]
        info = {"o": c["o"], "bad": False, "nested": False, "paths": [], "m": None, "violations": []}
        raised = False
        for a in asgs:
            key, t = type_at(self.S, self.rk, self.rt, a["path"])
            vt = t if a["m"] == "direct" else unwrap(self.S, t)["t"]
            ats = self.b["ctor"]["args"] if c["o"] == 0 else self.b["opts"][c["o"] - 1]["args"]
            if a["src"] > 0 and unwrap(self.S, vt)["k"] == "dunion" and ats[a["src"] - 1]["k"] == "ref" and ats[a["src"] - 1]["name"] in unwrap(self.S, vt)["refs"]:
                vt = ats[a["src"] - 1]       # the option takes ONE branch of the union
            given = sc.jv_to_py(a["c"]) if a["src"] == 0 else c["as"][a["src"] - 1]
            b = built(self.S, self.D, key, vt, given)
            viol = validate_errs(self.S, vt, given if self.lang == "python" else b)
            bad = bool(viol)
            info["paths"].append(tuple(a["path"]))
            info["m"] = a["m"]
            info["vt"] = vt
            if bad:
                info["bad"] = True
                info["violations"] = sorted(viol)
                info["nested"] = is_builder_arg(self.S, vt)
            if bad and self.lang == "python":
                raised = True
                break
            if bad and is_builder_arg(self.S, vt):
                self.errs.append(tuple(a["path"]))
                break
            mk = c["as"][a["key"] - 1] if a["key"] else None
            self.obj = apply_at(self.S, self.D, self.rk, self.rt, self.obj, a["path"], a["m"], b, mk)
            info.setdefault("assigned", []).append(tuple(a["path"]))
        self.raised.append(raised)
        self.calls.append(info)

    def run(self, seq):
        for c in seq:
            self.call(c)
        return self

    def fails(self):
        return self.lang == "go" and (bool(self.errs) or bool(validate_errs(self.S, self.rt, self.obj)))

    def ambiguous(self):
        """a failed nested builder whose target (or a part / a prefix of it) was assigned again later"""
        for i, ci in enumerate(self.calls):
            if not (ci["bad"] and ci["nested"]) or self.lang != "go":
                continue
            for cj in self.calls[i + 1:]:
                for p in cj.get("assigned", []):
                    for q in ci["paths"]:
                        if p[:len(q)] == q or q[:len(p)] == p:
                            return True
        return False


def consts_ok(S, t, v):
    k = t["k"]
    if k == "ref":
        return consts_ok(S, S[t["name"]], v)
    if k == "nullable":
        return v is None or consts_ok(S, t["t"], v)
    if k == "arr" and isinstance(v, list):
        return all(consts_ok(S, t["t"], x) for x in v)
    if k == "map" and isinstance(v, dict):
        return all(consts_ok(S, t["t"], x) for x in v.values())
    if k == "dunion" and isinstance(v, dict):
        return any(consts_ok(S, S[r], v) for r in t["refs"])
    if k == "struct" and isinstance(v, dict):
        for f in t["fields"]:
            x = v.get(f["n"], ABSENT)
            if is_const_field(S, f):
                c = const_val(S, f)
                if x is ABSENT or type(x) is not type(c) or x != c:
                    return False
            elif x is not ABSENT and x is not None and not consts_ok(S, f["t"], x):
                return False
        return True
    return True


def first_missing_const(S, t, v, path=()):
    """where a constant is missing (for the signature)"""
    k = t["k"]
    if k == "ref":
        return first_missing_const(S, S[t["name"]], v, path)
    if k == "nullable":
        return None if v is None else first_missing_const(S, t["t"], v, path)
    if k == "arr" and isinstance(v, list):
        for i, x in enumerate(v):
            r = first_missing_const(S, t["t"], x, path + ("#%d" % i,))
            if r:
                return r
        return None
    if k == "map" and isinstance(v, dict):
        for mk, x in v.items():
            r = first_missing_const(S, t["t"], x, path + (mk,))
            if r:
                return r
        return None
    if k == "dunion" and isinstance(v, dict):
        r0 = None
        for r in t["refs"]:
            m = first_missing_const(S, S[r], v, path)
            if m is None:
                return None
            r0 = r0 or m
        return r0
    if k == "struct" and isinstance(v, dict):
        for f in t["fields"]:
            x = v.get(f["n"], ABSENT)
            if is_const_field(S, f):
                c = const_val(S, f)
                if x is ABSENT or type(x) is not type(c) or x != c:
                    return path + (f["n"],)
            elif x is not ABSENT and x is not None:
                r = first_missing_const(S, f["t"], x, path + (f["n"],))
                if r:
                    return r
    return None


# ----------------------------------------------------------------------------------------------
# generation
# ----------------------------------------------------------------------------------------------
def pkg_name(eid, fmt):
    return "b%03d%s" % (eid, sc.FMT_LETTER[fmt])


def veneer_yaml(entry, pkg):
    """The builder transformations of a catalogue entry as a cog veneers file (language: all)."""
    builders, options, flavour_inits, flavoured = [], [], [], []
    for r in entry["rules"]:
        if r["k"] == "ctor":
            builders.append("  - promote_options_to_constructor:\n      by_object: %s\n      options: [%s]\n" % (r["obj"], ", ".join(r["fields"])))
        elif r["k"] == "unfold":
            options.append("  - struct_fields_as_options:\n      by_name: %s.%s\n      fields: [%s]\n" % (r["obj"], r["field"], ", ".join(r["fields"])))
        elif r["k"] == "side":
            options.append("  - add_assignment:\n      by_name: %s.%s\n      assignment:\n        path: %s\n        method: direct\n        value: { constant: %s }\n"
                           % (r["obj"], r["field"], ".".join(r["fields"][1:]), r["fields"][0]))
        elif r["k"] == "merge":
            builders.append("  - merge_into:\n      destination: %s\n      source: %s\n      under_path: %s\n" % (r["obj"], r["field"], ".".join(r["fields"])))
        elif r["k"] == "init":
            builders.append("  - initialize:\n      by_name: %s\n      set:\n        - {property: %s, value: %s}\n" % (
                r["obj"], ".".join(r["fields"][1:]), r["fields"][0] if r["fields"][0] != "" else '""'))
        elif r["k"] == "dup":
            options.append("  - duplicate:\n      by_name: %s.%s\n      as: %s\n" % (r["obj"], r["field"], r["fields"][0]))
        elif r["k"] == "renarg":
            options.append("  - rename_arguments:\n      by_name: %s.%s\n      as: [%s]\n" % (r["obj"], r["field"], ", ".join(r["fields"])))
        elif r["k"] == "bdup":
            builders.append("  - duplicate:\n      by_name: %s\n      as: %s\n" % (r["obj"], r["field"]))
        elif r["k"] == "flavour":
            # several builders for one object: duplicate + initialize; the original builder is omitted after the last flavour
            builders.append("  - duplicate:\n      by_name: %s\n      as: %s\n      exclude_options: [%s]\n" % (r["obj"], r["field"], r["fields"][0]))
            flavour_inits.append("  - initialize:\n      by_name: %s\n      set:\n        - {property: %s, value: %s}\n" % (r["field"], r["fields"][0], r["fields"][1]))
            if r["obj"] not in flavoured:
                flavoured.append(r["obj"])
        elif r["k"] == "disj":
            # natural option names are the branch names (Go: field of the union struct, python: lowerCamelCase of the type)
            S = entry["S"]
            et = unwrap(S, unwrap(S, field_of(S[r["obj"]], r["field"])["t"])["t"])
            options.append("  - array_to_append:\n      by_name: %s.%s\n" % (r["obj"], r["field"]))
            options.append("  - disjunction_as_options:\n      by_name: %s.%s\n" % (r["obj"], r["field"]))
            # Go's builder for the struct that stands for the union is not part of this API (one option per branch instead)
            om = "  - omit:\n      by_name: %s\n" % "Or".join(et["refs"])
            if om not in builders:
                builders.append(om)
            for ref, name in zip(et["refs"], r["fields"]):
                if norm_name(ref) != norm_name(name):
                    options.append("  - rename:\n      by_name: %s.%s\n      as: %s\n" % (r["obj"], ref, name))
        elif r["k"] == "args":
            options.append("  - struct_fields_as_arguments:\n      by_name: %s.%s\n      fields: [%s]\n" % (r["obj"], r["field"], ", ".join(r["fields"])))
        elif r["k"] == "append":
            options.append("  - array_to_append:\n      by_name: %s.%s\n" % (r["obj"], r["field"]))
        elif r["k"] == "index":
            options.append("  - map_to_index:\n      by_name: %s.%s\n" % (r["obj"], r["field"]))
        else:
            raise core.Inconclusive("unknown builder rule %r" % (r,))
    for obj in flavoured:
        builders.append("  - omit:\n      by_name: %s\n" % obj)
    builders += flavour_inits
    y = "language: all\npackage: %s\n" % pkg
    if builders:
        y += "builders:\n" + "".join(builders)
    if options:
        y += "options:\n" + "".join(options)
    return y


def _walk_types(t):
    yield t
    if t["k"] in ("arr", "map", "nullable"):
        yield from _walk_types(t["t"])


def companion_schema(schema):
    """A second package for the same run: every struct of the entry (but the root) is defined AGAIN under the same bare name
    with a different definition, and a root of its own refers to them. It is never driven; it is there so that whatever
    cog keys by a bare name meets two different definitions, with the other package sorting before and after."""
    def fld(n, t):
        return {"n": n, "t": t, "req": True, "null": False, "def": {"j": "none"}}
    names = [d["name"] for d in schema["defs"] if d["t"]["k"] == "struct" and d["name"] != schema["root"]]
    defs = [{"name": n, "t": {"k": "struct", "fields": [fld("t", {"k": "str", "mn": 1, "mx": -1}), fld("flag", {"k": "bool"})]}} for n in names]

    def unconstrained(t):
        t = dict(t)
        if t["k"] in ("int", "num"):
            t["lo"], t["hi"] = {"b": "none", "v": 0}, {"b": "none", "v": 0}
        elif t["k"] == "str":
            t["mn"], t["mx"] = -1, -1
        elif t["k"] in ("arr", "map", "nullable"):
            t["t"] = unconstrained(t["t"])
        return t
    # named scalars / collections: the same name, the same shape, WITHOUT the constraints
    for d in schema["defs"]:
        if d["t"]["k"] in ("int", "num", "str", "arr", "map") and all(x["k"] != "ref" for x in _walk_types(d["t"])):
            defs.append({"name": d["name"], "t": unconstrained(d["t"])})
            names.append(d["name"])
    root = {"name": schema["root"], "t": {"k": "struct", "fields": [fld("x" + n.lower(), {"k": "ref", "name": n}) for n in names]
                                          + [fld("w", {"k": "str", "mn": -1, "mx": -1})]}}
    return {"defs": [root] + defs, "root": schema["root"]}


def _input_yaml(fmt, path, package):
    if fmt == "cue":
        return "  - cue:\n      entrypoint: '%s'\n      package: %s\n" % (path, package)
    return "  - %s:\n      path: '%s'\n      package: %s\n" % (fmt, path, package)


def pipeline_yaml(fmt, path, package, veneers_dir, converters, python, before=(), after=()):
    inp = "".join(_input_yaml(fmt, p_, k_) for p_, k_ in before) + _input_yaml(fmt, path, package) + \
        "".join(_input_yaml(fmt, p_, k_) for p_, k_ in after)
    y = "debug: false\ninputs:\n" + inp
    if veneers_dir:
        y += "transformations:\n  builders: ['%s']\n" % veneers_dir
    y += "output:\n  directory: '%l'\n  types: true\n  builders: true\n"
    if converters:
        y += "  converters: true\n"
    y += "  languages:\n    - go:\n        package_root: '%s/go'\n" % MODULE
    for k, v in sorted(GO_FLAGS.items()):
        y += "        %s: %s\n" % (k, "true" if v else "false")
    if python:
        y += "    - python:\n        generate_json_marshaller: true\n"
    return y


class BBatch:
    def __init__(self):
        self.cat = {}
        self.ids = []
        self.units = {}      # pkg -> dict(id, fmt, pkg, status, text, ir{lang}, glue, bind{lang})
        self.gen_dir = None
        self.driver = None
        self.stats = collections.Counter()
        self.timing = {}
        self.unused_imports_removed = []
        self.converters = False
        self.python = True
        self.assumptions = []


def generate(ctx, batch, formats=FORMATS):
    t0 = time.time()
    gen = ctx.sub("bgen")
    batch.gen_dir = gen
    inputs = os.path.join(gen, "_in")
    irdir = os.path.join(gen, "_ir")
    os.makedirs(inputs)
    os.makedirs(irdir)
    open(os.path.join(gen, "go.mod"), "w").write("module %s\n\ngo 1.21\n" % MODULE)
    jobs = []
    for eid in batch.ids:
        entry = batch.cat[eid]
        for fmt in formats:
            pkg = pkg_name(eid, fmt)
            u = {"id": eid, "fmt": fmt, "pkg": pkg, "status": "pending", "ir": {}, "bind": {}}
            batch.units[pkg] = u
            try:
                text = sc.render(entry["schema"], fmt, pkg)
            except sc.NotExpressible as e:
                u["status"], u["why"] = "not_expressible", str(e)
                batch.stats["not_expressible"] += 1
                continue
            u["text"] = text
            if fmt == "cue":
                d = os.path.join(inputs, pkg)
                os.makedirs(d)
                open(os.path.join(d, pkg + ".cue"), "w").write(text)
                path = d
            else:
                path = os.path.join(inputs, pkg + ".json")
                open(path, "w").write(text)
            vdir = None
            if entry["rules"]:
                vdir = os.path.join(inputs, pkg + "-veneers")
                os.makedirs(vdir)
                open(os.path.join(vdir, "v.yaml"), "w").write(veneer_yaml(entry, pkg))
                u["veneers"] = veneer_yaml(entry, pkg)
            # two companion packages (same bare names, other definitions), one sorting before and one after the entry's package
            comp = {}
            for pre in ("a", "z"):
                cpkg = pre + pkg[1:]
                ctext = sc.render(companion_schema(entry["schema"]), fmt, cpkg)
                if fmt == "cue":
                    cd = os.path.join(inputs, cpkg)
                    os.makedirs(cd)
                    open(os.path.join(cd, cpkg + ".cue"), "w").write(ctext)
                    comp[pre] = (cd, cpkg)
                else:
                    cp_ = os.path.join(inputs, cpkg + ".json")
                    open(cp_, "w").write(ctext)
                    comp[pre] = (cp_, cpkg)
            u["companions"] = [comp["a"][1], comp["z"][1]]
            yp = os.path.join(inputs, pkg + ".yaml")
            open(yp, "w").write(pipeline_yaml(fmt, path, pkg, vdir, batch.converters, batch.python, before=[comp["a"]], after=[comp["z"]]))
            jobs.append({"id": pkg, "yaml": yp, "root": gen, "ir": irdir})
    nsh = min(sc.NSHARDS, max(1, len(jobs)))
    shards = [jobs[i::nsh] for i in range(nsh)]
    procs = []
    for i, sh in enumerate(shards):
        if not sh:
            continue
        inp = os.path.join(inputs, "jobs-%d.ndjson" % i)
        out = os.path.join(inputs, "jobs-%d.out" % i)
        open(inp, "w").write("".join(json.dumps(j) + "\n" for j in sh))
        p = subprocess.Popen([ctx.worker, "c09-gen"], stdin=open(inp), stdout=open(out, "w"), stderr=subprocess.PIPE,
                             env=ctx.goenv(), cwd=gen)
        procs.append((p, out, sh))
    for p, out, sh in procs:
        _, err = p.communicate(timeout=1800)
        res = [json.loads(x) for x in open(out)]
        if p.returncode != 0 or len(res) != len(sh):
            core.log(err.decode(errors="replace")[-2000:])
            raise core.Inconclusive("c09-gen failed (exit %s, %d/%d results)" % (p.returncode, len(res), len(sh)))
        for r in res:
            u = batch.units[r["id"]]
            if r.get("panic"):
                u["status"], u["why"] = "codegen_panic", r["panic"]
                batch.stats["codegen_panic"] += 1
            elif not r["ok"]:
                u["status"], u["why"] = "codegen_error", r.get("err", "")
                batch.stats["codegen_error"] += 1
            else:
                u["status"] = "generated"
                u["files"] = r["files"]
                for lang in r.get("languages", []):
                    allb = json.load(open(os.path.join(irdir, "%s.%s.json" % (u["pkg"], lang))))["builders"]
                    u["ir"][lang] = [b_ for b_ in allb if b_["pkg"] == u["pkg"]]      # the companions' builders are not driven
    batch.timing["generate_s"] = round(time.time() - t0, 2)
    return batch


def install_dump(ctx, batch):
    """Generated converters call cog.Dump, which cog's Go runtime jenny does not emit: it is copied from
    /repo/testdata/generated/cog/runtime.go (CURRENT tree) into the generated cog package (DESIGN 4.5)."""
    src = open(os.path.join(core.REPO, "testdata", "generated", "cog", "runtime.go")).read()
    i = src.find("\nfunc Dump(")
    if i < 0:
        raise core.Inconclusive("cog.Dump not found in testdata/generated/cog/runtime.go")
    body = src[i:]
    for name in ("dumpValue", "dumpArray", "dumpMap", "dumpStruct", "reflectValueIsNil"):
        if "func %s(" % name not in body:
            raise core.Inconclusive("cog.Dump helper %s not found after Dump in testdata runtime.go" % name)
    dst = os.path.join(batch.gen_dir, "go", "cog", "verif_dump.go")
    open(dst, "w").write("// Copied by the verification harness from testdata/generated/cog/runtime.go (Dump and its helpers).\n\n"
                         "package cog\n\nimport (\n\t\"fmt\"\n\t\"reflect\"\n\t\"strings\"\n)\n" + body)
    batch.assumptions.append("generated converters call cog.Dump, which the Go runtime jenny does not emit: `Dump` and its helpers are copied "
                             "verbatim from /repo/testdata/generated/cog/runtime.go (current tree) into the generated `cog` package")


def build(ctx, batch):
    t0 = time.time()
    gen = batch.gen_dir
    todo = [u for u in batch.units.values() if u["status"] == "generated"]
    if not todo:
        raise core.Inconclusive("no package was generated")
    if batch.converters:
        install_dump(ctx, batch)
    # glue
    reg = os.path.join(gen, "verifreg")
    os.makedirs(reg)
    shutil.copy(os.path.join(core.VERIF, "harness", "semdriver", "verifreg.go.txt"), os.path.join(reg, "verifreg.go"))
    d = ctx.sub("glue")
    inp, outp = os.path.join(d, "in.ndjson"), os.path.join(d, "out.ndjson")
    with open(inp, "w") as f:
        for u in todo:
            f.write(json.dumps({"id": u["pkg"], "dir": os.path.join(gen, "go", u["pkg"]), "pkg": u["pkg"], "module": MODULE}) + "\n")
    ctx.run_worker(["c09-glue"], stdin_path=inp, stdout_path=outp)
    for line in open(outp):
        r = json.loads(line)
        u = batch.units[r["id"]]
        if not r["ok"]:
            u["status"], u["why"] = "glue_error", r.get("err", "")
            batch.stats["glue_error"] += 1
        else:
            u["glue"] = {norm_name(b["name"]): b for b in r["builders"]}
    rc, diags, other = sc._go_build(ctx, gen, ["./go/..."])
    if rc != 0 and not diags:
        core.log("\n".join(other[-30:]))
        raise core.Inconclusive("go build failed without attributable diagnostics")
    if "cog" in diags:
        raise core.Inconclusive("the generated runtime package does not compile: %s" % diags["cog"][:3])
    retry = []
    for u in todo:
        if u["status"] != "generated":
            continue
        ds = diags.get(u["pkg"], [])
        if not ds:
            u["status"] = "ok"
            continue
        u["diagnostics"] = ["%s: %s" % (os.path.basename(d_[0]), d_[2]) for d_ in ds][:8]
        if all(sc._UNUSED.match(d_[2]) for d_ in ds):
            by_file = collections.defaultdict(list)
            for f, line, msg in ds:
                by_file[f].append((line, sc._UNUSED.match(msg).group(1)))
            for f, items in by_file.items():
                p = os.path.join(gen, f)
                lines = open(p).read().split("\n")
                for line, imp in sorted(items, reverse=True):
                    if '"%s"' % imp not in lines[line - 1]:
                        raise core.Inconclusive("cannot locate unused import %s in %s:%d" % (imp, f, line))
                    del lines[line - 1]
                    batch.unused_imports_removed.append((u["pkg"], imp))
                open(p, "w").write("\n".join(lines))
            u["status"] = "retry"
            retry.append(u)
        else:
            u["status"] = "not_executable"
            batch.stats["not_executable"] += 1
    if retry:
        rc, diags2, other = sc._go_build(ctx, gen, ["./go/" + u["pkg"] for u in retry])
        for u in retry:
            ds = diags2.get(u["pkg"], [])
            if ds:
                u["status"] = "not_executable"
                u["diagnostics"] += ["%s: %s" % (os.path.basename(d_[0]), d_[2]) for d_ in ds][:8]
                batch.stats["not_executable"] += 1
            else:
                u["status"] = "ok"
                batch.stats["ok_after_unused_import_removal"] += 1
    good = sorted(u["pkg"] for u in batch.units.values() if u["status"] == "ok")
    if not good:
        for u in batch.units.values():
            core.log(u["pkg"], u["status"], u.get("why", ""), u.get("diagnostics", ""))
        raise core.Inconclusive("no generated package with builders compiles")
    drv = os.path.join(gen, "bdriver")
    os.makedirs(drv)
    shutil.copy(os.path.join(core.VERIF, "harness", "semdriver", "bdriver.go.txt"), os.path.join(drv, "main.go"))
    open(os.path.join(drv, "imports_gen.go"), "w").write(
        "package main\n\nimport (\n" + "".join('\t_ "%s/go/%s"\n' % (MODULE, p) for p in good) + ")\n")
    batch.driver = os.path.join(gen, "bdrv")
    rc, diags, other = sc._go_build(ctx, gen, ["./bdriver"], out=batch.driver)
    if rc != 0:
        core.log("\n".join(other[-20:]), dict(diags))
        raise core.Inconclusive("the builder driver does not build")
    batch.timing["build_s"] = round(time.time() - t0, 2)
    return batch


def run_go(ctx, batch, commands, name="seq"):
    d = ctx.sub("bdrv-" + name)
    inp, out = os.path.join(d, "in.ndjson"), os.path.join(d, "out.ndjson")
    with open(inp, "w") as f:
        for c in commands:
            f.write(json.dumps(c, separators=(",", ":")) + "\n")
    t0 = time.time()
    p = subprocess.run([batch.driver], stdin=open(inp), stdout=open(out, "w"), stderr=subprocess.PIPE, timeout=3600)
    if p.returncode != 0:
        core.log(p.stderr.decode(errors="replace")[-3000:])
        raise core.Inconclusive("builder driver exited with %d" % p.returncode)
    res = {}
    with open(out) as f:
        for line in f:
            r = json.loads(line)
            res[r["id"]] = r
    if len(res) != len(commands):
        raise core.Inconclusive("builder driver answered %d of %d commands" % (len(res), len(commands)))
    batch.timing["go_%s_s" % name] = round(time.time() - t0, 2)
    return res


_PY_DRIVER = r'''
import importlib, json, sys
GEN = sys.argv[1]
sys.path.insert(0, GEN)
from python.cog.encoder import JSONEncoder

def norm(s):
    return s.replace("_", "").lower()

FIRST_FRESH = {}
_mods = {}
def mod(pkg):
    if pkg not in _mods:
        _mods[pkg] = importlib.import_module("python.builders." + pkg)
    return _mods[pkg]

def snake(s):
    import re
    return re.sub(r"(?<=[a-z0-9])([A-Z])", r"_\1", s).lower()

def find(obj, name):
    # exact, then the generated spelling (snake_case), then the unique attribute equal up to case and underscores
    for cand in (name, snake(name)):
        if not cand.startswith("_") and hasattr(obj, cand):
            return getattr(obj, cand)
    n = norm(name)
    hits = [a for a in dir(obj) if not a.startswith("_") and norm(a) == n]
    if len(hits) == 1:
        return getattr(obj, hits[0])
    raise LookupError("no unique attribute like %s on %r (%s)" % (name, obj, hits))

def mk_arg(pkg, a):
    k = a["k"]
    if k == "plain":
        return a["plain"]
    if k == "builder":
        return mk_builder(pkg, a["builder"])
    if k == "list":
        return [mk_arg(pkg, x) for x in a["list"]]
    if k == "map":
        return {kv["k"]: mk_arg(pkg, kv["v"]) for kv in a["map"]}
    raise LookupError("bad plan " + k)

def mk_builder(pkg, plan):
    cls = find(mod(pkg), plan["type"])
    b = cls(*[mk_arg(pkg, x) for x in plan["new"]])
    for c in plan["calls"]:
        find(b, c["opt"])(*[mk_arg(pkg, x) for x in c["args"]])
    return b

for line in sys.stdin:
    if not line.strip():
        continue
    c = json.loads(line)
    r = {"id": c["id"], "raised": [], "kinds": [], "enc": None, "has_enc": False, "enc_err": None, "harness_err": None, "aborted": False,
         "build2_same": None, "again_same": None, "again_diff": None, "fresh_same": True}
    try:
        cls = find(mod(c["pkg"]), c["type"])
    except Exception as e:
        r["harness_err"] = "%s: %s" % (type(e).__name__, e)
        print(json.dumps(r)); continue
    b = None
    try:
        b = cls(*[mk_arg(c["pkg"], x) for x in c["new"]])
        # the freshly constructed object must not depend on what happened before in this process
        fkey = c["pkg"] + "." + c["type"] + json.dumps(c["new"], sort_keys=True)
        try:
            fresh = json.dumps(b.build(), cls=JSONEncoder, sort_keys=True)
            if fkey in FIRST_FRESH:
                r["fresh_same"] = FIRST_FRESH[fkey] == fresh
            else:
                FIRST_FRESH[fkey] = fresh
        except Exception:
            pass
        if c.get("type_default") and not c["new"]:
            try:
                models = importlib.import_module("python.models." + c["pkg"])
                r["type_default"] = json.loads(json.dumps(find(models, c["object"])(), cls=JSONEncoder))
            except Exception:
                pass
        if c.get("ctor_in_seq"):
            r["raised"].append(None); r["kinds"].append(None)
    except LookupError as e:
        r["harness_err"] = "%s: %s" % (type(e).__name__, e)
        print(json.dumps(r)); continue
    except Exception as e:
        r["raised"].append("%s: %s" % (type(e).__name__, e)); r["kinds"].append(type(e).__name__)
        r["aborted"] = True
        print(json.dumps(r)); continue
    bad = False
    for call in c["calls"]:
        try:
            opt = find(b, call["opt"])
        except LookupError as e:
            r["harness_err"] = "%s: %s" % (type(e).__name__, e); bad = True; break
        try:
            args = [mk_arg(c["pkg"], x) for x in call["args"]]
            opt(*args)
            r["raised"].append(None); r["kinds"].append(None)
            try:
                b.build()      # build() between the calls must not change what follows
            except Exception:
                pass
        except LookupError as e:
            r["harness_err"] = "%s: %s" % (type(e).__name__, e); bad = True; break
        except Exception as e:
            r["raised"].append("%s: %s" % (type(e).__name__, e)); r["kinds"].append(type(e).__name__)
    if not bad:
        try:
            obj = b.build()
            first = json.dumps(obj, cls=JSONEncoder, sort_keys=True)
            r["enc"] = json.loads(first)
            r["has_enc"] = True
            r["build2_same"] = json.dumps(b.build(), cls=JSONEncoder, sort_keys=True) == first
            # the same plan on a second fresh builder (calls that raised the first time raise again and are skipped again)
            if not any(r["raised"]):
                try:
                    b2 = mk_builder(c["pkg"], {"type": c["type"], "new": c["new"], "calls": c["calls"]})
                    second = json.dumps(b2.build(), cls=JSONEncoder, sort_keys=True)
                    r["again_same"] = second == first
                    if second != first:
                        r["again_diff"] = second
                except Exception as e:
                    r["again_same"] = False
                    r["again_diff"] = "%s: %s" % (type(e).__name__, e)
        except Exception as e:
            r["enc_err"] = "%s: %s" % (type(e).__name__, e)
    print(json.dumps(r))
'''


def run_python(ctx, batch, commands, name="seq"):
    d = ctx.sub("pydrv-" + name)
    script = os.path.join(d, "drv.py")
    open(script, "w").write(_PY_DRIVER)
    inp, out = os.path.join(d, "in.ndjson"), os.path.join(d, "out.ndjson")
    with open(inp, "w") as f:
        for c in commands:
            f.write(json.dumps(c, separators=(",", ":")) + "\n")
    t0 = time.time()
    env = dict(os.environ)
    env["PYTHONDONTWRITEBYTECODE"] = "1"
    p = subprocess.run(["/usr/bin/python3", script, batch.gen_dir], stdin=open(inp), stdout=open(out, "w"), stderr=subprocess.PIPE,
                       timeout=3600, env=env)
    if p.returncode != 0:
        core.log(p.stderr.decode(errors="replace")[-3000:])
        raise core.Inconclusive("python builder driver exited with %d" % p.returncode)
    res = {}
    with open(out) as f:
        for line in f:
            r = json.loads(line)
            res[r["id"]] = r
    if len(res) != len(commands):
        raise core.Inconclusive("python builder driver answered %d of %d commands" % (len(res), len(commands)))
    batch.timing["python_%s_s" % name] = round(time.time() - t0, 2)
    return res


# ----------------------------------------------------------------------------------------------
# binding: options of the specification <-> cog's builder IR <-> generated API
# ----------------------------------------------------------------------------------------------
class BindError(Exception):
    pass


def _ir_by_object(ir, obj):
    hits = [b for b in ir if norm_name(b["object"]) == norm_name(obj)]
    return hits[0] if hits else None


def _shape_has_builder(sh):
    k = sh["k"]
    if k == "builder":
        return True
    if k in ("arr", "map"):
        return _shape_has_builder(sh["t"])
    if k == "disj":
        return any(_shape_has_builder(b) for b in sh["branches"])
    return False


def bind(entry, u, lang):
    """Type keys of the specification -> IR builders; specification options -> IR options (same name, same
    assignment paths and methods). Returns {key: {"ir": builder, "opts": [ir option per spec option], "ctor": ...}}."""
    ir = u["ir"].get(lang)
    if ir is None:
        raise BindError("no builder IR for " + lang)
    out = {}
    # named keys first, inline structs through their owner's field shape
    for key in sorted(entry["B"], key=lambda k: k.count(".")):
        if "." in key:
            owner, field = key.rsplit(".", 1)
            ob = out.get(owner)
            if ob is None:
                raise BindError("owner of %s is unbound" % key)
            fs = [f for f in ob["ir"]["fields"] if f["name"] == field]
            if not fs or fs[0]["shape"]["k"] != "builder":
                raise BindError("inline struct %s has no builder in %s (shape %s)" % (key, lang, fs[0]["shape"] if fs else None))
            irb = _ir_by_object(ir, fs[0]["shape"]["obj"])
        else:
            irb = _ir_by_object(ir, key)
        if irb is None:
            raise BindError("no %s builder for %s" % (lang, key))
        sb = entry["B"][key]
        opts = []
        for so in sb["opts"]:
            hit = pick_named(irb["options"], so["name"])
            if not hit:
                # the generated builder has no such option (where the requirement leaves that open - an optional reference to a
                # constant - this is not a verdict): its calls are skipped and listed, everything else of the builder is judged
                opts.append(None)
                u.setdefault("derived_options_missing", []).append("%s %s.%s" % (lang, key, so["name"]))
                continue
            if len(hit) != 1:
                raise BindError("%s builder %s: %d options named %s" % (lang, key, len(hit), so["name"]))
            io = dict(hit[0])
            if len(io["args"]) != len(so["args"]) or len(io["asgs"]) != len(so["asgs"]):
                raise BindError("%s builder %s option %s: %d argument(s) / %d assignment(s) in the IR, derived %d / %d" % (
                    lang, key, so["name"], len(io["args"]), len(io["asgs"]), len(so["args"]), len(so["asgs"])))
            # The EXPECTED targets are the derived ones ("one assignment per option derived from the field path"); where cog's IR
            # carries other paths the generated code is judged against the derivation (exact-target), the difference is listed.
            if sorted((a["path"], a["method"]) for a in io["asgs"]) != sorted((a["path"], a["m"]) for a in so["asgs"]):
                u.setdefault("ir_differs_from_derivation", []).append("%s %s.%s: IR %s, derived %s" % (
                    lang, key, so["name"], [(a["path"], a["method"]) for a in io["asgs"]], [(a["path"], a["m"]) for a in so["asgs"]]))
            # position of the specification's argument j in the generated signature
            names = [a["name"] for a in io["args"]]
            argpos = {}
            for n_, sa in enumerate(so["asgs"]):
                if sa["src"] == 0:
                    continue        # a constant riding on the option: no argument
                same = [a for a in io["asgs"] if a["path"] == sa["path"]]
                ia = same[0] if same else io["asgs"][n_]
                if ia["arg"] not in names or (sa["key"] and ia["key"] not in names):
                    raise BindError("%s builder %s option %s: assignment %s is not fed by an argument" % (lang, key, so["name"], ia["path"]))
                argpos[sa["src"]] = names.index(ia["arg"])
                if sa["key"]:
                    argpos[sa["key"]] = names.index(ia["key"])
            io["argpos"] = argpos
            opts.append(io)
        ctor = irb["ctor"]
        cargs = [a for a in ctor["asgs"] if a["arg"]]
        if [a["path"] for a in cargs] != [a["path"] for a in sb["ctor"]["asgs"]]:
            raise BindError("%s builder %s: constructor arguments %s differ from the derived %s" % (
                lang, key, [a["path"] for a in cargs], [a["path"] for a in sb["ctor"]["asgs"]]))
        out[key] = {"ir": irb, "opts": opts, "ctor": ctor,
                    "alts": [b for b in ir if norm_name(b["object"]) == norm_name(irb["object"]) and b is not irb]}
        if lang == "go":
            g = u["glue"].get(norm_name(irb["name"]))
            if g is None:
                raise BindError("no generated Go builder for %s" % irb["name"])
            for io in [x for x in opts if x is not None]:
                if not pick_named(g["options"], io["name"]):
                    raise BindError("generated Go builder %s has no method for option %s" % (g["name"], io["name"]))
            out[key]["go"] = g
    return out


def _json_kind(v):
    if isinstance(v, bool):
        return "bool"
    if isinstance(v, int):
        return "int"
    if isinstance(v, float):
        return "float"
    if isinstance(v, str):
        return "string"
    return "other"


_SK = {"string": ("string", "bytes"), "bool": ("bool",), "int": ("int8", "int16", "int32", "int64", "uint8", "uint16", "uint32", "uint64"),
       "float": ("float32", "float64")}


class Planner:
    """Turns a JV argument value into a call plan for one language of one unit."""

    def __init__(self, entry, u, lang, bound, variant=0):
        self.e, self.u, self.lang, self.bound = entry, u, lang, bound
        # Where the generated API offers several equivalent ways (an option and its duplicate, a builder and its copy), variant k
        # takes the k-th one; has_choice tells the caller that another variant would exercise other generated code.
        self.variant, self.has_choice = variant, False
        self.S = entry["S"]
        self.ir = u["ir"][lang]

    def opt_name(self, irb, io):
        if self.lang == "go":
            g = self.u["glue"][norm_name(irb["name"])]
            return pick_named(g["options"], io["name"])[0]["name"]
        return io["name"]

    def type_name(self, irb):
        if self.lang == "go":
            return self.u["glue"][norm_name(irb["name"])]["name"]
        return irb["name"]

    def plain(self, v):
        return {"k": "plain", "plain": v}

    def arg(self, shape, key, t, v):
        """shape: IR argument shape; (key, t): specification type; v: python JSON value"""
        if not _shape_has_builder(shape):
            return self.plain(v)
        while t["k"] in ("ref", "nullable"):
            if t["k"] == "ref":
                key, t = t["name"], self.S[t["name"]]
            else:
                t = t["t"]
        k = shape["k"]
        if k == "arr":
            return {"k": "list", "list": [self.arg(shape["t"], key, t["t"], x) for x in v]}
        if k == "map":
            return {"k": "map", "map": [{"k": mk, "v": self.arg(shape["t"], key, t["t"], x)} for mk, x in v.items()]}
        if k == "disj":
            # python: an inline disjunction; struct branches go through their builder, scalars are plain
            if t["k"] == "dunion" and isinstance(v, dict):
                r = disc_of(self.S, t, v)
                for b in shape["branches"]:
                    if b["k"] == "builder" and norm_name(b["obj"]) == norm_name(r or ""):
                        return self.arg(b, r, self.S[r], v)
                raise BindError("no builder branch for %s in %s" % (r, shape))
            return self.plain(v)
        if k == "builder":
            irb = _ir_by_object(self.ir, shape["obj"])
            if irb is None:
                raise BindError("no builder for object %s" % shape["obj"])
            same = [b for b in self.ir if norm_name(b["object"]) == norm_name(irb["object"])]
            if len(same) > 1 and not any(r["k"] == "flavour" for r in self.e["rules"]):
                # a duplicated builder: identical options, another generated class
                self.has_choice = True
                irb = same[self.variant % len(same)]
            if irb["disjunction"]:
                return {"k": "builder", "builder": self.union_plan(irb, key, t, v)}
            if t["k"] == "dunion":
                # the argument is ONE branch of the union (disjunction_as_options): the value names it
                r = disc_of(self.S, t, v)
                if r is None:
                    raise BindError("value of no branch for builder %s" % irb["name"])
                key, t = r, self.S[r]
            return {"k": "builder", "builder": self.struct_plan(irb, key, t, v)}
        raise BindError("unknown shape %s" % shape)

    def union_plan(self, irb, key, t, v):
        """Go: a disjunction became a struct with one pointer field (and one option) per branch."""
        if t["k"] == "dunion":
            r = disc_of(self.S, t, v)
            for io in irb["options"]:
                sh = io["args"][0]["shape"]
                if sh["k"] == "builder" and norm_name(sh["obj"]) == norm_name(r or ""):
                    return {"type": self.type_name(irb), "new": [], "calls": [{"opt": self.opt_name(irb, io), "args": [self.arg(sh, r, self.S[r], v)]}]}
            raise BindError("union builder %s has no option for branch %s" % (irb["name"], r))
        if t["k"] == "union":
            jk = _json_kind(v)
            cands = []
            for io in irb["options"]:
                sh = io["args"][0]["shape"]
                if sh["k"] == "plain" and sh.get("sk") in _SK.get(jk, ()):
                    cands.append(io)
            if not cands and jk == "int":   # an integer is also a number
                cands = [io for io in irb["options"] if io["args"][0]["shape"].get("sk") in _SK["float"]]
            if not cands:
                raise BindError("union builder %s has no option for a %s" % (irb["name"], jk))
            return {"type": self.type_name(irb), "new": [], "calls": [{"opt": self.opt_name(irb, cands[0]), "args": [self.plain(v)]}]}
        raise BindError("value of kind %s for union builder %s" % (t["k"], irb["name"]))

    def struct_plan(self, irb, key, t, v):
        """one option call per member of the value; constants have no option; promoted options are constructor arguments"""
        if t["k"] != "struct" or not isinstance(v, dict):
            raise BindError("struct value expected for builder %s, got %s" % (irb["name"], t["k"]))
        D = self.e["D"]
        new, promoted = [], set()
        cargs = [a for a in irb["ctor"]["asgs"] if a["arg"]]
        ctor0 = [sc.jv_to_py(x) for x in (self.e["B"][key]["ctor0"] if key in self.e["B"] else [])]
        for j, (a, arg) in enumerate(zip(cargs, irb["ctor"]["args"])):
            f = a["path"][0]
            promoted.add(f)
            ft = field_of(t, f)["t"]
            # a member the value does not give: the argument the default object was constructed with
            val = v[f] if f in v else (ctor0[j] if j < len(ctor0) else D[key].get(f))
            new.append(self.arg(arg["shape"], key + "." + f, ft, val))
        calls = []
        sb = self.e["B"].get(key)

        def calls_for(prefix, st, skey, val):
            for mk, x in val.items():
                f = field_of(st, mk)
                if f is None or is_const_field(self.S, f) or (not prefix and mk in promoted):
                    continue
                path = prefix + [mk]
                names = [o["name"] for o in (sb["opts"] if sb else []) if len(o["asgs"]) == 1 and o["asgs"][0]["path"] == path and o["asgs"][0]["m"] == "direct"]
                if not sb and not prefix:
                    names = [mk]
                if len(names) > 1:
                    self.has_choice = True       # the option and its duplicate(s)
                hit = pick_named(irb["options"], names[self.variant % len(names)]) if names else []
                if len(hit) == 1 and len(hit[0]["args"]) == 1:
                    calls.append({"opt": self.opt_name(irb, hit[0]), "args": [self.arg(hit[0]["args"][0]["shape"], skey + "." + mk, f["t"], x)]})
                    continue
                # a list filled by appending options (one per union branch, or one for the element type): one call per element
                apps = [o for o in (sb["opts"] if sb else []) if len(o["asgs"]) == 1 and o["asgs"][0]["path"] == path and o["asgs"][0]["m"] == "append"]
                if apps and isinstance(x, list):
                    et = unwrap(self.S, unwrap(self.S, f["t"])["t"])
                    for el in x:
                        so_ = apps[0]
                        if et["k"] == "dunion":
                            r_ = disc_of(self.S, et, el)
                            cand = [o for o in apps if o["args"][0].get("name") == r_]
                            if not cand:
                                raise BindError("builder %s: no appending option for branch %s" % (irb["name"], r_))
                            so_ = cand[0]
                        io_ = pick_named(irb["options"], so_["name"])
                        if len(io_) != 1:
                            raise BindError("builder %s: no option %s" % (irb["name"], so_["name"]))
                        calls.append({"opt": self.opt_name(irb, io_[0]), "args": [self.arg(io_[0]["args"][0]["shape"], skey + "." + mk, et, el)]})
                    continue
                ckey, ct = as_struct(self.S, skey + "." + mk, f["t"])
                if isinstance(x, dict) and ct["k"] == "struct":
                    # the member's own option was unfolded into options of its fields (struct fields as options)
                    calls_for(path, ct, ckey, x)
                    continue
                raise BindError("builder %s: no single-argument option for member %s" % (irb["name"], ".".join(path)))

        calls_for([], t, key, v)
        return {"type": self.type_name(irb), "new": new, "calls": calls}

    def root_command(self, root_key, seq, ctor_vals=None):
        """The command for one call sequence on the builder of `root_key` (specification option indices)."""
        b = self.bound[root_key]
        irb, sb = b["ir"], self.e["B"][root_key]
        key, t = root_key, self.S[root_key] if root_key in self.S else None
        calls, new = [], []
        ctor_in_seq = False
        cargs = [a for a in irb["ctor"]["asgs"] if a["arg"]]
        seq = list(seq)
        if cargs:
            if seq and seq[0]["o"] == 0:
                vals = seq[0]["as"]
                seq = seq[1:]
                ctor_in_seq = True
            else:
                vals = ctor_vals
            for a, arg, val in zip(cargs, irb["ctor"]["args"], vals):
                fk, ft = type_at(self.S, root_key, self.S[root_key], a["path"])
                new.append(self.arg(arg["shape"], fk, ft, val))
        for c in seq:
            so, io = sb["opts"][c["o"] - 1], b["opts"][c["o"] - 1]
            if io is None:
                raise BindError("the generated builder has no option %s" % so["name"])
            args = [None] * len(io["args"])
            for a in so["asgs"]:
                if a["src"] == 0:
                    continue
                fk, ft = type_at(self.S, root_key, self.S[root_key], a["path"])
                vt = ft if a["m"] == "direct" else unwrap(self.S, ft)["t"]
                at = so["args"][a["src"] - 1]
                if vt["k"] == "dunion" and at["k"] == "ref" and at["name"] in vt["refs"]:
                    vt = at          # the option takes ONE branch of the union: its own argument type says which
                args[io["argpos"][a["src"]]] = self.arg(io["args"][io["argpos"][a["src"]]]["shape"], fk, vt, c["as"][a["src"] - 1])
                if a["key"]:
                    args[io["argpos"][a["key"]]] = self.plain(c["as"][a["key"] - 1])
            calls.append({"opt": self.opt_name(irb, io), "args": args})
        return {"pkg": self.u["pkg"], "type": self.type_name(irb), "new": new, "calls": calls, "ctor_in_seq": ctor_in_seq}


def default_commands(entry, u, lang, bound):
    """One command per type key: the freshly constructed builder (constructor arguments = a valid value of each
    promoted option's type)."""
    pl = Planner(entry, u, lang, bound)
    cmds = {}
    for key in bound:
        sb = entry["B"][key]
        vals = [sc.jv_to_py(x) for x in sb["ctor0"]]    # valid arguments (Semantics!Base of each promoted option's type)
        c = pl.root_command(key, [], ctor_vals=vals)
        c["ctor_in_seq"] = False
        c["object"] = bound[key]["ir"]["object"]
        c["type_default"] = True
        cmds[key] = c
        for alt in bound[key].get("alts", []):
            if any(a["arg"] for a in alt["ctor"]["asgs"]):
                continue
            cmds["%s@%s" % (key, alt["name"])] = {"pkg": u["pkg"], "type": pl.type_name(alt), "new": [], "calls": [], "ctor_in_seq": False}
    return cmds


# ----------------------------------------------------------------------------------------------
# the common batch for C09 / C14
# ----------------------------------------------------------------------------------------------
def usable(u, lang):
    """A unit whose Go package does not compile is still driven in Python (the Python output does not depend on it)."""
    return u["status"] == "ok" or (lang == "python" and u["status"] == "not_executable")


def soft_inconclusive(ctx, msg):
    """A gate of the check itself (vacuity, self-test, harness trouble on SOME cases) must not turn observed violations into
    exit 2: with a not-yet-listed violation on record the run ends as a violation and the gate's message is kept as a note."""
    known = {k["signature"] for k in core.load_known() if k["property"] == ctx.pid and k.get("status", "known") == "known" and "signature" in k}
    if any(f["signature"] not in known for f in ctx.failures):
        ctx.notes.append("would have been inconclusive without the violations above: " + msg)
        return
    raise core.Inconclusive(msg)


def run_bbatch(ctx, ids=None, formats=FORMATS, converters=False, python=True, c09_only=False):
    if ctx.worker is None:
        ctx.build_worker()
    b = BBatch()
    b.converters, b.python = converters, python
    b.cat = load_index(ctx)
    b.ids = sorted(i for i in b.cat if c09_only is False or b.cat[i]["c09"]) if ids is None else sorted(ids)
    generate(ctx, b, formats)
    build(ctx, b)
    langs = LANGS if python else ("go",)
    for u in b.units.values():
        for lang in langs:
            if not usable(u, lang):
                continue
            try:
                u["bind"][lang] = bind(b.cat[u["id"]], u, lang)
            except BindError as e:
                u["bind"][lang] = None
                u.setdefault("bind_err", {})[lang] = str(e)
                b.stats["bind_error:" + lang] += 1
    core.log("builder batch: %d entries, units %s; gen %.1fs build %.1fs; bind errors %s" % (
        len(b.ids), dict(collections.Counter(u["status"] for u in b.units.values())), b.timing["generate_s"], b.timing["build_s"],
        {u["pkg"]: u["bind_err"] for u in b.units.values() if u.get("bind_err")}))
    return b


def real_defaults(ctx, batch, langs=LANGS):
    """{(pkg, lang): {key: default object}} from freshly constructed builders of the real generated code."""
    go_cmds, py_cmds, index = [], [], []
    for u in batch.units.values():
        entry = batch.cat[u["id"]]
        for lang in langs:
            bound = u["bind"].get(lang) if usable(u, lang) else None
            if not bound:
                continue
            try:
                cmds = default_commands(entry, u, lang, bound)
            except BindError as e:
                u["bind"][lang] = None
                u.setdefault("bind_err", {})[lang] = "defaults: %s" % e
                continue
            for key, c in cmds.items():
                c["id"] = "%s/%s/%s" % (u["pkg"], lang, key)
                c["op"] = "seq"
                (go_cmds if lang == "go" else py_cmds).append(c)
                index.append((u["pkg"], lang, key, c["id"]))
    gres = run_go(ctx, batch, go_cmds, "defaults") if go_cmds else {}
    pres = run_python(ctx, batch, py_cmds, "defaults") if py_cmds else {}
    out = collections.defaultdict(dict)
    problems = []
    batch.type_defaults = collections.defaultdict(dict)     # (pkg, lang) -> key -> the TYPE's own default object (New<T>() / models.T())
    batch.construction_failures = []                        # (pkg, lang, key, what): the generated constructor itself crashed
    for pkg, lang, key, cid in index:
        if lang == "go":
            r = gres[cid]
            if r.get("panic") and not r.get("glue_err"):
                batch.construction_failures.append((pkg, lang, key, "panic: " + r["panic"]))
            if r.get("glue_err") or r.get("panic") or not r.get("peek"):
                problems.append((cid, r.get("glue_err") or r.get("panic")))
                continue
            out[(pkg, lang)][key] = r["peek"]
            if r.get("type_default") is not None:
                batch.type_defaults[(pkg, lang)][key] = r["type_default"]
        else:
            r = pres[cid]
            if not r.get("harness_err") and any(r["raised"]):
                batch.construction_failures.append((pkg, lang, key, str([x for x in r["raised"] if x][0])))
            if r.get("harness_err") or not r.get("has_enc") or any(r["raised"]):
                problems.append((cid, r.get("harness_err") or r.get("enc_err") or r["raised"]))
                continue
            out[(pkg, lang)][key] = r["enc"]
            if r.get("type_default") is not None:
                batch.type_defaults[(pkg, lang)][key] = r["type_default"]
    return out, problems
