"""C05 — every reference in the intermediate representation resolves.

Parts (DESIGN.md 6 C05):
  (b) built-in chain of every language never turns a resolving reference (builder targets included) into a
      dangling one           -> langchains_common (LangChainsMC inputs, real ContextForLanguage, LangChainsTrace)
  (c) name-changing transformations keep every reference resolving, all sequences
  (d) allowed_objects keeps exactly the listed objects plus everything they reference
                             -> transforms_common (TransformsMC edges/chains, real passes, TransformsTrace)
  (a) parser outputs         -> checks/c05_parsers (when the generated-code catalogue is available)
TLC proves on the design (TransformsMC invariant RefsPreserved) that the requirement-level transformations keep
AllRefsResolve; every real step that differs from the requirement is judged by TLC on the REAL post-state.
"""
import json

from vlib import core
from checks import transforms_common as tc
from checks import langchains_common as lc
from checks import c05_parsers as cp


def run(ctx):
    if ctx.replay:
        raise core.Inconclusive("replay: re-run ./vcheck C05 with the tier/seed recorded in the replay file")
    # (c), (d)
    t = tc.run_edges(ctx)
    n_edges = sum(s["edges"] for s in t["summaries"])
    n_match = sum(s["matched"] for s in t["summaries"])
    name_changing = {"rename_object", "prefix_objects_names", "duplicate_object", "unspec", "replace_reference"}
    nc_edges = 0
    for s in t["summaries"]:
        for k, v in s["per_action_nontrivial"].items():
            if set(k.split(">")) & (name_changing | {"allowed_objects"}):
                nc_edges += v
    for f in t["fails"]:
        rec = f["rec"]
        clauses = [c for c in f["violated"] if c in ("RefsStayResolved", "FilterExact", "SelfRefsStay")]
        for c in clauses:
            sig = "C05/%s/%s/%s/sel=%s" % (rec["act"]["a"], c, "+".join(f["dangling"]) or "-", rec.get("sel", "?"))
            ctx.fail(sig, "after %s the real schemas violate %s (dangling: %s)" % (json.dumps(rec["act"]), c, f["dangling"]),
                     {"pre": rec["pre"], "act": rec["act"], "real_post": rec["post"]})
    if nc_edges == 0:
        raise core.Inconclusive("no name-changing transformation changed a state: vacuous")
    # (b)
    l = lc.run_chains(ctx)
    for f in l["fails"]:
        rec = f["rec"]
        if f["dangling"]:
            sig = "C05/chain:%s/AllRefsResolve/%s" % (rec["lang"], "+".join(f["dangling"]))
            ctx.fail(sig, "the %s chain leaves dangling %s; input shape %s leaf %s at %s" % (rec["lang"], f["dangling"], rec["shape"], rec["leaf"], rec["pos"]),
                     {"shape": rec["shape"], "leaf": rec["leaf"], "pos": rec["pos"], "lang": rec["lang"]}, key=lc.case_key(rec))
    # (a)
    a = cp.run_parsers(ctx)
    for f in a["fails"]:
        rec = f["rec"]
        sig = "C05/parser:%s/%s/%s" % (rec["fmt"], "AllRefsResolve" if f["dangling"] else "Shape", "+".join(f["dangling"] + f["shape"]))
        ctx.fail(sig, "the %s parser output for catalogue schema %s (%s) has dangling %s %s" % (rec["fmt"], rec["id"], rec["tag"], f["dangling"], f["shape"]),
                 {"id": rec["id"], "fmt": rec["fmt"], "tag": rec["tag"], "post": rec["post"]}, key="%s|%s" % (rec["fmt"], rec["tag"]))
    if a["with_refs"] < 10:
        raise core.Inconclusive("parser part: only %d parsed outputs contain references" % a["with_refs"])
    st = l["stats"]
    ok_runs = st["records"] - sum(v for k, v in st.items() if k.startswith("errors/"))
    tlc = t["tlc"] + l["tlc"] + a["tlc"]
    cov = {
        "states": sum(r["distinct"] for r in tlc),
        "transitions": sum(r["generated"] for r in tlc),
        "traces_validated_against_impl": n_match + l["records"] + a["parsed"],
        "exhaustive": True,
        "evaluations": n_edges + st["records"] + a["records"],
        "distinct_nontrivial": nc_edges + ok_runs + a["with_refs"],
        "rule": "evaluations = transformation edges/chains replayed on the real passes + real language-chain runs; non-trivial = "
                "edges of name-changing transformations or allowed_objects that change the state, and chain runs that returned an IR; "
                "inputs of both parts resolve by construction (TLC invariants WellFormed / RefsPreserved antecedent)",
        "parts": {"c,d": {"edges": n_edges, "matching_spec": n_match, "name_changing_or_filter_nontrivial": nc_edges,
                          "real_steps_judged_by_tlc": t["trace_records"]},
                  "b": {"chain_runs": st["records"], "returned_ir": ok_runs, "universe": l["consts"]},
                  "a": {k: a[k] for k in ("records", "parsed", "with_refs", "not_expressible", "errors")}},
        "samples": (l["samples"][:2] + [s for x in t["summaries"] for s in (x["samples"] or [])][:1]) or [{"note": "none"}],
        "checker_cmd": "tlc TransformsMC + worker c15-replay + tlc TransformsTrace; tlc LangChainsMC + worker c06-run + tlc LangChainsTrace",
    }
    return ctx.finish("model_checking", cov, [
        "references into packages that are not loaded are outside the claim",
        "a discriminator-mapping target (a bare name) resolves if an object of that name exists in the package of the enclosing schema or of one of the union's reference branches",
        "parser outputs: catalogue schemas of Semantics.tla in three renderings plus three fixed reference-bearing documents (explicit discriminator mapping, recursion, enum-member constants)",
    ])
