"""C12 - the JSON Schema and OpenAPI documents cog emits (validity, $ref resolution, names, required-ness,
constraints, enum values, defaults; every encoding of a value of the generated Go types validates).

spec: EmitSchema.tla (EmitExpect/EmitDoc, Diffs, Dangling, EAccepts), EmitSchemaMC.tla (catalogue of SemanticsMC +
      cross-package / constants / defaults / nullable schemas; INDEX, CASE, EXPECT emission; ExpectSound invariant),
      EmitSchemaTrace.tla (TLC recomputes every verdict on what the real code emitted and encoded)
real code: the real codegen.Pipeline with output languages go + jsonschema + openapi for every schema in three input
      formats (cross-package schemas: two CUE inputs, one importing the other); the emitted files are loaded by python
      jsonschema (Draft7), kin-openapi and cog's own parsers; the generated Go code is compiled and encodes documents.
"""
import collections
import json
import os
import re
import subprocess
import time

from vlib import core
from checks import semantics_common as sc
from checks import emit_common as ec

EXTRA_LANGUAGES = ("    - jsonschema: {}\n", "    - openapi: {}\n")
EXTRA_LANGUAGES_COMPACT = ("    - jsonschema:\n        compact: true\n", "    - openapi:\n        compact: true\n")


def render_with_intersections(schema, fmt, package, orig_render):
    """Schemas whose index entry lists `inter` hints: the named definitions are spelled as the intersection (allOf / CUE
    embedding) of the listed objects and an inline struct with the remaining fields. Everything else is sc.render."""
    hints = schema.get("_inter_hints") or []
    if not hints:
        return orig_render(schema, fmt, package)
    S = sc.defs_of(schema)
    if fmt in ("jsonschema", "openapi"):
        doc = json.loads(orig_render(schema, fmt, package))
        defs = doc["definitions"] if fmt == "jsonschema" else doc["components"]["schemas"]
        prefix = "#/definitions/" if fmt == "jsonschema" else "#/components/schemas/"
        for h in hints:
            inherited = {f["n"] for b in h["of"] for f in S[b]["fields"]}
            d = defs[h["name"]]
            rest = {"type": "object", "properties": {k: v for k, v in d["properties"].items() if k not in inherited}}
            req = [r for r in d.get("required", []) if r not in inherited]
            if req:
                rest["required"] = req
            defs[h["name"]] = {"allOf": [{"$ref": prefix + b} for b in h["of"]] + [rest]}
        return json.dumps(doc, indent=1)
    c = sc._Cue()
    bodies = []
    hmap = {h["name"]: h for h in hints}
    for d in schema["defs"]:
        if d["name"] in hmap:
            h = hmap[d["name"]]
            inherited = {f["n"] for b in h["of"] for f in S[b]["fields"]}
            rest = c.ty({"k": "struct", "fields": [f for f in d["t"]["fields"] if f["n"] not in inherited]})
            embeds = "".join("\t#%s\n" % b for b in h["of"])
            bodies.append("#%s: {\n%s%s" % (d["name"], embeds, rest[2:]))
        else:
            bodies.append("#%s: %s" % (d["name"], c.ty(d["t"])))
    head = "package %s\n\n" % package
    if c.imports:
        head += "import (\n%s)\n\n" % "".join('\t"%s"\n' % i for i in sorted(c.imports))
    return head + "\n\n".join(c.hoisted + bodies) + "\n"


def root_of(entry):
    """The name the root object carries in the IR the jennies consume: the catalogue's root, or what the schema transformations
    of the entry's pipeline configuration make of it (EmitSchemaMC!PEntry, `rootAs`)."""
    return entry.get("rootAs") or entry["schema"]["root"]


def passes_yaml(entry, pkg):
    """The schema transformations of a catalogue entry as a compiler-passes file of the REAL pipeline configuration."""
    y = "passes:\n"
    for p in entry["passes"]:
        if p["k"] == "schema_set_entry_point":
            y += "  - schema_set_entry_point:\n      package: %s\n      entry_point: %s\n" % (pkg, p["obj"])
        elif p["k"] == "rename_object":
            y += "  - rename_object:\n      from: %s.%s\n      to: %s\n" % (pkg, p["obj"], p["to"])
        else:
            raise core.Inconclusive("unknown schema transformation %s" % p["k"])
    return y


def make_yaml_hook(batch):
    def hook(sid, fmt, pkg, ytext):
        entry = batch.cat[sid]
        if not entry.get("passes"):
            return ytext
        path = os.path.join(batch.gen_dir, "_in", pkg + ".passes.yaml")
        open(path, "w").write(passes_yaml(entry, pkg))
        batch.units[pkg]["passes_text"] = passes_yaml(entry, pkg)
        return ytext + "transformations:\n  schemas:\n    - '%s'\n" % path
    return hook


def compact_of(sid):
    """The output option `compact` belongs to the enumerated configuration: it alternates with the schema id."""
    return sid % 2 == 1


def _langs(sid):
    return EXTRA_LANGUAGES_COMPACT if compact_of(sid) else EXTRA_LANGUAGES

OUT_FORMATS = ("jsonschema", "openapi")
CLAUSES = ("valid", "ref-resolves", "names", "required", "constraints", "enum", "default", "encode-validates", "own-parser",
           "roundtrip", "rejects-invalid")
NQUICK = 30
NSIM = 3000         # thorough: seeded tlc -simulate draws from the large catalogue (EmitSchemaMC!BigAt)
MUST_LABELS = {"BreakBound": "constraints", "NonMember": "enum", "DropRequired": "required", "Probe": "constraints"}
MAX_DISAGREE = 0.03


# ----------------------------------------------------------------------------------------------
# TLC: catalogue, cases, expectations
# ----------------------------------------------------------------------------------------------
def load_index(ctx):
    r = ctx.run_tlc("EmitSchemaMC", "EmitSchemaMC.cfg", workers=4, timeout=300,
                    constants={"XMode": '"index"', "Ids": "{}", "Fuel": 3})
    cat = {o["id"]: o for o in core.tagged_lines(r["out"], "INDEX")}
    if len(cat) != r["distinct"]:
        raise core.Inconclusive("EmitSchemaMC index: %d INDEX lines for %d states" % (len(cat), r["distinct"]))
    os.remove(r["out"])
    return cat


def load_cases(ctx, ids):
    r = ctx.run_tlc("EmitSchemaMC", "EmitSchemaMC.cfg", workers=8, timeout=1500,
                    constants={"XMode": '"cases"', "Ids": "{%s}" % ",".join(str(i) for i in ids), "Fuel": 3})
    cases = collections.defaultdict(list)
    expects = {}
    n = 0
    for c in core.tagged_lines(r["out"], "CASE"):
        cases[c["id"]].append(c)
        n += 1
    for e in core.tagged_lines(r["out"], "EXPECT"):
        expects[e["id"]] = e
        n += 1
    if n != r["distinct"]:
        raise core.Inconclusive("EmitSchemaMC cases: %d lines for %d states" % (n, r["distinct"]))
    os.remove(r["out"])
    for i in cases:
        cases[i].sort(key=lambda c: (c["f"] != "base", c["f"], c["p"], sc.dumps(c["doc"])))
        for k, c in enumerate(cases[i]):
            c["n"] = k
            c["py"] = sc.jv_to_py(c["doc"])
    return cases, expects, r


def select(ctx, cat):
    ids = sorted(cat)
    if not ctx.quick():
        return ids
    special = [i for i in ids if cat[i]["pos"] in ("fixed", "c12")]
    rest = {i: cat[i] for i in ids if i not in special and cat[i]["pos"] != "c12t"}    # c12t: thorough tier only
    return sorted(special + sc.select_schemas(ctx, rest, NQUICK))


def draw_big(ctx, n):
    """Thorough tier: `tlc -simulate -seed <seed>`: every behaviour of EmitSchemaMC (XMode = "sim") draws one schema of
    the large catalogue (every leaf kind x every position; defaults x required-ness x nullability)."""
    r = ctx.run_tlc("EmitSchemaMC", "EmitSchemaMC.cfg", workers=1, timeout=600, simulate="num=%d" % n, depth=3,
                    constants={"XMode": '"sim"', "Ids": "{}", "Fuel": 3})
    drawn = {}
    lines = 0
    for o in core.tagged_lines(r["out"], "INDEX"):
        drawn[o["id"]] = o
        lines += 1
    if lines != n:
        raise core.Inconclusive("EmitSchemaMC sim: %d INDEX lines for %d draws" % (lines, n))
    os.remove(r["out"])
    return drawn


# ----------------------------------------------------------------------------------------------
# cross-package generation: two CUE packages, one importing the other
# ----------------------------------------------------------------------------------------------
class _XCue(sc._Cue):
    """CUE text of ONE package of a multi-package schema: references to definitions of other packages are spelled
    `<package>.#<Name>` and recorded in `used` (the packages to import)."""

    def __init__(self, pk, own, here, real):
        super().__init__()
        self.pk, self.own, self.here, self.real = pk, own, here, real
        self.used = set()

    def _ref(self, name):
        q = self.pk.get(name, "")
        n = self.own.get(name, name)
        if q == self.here:
            return "#" + n
        self.used.add(q)
        return "%s.#%s" % (self.real(q), n)

    def ty(self, t, field_ctx=False):
        if t["k"] == "ref":
            return self._ref(t["name"])
        if t["k"] == "dunion":
            return " | ".join(self._ref(r) for r in t["refs"])
        return super().ty(t, field_ctx)


def render_xpkgs(entry, main):
    """-> ({real package name: CUE text}, {real package: set of real packages it imports}, {term pkg: real pkg}).
    The main package is `main`, the foreign package `p` of the schema term is `main + p`."""
    schema, fs = entry["schema"], entry["foreign"]
    pk = {f["name"]: f["pkg"] for f in fs}
    own = {f["name"]: f["as"] for f in fs}

    def real(p):
        return main if p == "" else main + p
    texts, deps = {}, {}
    for p in [""] + sorted(set(pk.values())):
        c = _XCue(pk, own, p, real)
        bodies = ["#%s: %s" % (own.get(d["name"], d["name"]), c.ty(d["t"])) for d in schema["defs"] if pk.get(d["name"], "") == p]
        if "" in c.used and p != "":
            raise sc.NotExpressible("a foreign package refers to the main package (import cycle)")
        imports = set(c.imports) | {"example.com/" + real(q) for q in c.used}
        h = "package %s\n\n" % real(p)
        if imports:
            h += "import (\n%s)\n\n" % "".join('\t"%s"\n' % i for i in sorted(imports))
        texts[real(p)] = h + "\n\n".join(c.hoisted + bodies) + "\n"
        deps[real(p)] = {real(q) for q in c.used}
    # transitive imports: the CUE loader needs every package that is reachable
    changed = True
    while changed:
        changed = False
        for p in deps:
            for q in list(deps[p]):
                more = deps.get(q, set()) - deps[p]
                if more:
                    deps[p] |= more
                    changed = True
    return texts, deps, {p: real(p) for p in set(pk.values())}


def generate_xpkg(ctx, batch, xids):
    gen = batch.gen_dir
    inputs = os.path.join(gen, "_in")
    jobs = []
    for sid in xids:
        entry = batch.cat[sid]
        pkg = "x%04dc" % sid
        u = {"id": sid, "fmt": "cue", "pkg": pkg, "xpkgs": {}, "status": "pending", "type": pkg + "." + entry["schema"]["root"]}
        batch.units[pkg] = u
        try:
            texts, deps, pmap = render_xpkgs(entry, pkg)
        except sc.NotExpressible as e:
            u["status"], u["why"] = "not_expressible", str(e)
            continue
        u["xpkgs"] = pmap
        u["text"] = "".join("// ---- package %s\n%s\n" % (p, t) for p, t in sorted(texts.items()))
        for p, text in texts.items():
            d = os.path.join(inputs, p)
            os.makedirs(d)
            open(os.path.join(d, p + ".cue"), "w").write(text)
        y = "debug: false\ninputs:\n"
        # dependencies first
        for p in sorted(texts, key=lambda p: (len(deps[p]), p)):
            y += "  - cue:\n      entrypoint: '%s'\n      package: %s\n" % (os.path.join(inputs, p), p)
            if deps[p]:
                y += "      cue_imports:\n" + "".join("        - '%s:example.com/%s'\n" % (os.path.join(inputs, q), q) for q in sorted(deps[p]))
        y += "output:\n  directory: '%l'\n  types: true\n  languages:\n"
        y += "    - go:\n        package_root: '%s/go'\n" % sc.MODULE
        for k, v in sorted(sc.GO_FLAGS_FULL.items()):
            y += "        %s: %s\n" % (k, "true" if v else "false")
        y += "".join(_langs(sid))
        u["compact"] = compact_of(sid)
        yp = os.path.join(inputs, pkg + ".yaml")
        open(yp, "w").write(y)
        jobs.append({"id": pkg, "yaml": yp, "root": gen})
    # one process per job with a timeout: a pipeline that does not terminate must not take the run with it
    for job in jobs:
        u = batch.units[job["id"]]
        r = _sem_gen_one(ctx, gen, job, XGEN_TIMEOUT)
        if r is None:
            u["status"], u["why"] = "codegen_timeout", "the pipeline did not terminate within %ds" % XGEN_TIMEOUT
            # attribute: which output language does not terminate
            u["hangs"] = []
            for lang in OUT_FORMATS:
                y = open(job["yaml"]).read()
                for other in OUT_FORMATS:
                    if other != lang:
                        y = y.replace("    - %s: {}\n" % other, "").replace("    - %s:\n        compact: true\n" % other, "")
                yp = job["yaml"][:-5] + "." + lang + ".yaml"
                open(yp, "w").write(y)
                scratch_out = ctx.sub("xattr")
                if _sem_gen_one(ctx, scratch_out, {"id": job["id"], "yaml": yp, "root": scratch_out}, XGEN_TIMEOUT) is None:
                    u["hangs"].append(lang)
        elif r.get("panic"):
            u["status"], u["why"] = "codegen_panic", r["panic"]
        elif not r["ok"]:
            u["status"], u["why"] = "codegen_error", r.get("err", "")
        else:
            u["status"], u["files"] = "generated", r["files"]


XGEN_TIMEOUT = 10


def _sem_gen_one(ctx, cwd, job, timeout):
    try:
        p = subprocess.run([ctx.worker, "sem-gen"], input=(json.dumps(job) + "\n").encode(), capture_output=True,
                           timeout=timeout, env=ctx.goenv(), cwd=cwd)
    except subprocess.TimeoutExpired:
        return None
    if p.returncode != 0 or not p.stdout.strip():
        raise core.Inconclusive("sem-gen failed on %s: %s" % (job["id"], p.stderr.decode(errors="replace")[-500:]))
    return json.loads(p.stdout.decode().splitlines()[0])


def generate_irroute(ctx, batch, ids):
    """The IR-BUILT route: the schema term itself is handed to the real jsonschema / openapi languages as cog IR (worker
    c12-emit-ir: compiler passes + Jennies(...).GenerateFS), no input parser in between. Units `i<id>` (input format `ir`), no Go."""
    gen = batch.gen_dir
    jobs = []
    for sid in ids:
        entry = batch.cat[sid]
        if entry.get("inter") or any("." in d["name"] for d in entry["schema"]["defs"]):
            continue
        pkg = "i%04d" % sid
        pmap = {f["pkg"]: pkg + f["pkg"] for f in entry["foreign"]}
        term = {"defs": entry["schema"]["defs"], "root": entry["schema"]["root"], "foreign": entry["foreign"]}
        u = {"id": sid, "fmt": "ir", "pkg": pkg, "xpkgs": pmap, "status": "pending", "type": pkg + "." + entry["schema"]["root"],
             "compact": compact_of(sid)}
        batch.units[pkg] = u
        try:
            ir = ec.term_to_ir(term, pkg, pmap)
        except ec.Unsupported as e:
            u["status"], u["why"] = "not_expressible", "ir: %s" % e
            continue
        u["text"] = json.dumps(ir)
        job = {"id": pkg, "root": gen, "compact": u["compact"], "ir": ir}
        if entry.get("passes"):
            # the schema transformations of the pipeline configuration, loaded by cog's own loader of compiler-passes files
            pp = os.path.join(gen, "_in", pkg + ".passes.yaml")
            open(pp, "w").write(passes_yaml(entry, pkg))
            u["passes_text"] = passes_yaml(entry, pkg)
            u["type"] = pkg + "." + root_of(entry)
            job["passes"] = pp
        jobs.append(job)
    if not jobs:
        return
    d = ctx.sub("irroute")
    inp, outp = os.path.join(d, "in.ndjson"), os.path.join(d, "out.ndjson")
    open(inp, "w").write("".join(json.dumps(j) + "\n" for j in jobs))
    ctx.run_worker(["c12-emit-ir"], stdin_path=inp, stdout_path=outp, timeout=900, cwd=gen)
    for line in open(outp):
        r = json.loads(line)
        u = batch.units[r["id"]]
        if r.get("panic"):
            u["status"], u["why"] = "codegen_panic", r["panic"]
        elif not r.get("ok"):
            u["status"], u["why"] = "codegen_error", r.get("err", "")
        else:
            u["status"], u["files"], u["ir"], u["ir_openapi_same"] = "schema_only", r["files"], r["ir"], True


def rerun_schema_only(ctx, batch):
    """Units whose pipeline failed as a whole (one jenny's error loses every output): run the pipeline again with the schema
    languages only, so that the emitted documents are still judged (the failure itself belongs to C02 / C04)."""
    gen = batch.gen_dir
    jobs = []
    for u in batch.units.values():
        if u["status"] != "codegen_error" or u["fmt"] == "ir":
            continue
        yp = os.path.join(gen, "_in", u["pkg"] + ".yaml")
        if not os.path.exists(yp):
            continue
        lines, out, skip = open(yp).read().split("\n"), [], False
        for ln in lines:
            if ln.startswith("    - "):
                skip = ln.startswith("    - go:")
            if not skip:
                out.append(ln)
        yp2 = yp[:-5] + ".schemaonly.yaml"
        open(yp2, "w").write("\n".join(out))
        jobs.append({"id": u["pkg"], "yaml": yp2, "root": gen})
    if not jobs:
        return
    d = ctx.sub("schemaonly")
    inp, outp = os.path.join(d, "in.ndjson"), os.path.join(d, "out.ndjson")
    open(inp, "w").write("".join(json.dumps(j) + "\n" for j in jobs))
    ctx.run_worker(["sem-gen"], stdin_path=inp, stdout_path=outp, timeout=900, cwd=gen)
    for line in open(outp):
        r = json.loads(line)
        u = batch.units[r["id"]]
        if r.get("ok"):
            u["status"] = "schema_only"
            u["go_error"] = u.get("why", "")[:300]
            u["files"] = r["files"]


def dump_ir(ctx, batch):
    """The IR the schema jennies really consumed, per unit (worker c12-ir on the unit's own pipeline file)."""
    d = ctx.sub("ir")
    inp, out = os.path.join(d, "in.ndjson"), os.path.join(d, "out.ndjson")
    units = [u for u in batch.units.values() if u["status"] not in ("not_expressible", "pending", "codegen_timeout") and u["fmt"] != "ir"]
    with open(inp, "w") as f:
        for u in units:
            f.write(json.dumps({"id": u["pkg"], "yaml": os.path.join(batch.gen_dir, "_in", u["pkg"] + ".yaml")}) + "\n")
    shards = [units[i::sc.NSHARDS] for i in range(sc.NSHARDS)]
    procs = []
    for i, sh in enumerate(shards):
        if not sh:
            continue
        si, so = os.path.join(d, "in-%d" % i), os.path.join(d, "out-%d" % i)
        open(si, "w").write("".join(json.dumps({"id": u["pkg"], "yaml": os.path.join(batch.gen_dir, "_in", u["pkg"] + ".yaml")}) + "\n" for u in sh))
        procs.append((subprocess.Popen([ctx.worker, "c12-ir"], stdin=open(si), stdout=open(so, "w"), stderr=subprocess.PIPE,
                                       env=ctx.goenv(), cwd=batch.gen_dir), so, sh))
    for p, so, sh in procs:
        _, err = p.communicate(timeout=1800)
        res = [json.loads(x) for x in open(so)]
        if p.returncode != 0 or len(res) != len(sh):
            core.log(err.decode(errors="replace")[-2000:])
            raise core.Inconclusive("c12-ir failed (exit %s, %d/%d results)" % (p.returncode, len(res), len(sh)))
        for r in res:
            u = batch.units[r["id"]]
            if r.get("err") or r.get("panic"):
                u["ir_err"] = r.get("err") or r.get("panic")
            else:
                u["ir"] = r["ir"]
                u["ir_openapi_same"] = r["openapi_same"]


# ----------------------------------------------------------------------------------------------
# validators of the emitted documents
# ----------------------------------------------------------------------------------------------
_JS_SCRIPT = r'''
import json, sys
from jsonschema import Draft7Validator, FormatChecker
from jsonschema.exceptions import best_match, SchemaError
for line in sys.stdin:
    job = json.loads(line)
    out = {"id": job["id"], "schema_err": None, "schema_err_kw": None, "accepts": [], "errs": []}
    doc = job["schema"]
    try:
        Draft7Validator.check_schema(doc)
    except SchemaError as e:
        out["schema_err"] = e.message[:300]
        out["schema_err_kw"] = str(e.validator)
    except Exception as e:
        out["schema_err"] = repr(e)[:300]
        out["schema_err_kw"] = "exception"
    if job.get("object") is not None:
        try:
            v = Draft7Validator({"$ref": "#/definitions/" + job["object"], "definitions": doc.get("definitions", {})},
                                format_checker=FormatChecker())
            for d in job["docs"]:
                try:
                    err = best_match(v.iter_errors(d))
                except Exception as e:
                    out["accepts"].append(False)
                    out["errs"].append({"path": [], "kw": "exception:" + type(e).__name__, "msg": repr(e)[:200]})
                    continue
                out["accepts"].append(err is None)
                out["errs"].append(None if err is None else {"path": list(err.absolute_path), "kw": str(err.validator), "msg": err.message[:200]})
        except Exception as e:
            out["accepts"] = [False] * len(job["docs"])
            out["errs"] = [{"path": [], "kw": "exception:" + type(e).__name__, "msg": repr(e)[:200]}] * len(job["docs"])
    print(json.dumps(out))
'''


def run_js_validator(ctx, jobs):
    d = ctx.sub("jsval")
    inp = os.path.join(d, "in.ndjson")
    with open(inp, "w") as f:
        for j in jobs:
            f.write(json.dumps(j) + "\n")
    script = os.path.join(d, "jsval.py")
    open(script, "w").write(_JS_SCRIPT)
    p = subprocess.run(["python3-vt", script], stdin=open(inp), capture_output=True, timeout=3000)
    if p.returncode != 0:
        core.log(p.stderr.decode(errors="replace")[-2000:])
        raise core.Inconclusive("python jsonschema validator failed")
    return {r["id"]: r for r in (json.loads(x) for x in p.stdout.decode().splitlines())}


def run_go_checks(ctx, jobs):
    d = ctx.sub("gocheck")
    inp, out = os.path.join(d, "in.ndjson"), os.path.join(d, "out.ndjson")
    with open(inp, "w") as f:
        for j in jobs:
            f.write(json.dumps(j) + "\n")
    ctx.run_worker(["c12-check"], stdin_path=inp, stdout_path=out, timeout=3000)
    return {r["id"]: r for r in (json.loads(x) for x in open(out))}


_VALID_CLASSES = (
    (r"exclusiveM(in|ax)imum of type bool", "exclusive-bound-not-boolean"),
    (r"extra sibling fields: \[[^\]]*const", "const-keyword"),
    (r"extra sibling fields", "extra-sibling-fields"),
    (r"unsupported 'type' value \"null\"|type.*null", "null-type"),
    (r"found unresolved ref|bad data in|unresolved|cannot find|no such", "unresolved-ref"),
    (r"default", "default-value"),
    (r"undescriptive|does not appear to be describing", "nothing-described"),
)


def err_class(msg):
    if (msg or "").startswith("panic:"):
        return "parser-panic"
    for rx, cls in _VALID_CLASSES:
        if re.search(rx, msg or ""):
            return cls
    return "other"


def vclass(v):
    if v is None:
        return "null"
    if isinstance(v, list):
        return "array"
    if isinstance(v, dict):
        return "object"
    return "scalar"


MISSING = object()


def at_path(doc, path):
    v = doc
    for seg in path:
        try:
            v = v[seg]
        except (KeyError, IndexError, TypeError):
            return MISSING
    return v


# ----------------------------------------------------------------------------------------------
# the check
# ----------------------------------------------------------------------------------------------
def rename_sigma(entry, pmap):
    """The catalogue term with the foreign definitions named as the real IR names them (`<pkg>.<Name>`)."""
    fs = entry["foreign"]
    m = {f["name"]: "%s.%s" % (pmap.get(f["pkg"], f["pkg"]), f["as"]) for f in fs}

    def rn(t):
        if isinstance(t, dict):
            out = {k: rn(v) for k, v in t.items()}
            if t.get("k") == "ref":
                out["name"] = m.get(t["name"], t["name"])
            if t.get("k") == "dunion":
                out["refs"] = [m.get(r, r) for r in t["refs"]]
            return out
        if isinstance(t, list):
            return [rn(x) for x in t]
        return t
    defs = [{"name": m.get(d["name"], d["name"]), "t": rn(d["t"])} for d in entry["schema"]["defs"]]
    return {"defs": defs, "root": entry["schema"]["root"],
            "foreign": [{"name": m[f["name"]], "as": f["as"], "pkg": pmap.get(f["pkg"], f["pkg"])} for f in fs]}


def run(ctx):
    t_start = time.time()
    replay = json.load(open(ctx.replay)) if ctx.replay else None
    if ctx.worker is None:
        ctx.build_worker()
    cat = load_index(ctx)
    n_drawn = 0
    if replay:
        rid = replay["replay"]["schema_id"]
        if rid not in cat and replay["replay"].get("pos", "").startswith("big"):
            # a schema of the large catalogue: its id is its position there, re-emitted through the cases run
            cat[rid] = {"id": rid, "leaf": replay["replay"]["leaf"], "pos": replay["replay"]["pos"], "cons": True,
                        "schema": replay["replay"]["schema"], "foreign": replay["replay"]["foreign"]}
        if rid not in cat or cat[rid]["schema"] != replay["replay"]["schema"]:
            raise core.Inconclusive("the catalogue changed: schema %s is no longer the replay's schema" % rid)
        ids = [rid]
    elif ctx.quick():
        ids = select(ctx, cat)
    else:
        drawn = draw_big(ctx, NSIM)
        cat.update(drawn)
        ids = sorted(cat)
        n_drawn = len(drawn)
    cases, expects, _ = load_cases(ctx, ids)
    missing = [i for i in ids if not cases.get(i) or i not in expects]
    if missing:
        raise core.Inconclusive("no documents / expectation for schemas %s" % missing[:5])
    for i in ids:
        if expects[i]["schema"] != cat[i]["schema"]:
            raise core.Inconclusive("schema %d of the cases run is not the indexed / replayed schema" % i)
    for i in ids:
        if cat[i].get("inter"):
            cat[i]["schema"] = dict(cat[i]["schema"], _inter_hints=cat[i]["inter"])

    # ---- twin fidelity: python EmitDoc / EAccepts against TLC's on the catalogue terms
    for i in ids:
        e = cat[i]
        term = {"defs": e["schema"]["defs"], "root": e["schema"]["root"], "foreign": e["foreign"]}
        if ec.emit_doc(term, "") != expects[i]["expect"]:
            raise core.Inconclusive("python and TLC disagree on EmitDoc of schema %d" % i)
        xe = expects[i]["xexpect"]
        for xp in ({f["pkg"] for f in e["foreign"]}):
            if not isinstance(xe, dict) or ec.emit_doc(term, xp) != xe.get(xp):
                raise core.Inconclusive("python and TLC disagree on EmitDoc(%s) of schema %d" % (xp, i))
        exp = expects[i]["expect"]
        DD = ec.edefs({"defs": exp})
        rootname = ec.own_name(e["foreign"], e["schema"]["root"])
        for c in cases[i]:
            if ec.eaccepts(DD, DD[rootname], c["py"]) != c["eaccepts"]:
                raise core.Inconclusive("python and TLC disagree on EAccepts of %s (schema %d)" % (sc.dumps(c["py"]), i))

    # ---- real side: generation, build, IR
    batch = sc.Batch()
    batch.cat, batch.cases = cat, cases
    plain = [i for i in ids if not cat[i]["foreign"]]
    xids = [i for i in ids if cat[i]["foreign"]]
    batch.ids = plain
    formats = sc.FORMATS
    if replay and replay["replay"].get("input_format"):
        formats = () if replay["replay"]["input_format"] == "ir" else (replay["replay"]["input_format"],)
    # the output options vary per package: sc.generate asks sc.pipeline_yaml for every pipeline file
    orig_render = sc.render
    sc.render = lambda schema, fmt, package: render_with_intersections(schema, fmt, package, orig_render)
    orig_yaml = sc.pipeline_yaml
    sc.pipeline_yaml = lambda fmt, path, package, go_flags, extra=(), aux=(): orig_yaml(fmt, path, package, go_flags, _langs(int(package[1:5])), aux)
    batch.yaml_hook = make_yaml_hook(batch)
    try:
        sc.generate(ctx, batch, None, EXTRA_LANGUAGES, formats)
    finally:
        sc.pipeline_yaml = orig_yaml
        sc.render = orig_render
    for u in batch.units.values():
        u["compact"] = compact_of(u["id"])
        if cat[u["id"]].get("passes"):
            u["type"] = u["pkg"] + "." + root_of(cat[u["id"]])
    generate_xpkg(ctx, batch, xids)
    batch.ids = ids
    rerun_schema_only(ctx, batch)
    if not replay or replay["replay"].get("input_format") == "ir":
        generate_irroute(ctx, batch, [i for i in ids if cat[i]["pos"] in ("fixed", "c12", "c12t")])
    if any(u["status"] == "generated" for u in batch.units.values()):
        sc.build(ctx, batch)
    else:
        batch.timing.setdefault("build_s", 0.0)      # replay of a unit of the IR-built route: no Go package to compile
    dump_ir(ctx, batch)
    status0 = collections.Counter(u["status"] for u in batch.units.values())
    core.log("batch: %d schemas, %d units %s; gen %.1fs build %.1fs" % (len(ids), len(batch.units), dict(status0),
                                                                         batch.timing["generate_s"], batch.timing["build_s"]))

    # ---- per unit: IR term, emitted documents
    gen = batch.gen_dir
    stats = collections.Counter()
    ir_diff_classes = collections.Counter()
    timeouts = []
    docs = []     # emitted documents: dict(unit, fmt, pkgname, which, term, text, json, desc, notes, raw)
    for u in sorted(batch.units.values(), key=lambda u: u["pkg"]):
        if u["status"] == "codegen_timeout":
            stats["unit:codegen_timeout"] += 1
            entry = cat[u["id"]]
            for lang in u.get("hangs", []):
                timeouts.append({"sig": "C12/%s/valid/generation-does-not-terminate" % lang,
                                 "what": "the pipeline with output language %s does not terminate (> %ds) on schema %s (%s); without the "
                                         "schema languages it generates in milliseconds" % (lang, XGEN_TIMEOUT, u["id"], entry["leaf"]),
                                 "replay": {"schema_id": u["id"], "leaf": entry["leaf"], "pos": entry["pos"], "schema": entry["schema"],
                                            "foreign": entry["foreign"], "input_format": u["fmt"], "emitted_format": lang,
                                            "package": u["pkg"], "input_text": u.get("text")}})
            if not u.get("hangs"):
                stats["unit:codegen_timeout_unattributed"] += 1
            continue
        if u["status"] in ("not_expressible", "pending", "codegen_error", "codegen_panic"):
            stats["unit:" + u["status"]] += 1
            continue
        if "ir" not in u:
            stats["unit:ir_error"] += 1
            u["skip"] = "ir_error"
            continue
        try:
            u["term"] = ec.ir_to_term(u["ir"], u["pkg"])
        except ec.Unsupported as e:
            stats["unit:ir_unsupported"] += 1
            u["skip"] = "ir_unsupported: %s" % e
            continue
        entry = cat[u["id"]]
        sigma = rename_sigma(entry, u.get("xpkgs", {}))
        u["ir_equals_source"] = ec.term_equal(u["term"], sigma)
        if not u["ir_equals_source"]:
            ir_diff_classes["%s: %s" % (u["fmt"], ec.term_first_difference(sigma, u["term"]) or "order")] += 1
        stats["unit:ir_equals_source" if u["ir_equals_source"] else "unit:ir_differs_from_source"] += 1
        if not u.get("ir_openapi_same", True):
            stats["unit:openapi_ir_differs"] += 1
        for which, pkgname in (("main", u["pkg"]),) + tuple(("foreign", rp) for _, rp in sorted(u.get("xpkgs", {}).items())):
            for fmt in OUT_FORMATS:
                path = os.path.join(gen, fmt, "%s.%s.json" % (pkgname, fmt))
                rec = {"unit": u, "fmt": fmt, "pkgname": pkgname, "which": which,
                       "tpkg": "" if which == "main" else pkgname}
                if not os.path.exists(path):
                    rec["missing"] = True
                    docs.append(rec)
                    continue
                rec["text"] = open(path).read()
                try:
                    rec["json"] = json.loads(rec["text"])
                except ValueError as e:
                    rec["not_json"] = str(e)
                    docs.append(rec)
                    continue
                rec["desc"], rec["notes"], rec["raw"] = ec.describe_document(rec["json"], fmt)
                docs.append(rec)

    # ---- driver: encode every document the catalogue term accepts, plus New<Root>()
    cmds = []
    for u in batch.units.values():
        if u["status"] != "ok" or "term" not in u:
            continue
        for c in cases[u["id"]]:
            if c["accepts"] or c["f"] in ("BreakBound", "NonMember", "Probe"):
                cmds.append({"op": "doc", "id": "%s/%d" % (u["pkg"], c["n"]), "type": u["type"], "doc": c["py"]})
        cmds.append({"op": "newv", "id": "%s/new" % u["pkg"], "type": u["type"]})
    recs = sc.run_driver(ctx, batch, cmds, "enc") if cmds else {}
    encs = {}    # pkg -> [dict(src, enc, judged, case)]
    for u in batch.units.values():
        if "term" not in u or u["status"] not in ("ok", "not_executable", "schema_only"):
            continue
        executable = u["status"] == "ok"     # packages that do not compile: only the documents themselves (raw) are validated
        root = root_of(cat[u["id"]])
        S = sc.defs_of(u["term"])
        if root not in S:
            stats["unit:ir_without_root"] += 1
            continue
        if any(r not in S for d in u["term"]["defs"] for r in ec.refs_of(d["t"])):
            # the IR itself refers to objects it does not hold (an input parser lost them): no value of the generated types can be
            # judged against it; the emitted documents are still judged (ref-resolves, names, round trip)
            stats["unit:ir_with_dangling_references"] += 1
            continue
        lst, seen = [], set()
        items = [("doc", c, recs.get("%s/%d" % (u["pkg"], c["n"]))) for c in cases[u["id"]] if c["accepts"]] if executable else []
        if executable:
            items.append(("new", None, recs.get("%s/new" % u["pkg"])))
        # one-place INVALID documents: the Go re-encoding where the generated code decodes them (broken bound, non-member),
        # the document itself where no Go value can produce it (a required field is missing)
        if executable:
            items += [("invalid", c, recs.get("%s/%d" % (u["pkg"], c["n"]))) for c in cases[u["id"]]
                      if c["f"] in ("BreakBound", "NonMember") or (c["f"] == "Probe" and not c["accepts"])]
        items += [("raw", c, {"enc": c["py"]}) for c in cases[u["id"]] if c["f"] == "DropRequired" or (c["f"] == "Probe" and not c["accepts"])]
        if not executable:
            # the generated Go does not compile (C02's subject): the documents the schema accepts stand in for the encodings
            items += [("rawvalid", c, {"enc": c["py"]}) for c in cases[u["id"]] if c["accepts"]]
        for src, c, r in items:
            if src == "invalid" and r is not None and r.get("std_err") is not None:
                stats["enc:invalid_not_decodable"] += 1
                continue
            if r is None or r.get("panic") or r.get("unknown_type"):
                stats["enc:driver_" + ("panic" if r and r.get("panic") else "none")] += 1
                continue
            if src == "doc" and r.get("std_err") is not None:
                stats["enc:decode_rejected"] += 1
                continue
            if "enc" not in r or r.get("enc_err"):
                stats["enc:marshal_error"] += 1
                continue
            enc = r["enc"]
            key = sc.dumps(enc)
            if key in seen:
                stats["enc:duplicate"] += 1
                continue
            seen.add(key)
            try:
                jv = sc.py_to_jv(enc)
            except sc.NotInUniverse:
                stats["enc:outside_universe"] += 1
                continue
            judged = sc.accepts_py(S, S[root], enc)
            if src == "new":
                # New<Root>() is a value of the type; it is judged when the IR accepts its encoding
                stats["enc:new_judged" if judged else "enc:new_not_a_valid_value"] += 1
            lst.append({"src": src, "case": c, "enc": enc, "jv": jv, "judged": judged, "must": src in ("invalid", "raw")})
        encs[u["pkg"]] = lst

    # ---- validators
    js_jobs, go_jobs = [], []
    for i, rec in enumerate(docs):
        if "json" not in rec:
            continue
        u = rec["unit"]
        root = root_of(cat[u["id"]])
        elist = encs.get(u["pkg"], []) if rec["which"] == "main" else []
        key = "%d" % i
        if rec["fmt"] == "jsonschema":
            js_jobs.append({"id": key, "schema": rec["json"], "object": root if elist else None, "docs": [e["enc"] for e in elist]})
            go_jobs.append({"id": key, "pkg": rec["pkgname"], "jsonschema": rec["text"], "openapi": "", "object": "", "docs": []})
        else:
            go_jobs.append({"id": key, "pkg": rec["pkgname"], "jsonschema": "", "openapi": rec["text"], "object": root if elist else "",
                            "docs": [e["enc"] for e in elist]})
    t0 = time.time()
    jsres = run_js_validator(ctx, js_jobs) if js_jobs else {}
    gores = run_go_checks(ctx, go_jobs) if go_jobs else {}
    batch.timing["validators_s"] = round(time.time() - t0, 2)

    # ---- records, python verdicts
    trace = []       # (record, python diffs set, meta)
    schemas, sidx = [], {}
    emitted = []
    reparsed = []
    rt_unsupported = collections.Counter()

    def si_of(u):
        if u["pkg"] not in sidx:
            schemas.append(u["term"])
            sidx[u["pkg"]] = len(schemas)
        return sidx[u["pkg"]]

    per_clause = collections.Counter()      # exercised (non-vacuous) evaluations per format/clause
    per_construct = collections.Counter()
    fails = list(timeouts)
    disagree = 0
    n_enc_records = 0
    for i, rec in enumerate(docs):
        u, fmt = rec["unit"], rec["fmt"]
        entry = cat[u["id"]]
        base_replay = {"schema_id": u["id"], "leaf": entry["leaf"], "pos": entry["pos"], "schema": entry["schema"],
                       "foreign": entry["foreign"], "input_format": u["fmt"], "emitted_format": fmt, "package": rec["pkgname"],
                       "input_text": u.get("text"), "emitted_text": rec.get("text")}
        if u.get("passes_text"):
            base_replay["schema_transformations"] = u["passes_text"]

        def fail(clause, cls, what, extra=None):
            r = dict(base_replay)
            r.update(extra or {})
            fails.append({"sig": "C12/%s/%s/%s" % (fmt, clause, cls), "what": what, "replay": r})

        if rec.get("missing") or rec.get("not_json"):
            fail("valid", "no-document", "cog emitted no readable %s document for package %s: %s" % (fmt, rec["pkgname"], rec.get("not_json", "file missing")))
            continue
        key = "%d" % i
        g = gores[key]
        if fmt == "jsonschema":
            j = jsres[key]
            valid, valid_err = j["schema_err"] is None, j["schema_err"]
            valid_cls = "keyword-" + str(j["schema_err_kw"])
            own, own_err = g["js_own"]["ok"], g["js_own"].get("err", "")
        else:
            valid = g["oa_load"]["ok"] and g["oa_validate"]["ok"]
            valid_err = g["oa_load"].get("err") or g["oa_validate"].get("err") or ""
            valid_cls = err_class(valid_err)
            if g["oa_load"]["ok"]:
                own, own_err = g["oa_own"]["ok"], g["oa_own"].get("err", "")
            else:
                # cog's OpenAPI input uses the same loader: what the loader rejects, cog's parser never sees
                own, own_err = False, g["oa_load"].get("err", "")
        refs = ec.all_refs(rec["json"], [])
        bad_refs = [r for r in refs if not ec.resolve_pointer(rec["json"], r)]
        desc = rec["desc"]
        if ec.has_unknown(desc):
            stats["emitted:description_incomplete"] += 1
        term = u["term"]
        exp = ec.emit_doc(term, rec["tpkg"])
        # objects the IR spells as intersections (own names): a witness class of their own
        inter_names = {ec.own_name(term["foreign"], n) for n in term.get("_inter", [])}
        iplaces = ec.inter_places(u["ir"], u["pkg"]) if inter_names else set()
        dset = set(ec.doc_diffs(exp, desc))
        dang = ec.dangling(desc)
        if bool(dang) != bool(bad_refs):
            raise core.Inconclusive("description and raw document disagree on dangling references of %s (%s): %s vs %s" % (
                rec["pkgname"], fmt, sorted(dang), bad_refs))
        pyd = set(dset)
        if bad_refs:
            pyd.add(("ref-resolves", (), ""))
        if not valid:
            pyd.add(("valid", (), ""))
        if not own:
            pyd.add(("own-parser", (), ""))
        emitted.append(desc)
        ei = len(emitted)
        trace.append(({"kind": "emit", "si": si_of(u), "ei": ei, "pkg": rec["tpkg"], "valid": valid, "own": own, "refs": not bad_refs},
                      pyd, ("emit", i)))
        # ---- round trip: the emitted document read back by cog's own parser
        own_ir = (g["js_own"] if fmt == "jsonschema" else g["oa_own"]).get("ir") if own else None
        if own_ir:
            try:
                rterm = ec.ir_to_term(own_ir, rec["pkgname"])
            except ec.Unsupported as ex:
                stats["roundtrip:reparsed_ir_unsupported"] += 1
                rt_unsupported[str(ex)[:60]] += 1
                rterm = None
            if rterm is not None:
                got = ec.emit_doc(rterm, "")
                gnames = {x["name"] for x in got}
                present = [e for e in exp if e["name"] in gnames]
                stats["roundtrip:objects_compared"] += len(present)
                stats["roundtrip:objects_not_declared_by_parser"] += len(exp) - len(present)
                rds = {("rt-" + c, pth, w) for (c, pth, w) in ec.doc_diffs(present, {"defs": got})}
                # objects the parser CAN reach (the IR has an entry point, the object is reachable from it) must come back
                reach = ec.reachable(term, term["root"]) if rec["tpkg"] == "" else set()
                lost = sorted({e["name"] for e in exp if e["src"] in reach and e["name"] not in gnames})
                stats["roundtrip:objects_reachable_from_entry_point"] += sum(1 for e in exp if e["src"] in reach)
                rds |= {("rt-names", (n,), "object") for n in lost}
                reparsed.append(rterm)
                trace.append(({"kind": "rt", "si": si_of(u), "ri": len(reparsed), "pkg": rec["tpkg"]}, rds, ("rt", i)))
                per_clause["%s/roundtrip" % fmt] += 1
                rnames = collections.Counter(e["name"] for e in exp)
                for (c, pth, w) in sorted(rds):
                    cls = "%s:%s" % (c[3:], "collision" if rnames.get(pth[0], 0) > 1 else "intersection" if ec.under(iplaces, pth) else
                                     "%s@%s" % (w, ec.field_kind(exp, pth)) if c[3:] == "default" else w)
                    fail("roundtrip", cls, "round trip: %s (%s) at %s differs between the IR and what cog's %s parser reads back from the %s "
                         "document cog emitted for package %s" % (c[3:], w, "/".join(pth), fmt, fmt, rec["pkgname"]),
                         {"path": list(pth), "expected": [e for e in exp if e["name"] == pth[0]][:1],
                          "reparsed": [x for x in got if x["name"] == pth[0]][:1]})
        # vacuity: what this document exercised
        for cl in ("valid", "own-parser"):
            per_clause["%s/%s" % (fmt, cl)] += 1
        if refs:
            per_clause["%s/ref-resolves" % fmt] += 1
        names_count = collections.Counter(e["name"] for e in exp)
        # bare names that two objects of different packages carry in THIS document (computed from the IR only)
        collided = {n for n, k in names_count.items() if k > 1}
        per_clause["%s/names" % fmt] += len(exp)
        if inter_names:
            per_construct["intersection"] += 1
        S = sc.defs_of(term)
        for d in term["defs"]:
            if d["name"] not in {e["src"] for e in exp}:
                continue
            for cons in constructs_of(d["t"]):
                per_construct[cons] += 1
                per_clause["%s/%s" % (fmt, CONSTRUCT_CLAUSE.get(cons.split(":")[0], "names"))] += 1
        if any(ec.pkg_of(term["foreign"], e["src"]) != rec["tpkg"] for e in exp):
            per_construct["cross-package"] += 1
        if any(v > 1 for v in names_count.values()):
            per_construct["name-collision"] += 1
        # failures of the document-level clauses
        any_defaults = any(ec._strip(f["t"])["k"] == "any" and f["def"]["j"] not in ("none", "obj")
                           for e in exp if ec._strip(e["t"])["k"] == "obj" for f in ec._strip(e["t"])["props"])
        if not valid and valid_cls == "default-value" and any_defaults:
            valid_cls = "default-value:any-as-object"     # the IR has an `any` field with a non-object default; `any` is emitted as object
        if not valid:
            fail("valid", valid_cls, "the emitted %s document of package %s is rejected by %s: %s" % (
                fmt, rec["pkgname"], "python jsonschema Draft7 check_schema" if fmt == "jsonschema" else "kin-openapi (load + Validate)", valid_err))
        if not own:
            fail("own-parser", "default-value:any-as-object" if (err_class(own_err) == "default-value" and any_defaults) else err_class(own_err), "cog's own %s parser rejects the %s document cog emitted for package %s: %s" % (
                fmt, fmt, rec["pkgname"], own_err))
        if bad_refs:
            fnames = {f["as"] for f in term["foreign"]}
            cls = "foreign-object" if any(r.rsplit("/", 1)[-1] in fnames for r in bad_refs) else "local-object"
            fail("ref-resolves", cls, "`$ref` %s of the emitted %s document of %s does not resolve inside the document" % (bad_refs[:3], fmt, rec["pkgname"]))
        for (clause, path, w) in sorted(dset):
            cls = w
            if names_count.get(path[0], 0) > 1:
                cls = "collision"
            elif ec.under(iplaces, path):
                cls = "intersection"
            elif clause == "names" and w == "object" and any(e["name"] == path[0] and ec.pkg_of(term["foreign"], e["src"]) != rec["tpkg"] for e in exp):
                cls = "foreign-object"
            fail(clause, cls, "%s: %s at %s of the %s document of package %s (IR vs emitted)" % (clause, w, "/".join(path), fmt, rec["pkgname"]),
                 {"path": list(path), "expected": [e for e in exp if e["name"] == path[0]][:2],
                  "emitted": [d for d in desc["defs"] if d["name"] == path[0]][:1], "notes": sorted(rec["notes"])})
        # ---- encoded documents against this emitted document
        if rec["which"] != "main":
            continue
        elist = encs.get(u["pkg"], [])
        if not elist:
            continue
        root = root_of(entry)
        if fmt == "jsonschema":
            verdicts = list(zip(jsres[key]["accepts"], jsres[key]["errs"]))
        else:
            if not (g["oa_load"]["ok"] and g.get("oa_object")):
                stats["enc:openapi_document_not_loadable"] += len(elist)
                continue
            verdicts = [(d["ok"], None if d["ok"] else {"path": d["ptr"], "kw": d.get("field", ""), "msg": d.get("err", "")}) for d in g["oa_docs"]]
        if len(verdicts) != len(elist):
            raise core.Inconclusive("validator answered %d of %d documents for %s" % (len(verdicts), len(elist), rec["pkgname"]))
        DD = ec.edefs(desc)
        rootown = ec.own_name(term["foreign"], root)
        for e, (ok, err) in zip(elist, verdicts):
            ea = rootown in DD and ec.eaccepts(DD, DD[rootown], e["enc"])
            pyd = set()
            if e["judged"] and not ok:
                pyd.add(("encode-validates", (), ""))
            if ea != ok:
                pyd.add(("DescVsValidator", (), ""))
                disagree += 1
            if e["must"] and not e["judged"] and ok:
                pyd.add(("accepts-invalid", (), ""))
            trace.append(({"kind": "enc", "si": si_of(u), "ei": ei, "obj": root, "doc": e["jv"], "judged": e["judged"], "validator": ok,
                           "must": e["must"]}, pyd, ("enc", i, e)))
            n_enc_records += 1
            if e["must"] and not e["judged"]:
                c = e["case"]
                per_clause["%s/rejects-invalid" % fmt] += 1
                per_clause["%s/rejects-invalid:%s" % (fmt, c["f"])] += 1
                if ok:
                    pos, kind, bk = sc.walk({"defs": term["defs"], "root": root}, c["p"], c["py"])
                    clause = MUST_LABELS[c["f"]]
                    if c["f"] == "NonMember" and kind == "const":
                        clause = "constraints"
                    cls = "accepts-invalid:%s%s" % (kind, "." + "+".join(bk) if bk else "")
                    if collided & {ec.own_name(term["foreign"], n) for n in ec.defs_on_path(term, root, c["p"])}:
                        cls = "accepts-invalid:collision"   # the place concerns an object of a bare-name collision in this document
                    elif any(cl == "names" and ec.under(iplaces, pth) for (cl, pth, _w) in dset):
                        cls = "accepts-invalid:intersection"     # fields of an intersection (object or field type) were not emitted
                    if fmt == "openapi" and rec["notes"]:
                        # is the acceptance due to draft-07 keywords OpenAPI 3.0 does not have (const, numeric exclusive bounds)?
                        ldesc = ec.describe_document(rec["json"], fmt, lenient=True)[0]
                        LD = ec.edefs(ldesc)
                        if rootown in LD and not ec.eaccepts(LD, LD[rootown], e["enc"]):
                            clause, cls = "constraints", "accepts-invalid:draft07-keyword"
                    fail(clause, cls, "the emitted %s document accepts %s (%s at %s; %s), which the IR rejects: the %s is not carried over" % (
                        fmt, sc.dumps(e["enc"]), c["f"], ".".join(c["p"]) or "<root>",
                        "the document itself" if e["src"] == "raw" else "Go re-encoding of %s" % sc.dumps(c["py"]), clause),
                        {"encoded": e["enc"], "source_doc": c["py"], "label": c["f"], "path": c["p"]})
            if e["judged"]:
                per_clause["%s/encode-validates" % fmt] += 1
                if e["src"] == "new":
                    per_clause["%s/encode-validates:new" % fmt] += 1
                if ok:
                    continue
                # witness class from the description (identical for both formats; the validators agree with it)
                ex = ec.explain(DD, DD[rootown], e["enc"]) if rootown in DD else None
                if ex is None:
                    path, kw = [], "validator-only"
                else:
                    path, kw = list(ex[0]), ex[1]
                v = at_path(e["enc"], path)
                segs = ["#%d" % s if isinstance(s, int) else s for s in path]
                pos, kind, _ = sc.walk({"defs": term["defs"], "root": root}, segs, e["enc"])
                if collided & {ec.own_name(term["foreign"], n) for n in ec.defs_on_path(term, root, segs)}:
                    cls = "collision"       # the rejected place lies in / behind an object whose bare name two packages share in this document
                elif kind == "any":
                    cls = "any:non-object"
                elif v is None:
                    cls = "nullable:null"
                else:
                    cls = "%s:%s:%s" % (kind, vclass(v), kw)
                fail("encode-validates", cls, "the Go encoding %s (%s) is rejected by the emitted %s document at %s: %s" % (
                    sc.dumps(e["enc"]), "json.Marshal(New%s())" % root if e["src"] == "new" else
                    "the document itself: the generated Go package does not compile" if e["src"] == "rawvalid" else "re-encoding of %s" % sc.dumps(e["case"]["py"]),
                    fmt, "/".join(segs) or "<root>", err["msg"]),
                    {"encoded": e["enc"], "source_doc": e["case"]["py"] if e["case"] else None, "validator_error": err})

    # ---- TLC recomputes everything on the recorded facts
    tlc_fail, tr = run_trace(ctx, schemas, emitted, [t[0] for t in trace], reparsed=reparsed)
    agree = 0
    for n, (r, pyd, meta) in enumerate(trace):
        tv = tlc_fail.get(n, set())
        if tv != pyd:
            raise core.Inconclusive("TLC and the python join disagree on record %d (%s): TLC %s, python %s" % (
                n, meta[0], sorted(tv)[:4], sorted(pyd)[:4]))
        if any(c in ("SpecVsPython", "RefsDisagree") for c, _, _ in tv):
            raise core.Inconclusive("TLC: %s on record %d" % (sorted(tv)[:3], n))
        if not (tv - {("DescVsValidator", (), "")}):
            agree += 1
    if n_enc_records and disagree > MAX_DISAGREE * n_enc_records:
        raise core.Inconclusive("the description of the emitted documents and the validators disagree on %d of %d encodings" % (disagree, n_enc_records))

    if replay:
        want = replay["signature"]
        fails = [f for f in fails if f["sig"] == want and f["replay"]["input_format"] == replay["replay"]["input_format"]]
    for f in fails:
        ctx.fail(f["sig"], f["what"], f["replay"])

    # ---- vacuity
    if not replay:
        vac = []
        for fmt in OUT_FORMATS:
            for cl in CLAUSES:
                if per_clause["%s/%s" % (fmt, cl)] == 0:
                    vac.append("%s/%s" % (fmt, cl))
        for cons in REQUIRED_CONSTRUCTS + (() if ctx.quick() else THOROUGH_CONSTRUCTS):
            if per_construct[cons] == 0:
                vac.append("construct:" + cons)
        if vac:
            raise core.Inconclusive("vacuous clauses / constructs (never exercised on real emitted documents): %s" % vac)
        binding = selftest(ctx, schemas, emitted, trace, reparsed)
    else:
        binding = None

    samples = []
    for r, pyd, meta in trace:
        if meta[0] == "enc" and len(samples) < 2 and r["judged"] and meta[2]["src"] == "doc" and meta[2]["case"]["f"] != "base":
            samples.append({"kind": "enc", "package": docs[meta[1]]["pkgname"], "emitted_format": docs[meta[1]]["fmt"],
                            "encoded": meta[2]["enc"], "validator_accepts": r["validator"]})
    for r, pyd, meta in trace:
        if meta[0] == "emit" and len(samples) < 3 and not pyd:
            samples.append({"kind": "emit", "package": docs[meta[1]]["pkgname"], "emitted_format": docs[meta[1]]["fmt"],
                            "definitions": [d["name"] for d in docs[meta[1]]["desc"]["defs"]], "differences": []})
    status = collections.Counter(u["status"] for u in batch.units.values())
    not_obs = collections.Counter()
    for u in batch.units.values():
        if u["status"] != "ok" or u.get("skip"):
            not_obs["%s/%s: %s" % (u["fmt"], u["status"] if u["status"] != "ok" else "skipped",
                                   (u.get("skip") or u.get("why") or "; ".join(u.get("diagnostics", [])) or "")[:120])] += 1
    cov = {
        # the simulate run reports every candidate successor TLC looked at; only the drawn schemas count as states
        "states": sum(r["distinct"] for r in ctx.tlc_runs if "-simulate" not in r["cmd"]) + n_drawn,
        "transitions": sum(r["generated"] for r in ctx.tlc_runs if "-simulate" not in r["cmd"]) + n_drawn,
        "drawn_from_large_catalogue": n_drawn, "draws": NSIM if n_drawn else 0,
        "compact_documents": sum(1 for t in trace if t[2][0] == "emit" and docs[t[2][1]]["unit"].get("compact")),
        "traces_validated_against_impl": agree,
        "real_records_validated_by_tlc_trace_spec": len(trace),
        "exhaustive": not ctx.quick(),
        "evaluations": len(trace),
        "distinct_nontrivial": sum(1 for r, _, m in trace if m[0] == "emit") + sum(1 for r, _, m in trace if m[0] == "enc" and r["judged"]),
        "rule": "one evaluation = one recorded real fact: either one emitted document (a package's JSON Schema or OpenAPI file from the real "
                "pipeline, compared object by object and field by field with EmitDoc of the IR the jenny consumed, loaded by the independent "
                "loader and by cog's own parser) or one document the compiled generated Go code encoded, validated against the emitted "
                "document by python jsonschema / kin-openapi; non-trivial = an emitted document, or an encoding the IR accepts",
        "schemas": len(ids), "catalogue_size": len(cat), "emitted_documents": sum(1 for t in trace if t[2][0] == "emit"),
        "encoded_documents": n_enc_records, "units": dict(status), "units_not_observed": dict(not_obs),
        "ir_vs_source_term": {k: v for k, v in stats.items() if k.startswith("unit:ir_")},
        "ir_difference_classes": dict(ir_diff_classes.most_common(12)),
        "stats": dict(stats), "per_clause": dict(per_clause), "per_construct": dict(per_construct),
        "description_validator_disagreements": disagree,
        "unused_imports_removed": sorted({"%s:%s" % (batch.units[p]["fmt"], i) for p, i in batch.unused_imports_removed}),
        "timing": batch.timing, "binding_selftest": binding,
        "samples": samples or [{"note": "no sample drawn"}],
        "checker_cmd": "tlc EmitSchemaMC (index, cases); worker sem-gen / c12-ir; go build; driver; python3-vt jsonschema + worker c12-check; tlc EmitSchemaTrace",
    }
    return ctx.finish("model_checking", cov, ASSUMPTIONS + ([
        "packages whose only compiler diagnostics were `imported and not used` were recompiled after deleting exactly those import lines"]
        if batch.unused_imports_removed else []))


CONSTRUCT_CLAUSE = {"required": "required", "optional": "required", "bound": "constraints", "const": "constraints",
                    "enum": "enum", "ienum": "enum", "default": "default"}
THOROUGH_CONSTRUCTS = ("intersection",)
REQUIRED_CONSTRUCTS = ("cross-package", "name-collision", "union", "dunion", "map", "const", "nullable", "any",
                       "bound:ge", "bound:gt", "bound:le", "bound:lt", "bound:minLength", "bound:maxLength",
                       "enum", "ienum", "default", "required", "optional", "ref", "arr", "anon-struct")


def constructs_of(t, top=True):
    """Constructs a definition exercises (vacuity per construct)."""
    k = t["k"]
    out = []
    if k in ("int", "num"):
        out += ["bound:" + b for b in (t["lo"]["b"], t["hi"]["b"]) if b != "none"]
    elif k == "str":
        out += (["bound:minLength"] if t["mn"] != -1 else []) + (["bound:maxLength"] if t["mx"] != -1 else [])
    elif k in ("enum", "ienum", "const", "any", "ref", "dunion", "union"):
        out.append(k)
        if k == "union":
            for b in t["ts"]:
                out += constructs_of(b, False)
    elif k in ("arr", "map", "nullable"):
        out.append(k)
        out += constructs_of(t["t"], False)
    elif k == "struct":
        if not top:
            out.append("anon-struct")
        for f in t["fields"]:
            out.append("required" if f["req"] else "optional")
            if f["null"]:
                out.append("nullable")
            if f["def"]["j"] != "none":
                out.append("default")
            out += constructs_of(f["t"], False)
    return out


def run_trace(ctx, schemas, emitted, records, strict=False, name="c12", reparsed=()):
    d = ctx.sub("trace-" + name)
    tp, sp, ep = os.path.join(d, "trace.ndjson"), os.path.join(d, "schemas.json"), os.path.join(d, "emitted.json")
    rp = os.path.join(d, "reparsed.json")
    json.dump(list(reparsed), open(rp, "w"))
    with open(tp, "w") as f:
        for r in records:
            f.write(json.dumps(r, separators=(",", ":")) + "\n")
    json.dump(schemas, open(sp, "w"))
    json.dump(emitted, open(ep, "w"))
    if not records:
        return {}, None
    r = ctx.run_tlc("EmitSchemaTrace", "EmitSchemaTrace.cfg", workers=1, timeout=3000,
                    files={"trace.ndjson": tp, "schemas.json": sp, "emitted.json": ep, "reparsed.json": rp},
                    constants={"Strict": "TRUE" if strict else "FALSE"}, allow_violation=strict)
    if strict:
        return None, r
    consumed = None
    for line in open(r["out"], errors="replace"):
        m = re.match(r'^<<"CONSUMED", (\d+)>>', line)
        if m:
            consumed = int(m.group(1))
    if consumed != len(records):
        raise core.Inconclusive("EmitSchemaTrace consumed %s of %d records" % (consumed, len(records)))
    out = {}
    for f in core.tagged_lines(r["out"], "FAIL"):
        out[f["l"] - 1] = {(x["c"], tuple(x["p"]), x["w"]) for x in f["diffs"]}
    os.remove(r["out"])
    return out, r


def selftest(ctx, schemas, emitted, trace, reparsed=()):
    """DESIGN 7 rule 6: genuine records pass the Strict trace spec; the same records with ONE recorded field corrupted
    (a `required` flag of the emitted description flipped; the validator's verdict flipped) are rejected."""
    good_emit = [t for t in trace if t[2][0] == "emit" and not t[1]
                 and any(d["t"]["k"] == "obj" and d["t"]["props"] for d in emitted[t[0]["ei"] - 1]["defs"])]
    good_enc = [t for t in trace if t[2][0] == "enc" and not t[1] and t[0]["judged"]]
    if not good_emit or not good_enc:
        raise core.Inconclusive("binding self-test: no clean emitted document / encoding to corrupt")
    ge, gc = good_emit[ctx.seed % len(good_emit)][0], good_enc[ctx.seed % len(good_enc)][0]

    def sub(rec, em):
        return [schemas[rec["si"] - 1]], [em], dict(rec, si=1, ei=1)
    res = {}
    for name in ("good-emit", "bad-emit", "good-enc", "bad-enc"):
        rec = ge if "emit" in name else gc
        em = json.loads(json.dumps(emitted[rec["ei"] - 1]))
        s1, e1, r1 = sub(rec, em)
        if name == "bad-emit":
            for d in em["defs"]:
                if d["t"]["k"] == "obj" and d["t"]["props"]:
                    d["t"]["props"][0]["req"] = not d["t"]["props"][0]["req"]
                    break
        if name == "bad-enc":
            r1["validator"] = not r1["validator"]
        _, r = run_trace(ctx, s1, e1, [r1], strict=True, name="selftest-" + name)
        res[name] = r["violated"]
    # round trip: a genuine record passes; the same record with a `required` flag of the RE-PARSED schema flipped is rejected
    good_rt = [t for t in trace if t[2][0] == "rt" and not t[1]
               and any(d["t"]["k"] == "struct" and d["t"]["fields"] for d in reparsed[t[0]["ri"] - 1]["defs"])]
    if good_rt:
        rec = good_rt[ctx.seed % len(good_rt)][0]
        for name in ("good-rt", "bad-rt"):
            rp = json.loads(json.dumps(reparsed[rec["ri"] - 1]))
            if name == "bad-rt":
                for d in rp["defs"]:
                    if d["t"]["k"] == "struct" and d["t"]["fields"]:
                        d["t"]["fields"][0]["req"] = not d["t"]["fields"][0]["req"]
                        break
            _, r = run_trace(ctx, [schemas[rec["si"] - 1]], [], [dict(rec, si=1, ri=1)], strict=True, name="selftest-" + name, reparsed=[rp])
            res[name] = r["violated"]
        if res["good-rt"] or not res["bad-rt"]:
            raise core.Inconclusive("binding self-test (round trip) failed: %s" % res)
    if res["good-emit"] or res["good-enc"] or not res["bad-emit"] or not res["bad-enc"]:
        raise core.Inconclusive("binding self-test failed: %s" % res)
    return ("EmitSchemaTrace(Strict) accepts a genuine emitted-document record and a genuine encoding record, and rejects them once a "
            "`required` flag of the recorded description / the recorded validator verdict / a `required` flag of the re-parsed schema is flipped")


ASSUMPTIONS = [
    "bounded universe: the catalogue of spec/SemanticsMC.tla plus the C12 schemas of spec/EmitSchemaMC.tla (cross-package references with "
    "closure, name collision, foreign objects in collections and unions; constants; defaults next to constraints and of composite values; "
    "nullable fields of every kind); values of the generated Go types = json.Unmarshal of every document of Docs(schema) the catalogue "
    "term accepts, and New<Root>(), re-encoded by json.Marshal",
    "the reference of every comparison is the IR the jsonschema / openapi jenny really consumed (Pipeline.LoadSchemas + ContextForLanguage, "
    "projected by harness/cmd/worker/ir.go and mapped to a schema term); where an input parser already changed the schema (counted in "
    "ir_vs_source_term) that is not this property's subject",
    "reading rules: an encoding is a `value of the generated types` when the IR accepts it (Semantics!Accepts on the IR term; TLC recomputes "
    "it) - encodings of New<Root>() that break a constraint of the IR are observed, not judged; nullability and type keywords are judged "
    "through validation of encodings only, the property lists names, required-ness, constraints, enum values and defaults; enum values are "
    "compared as sets; `description`, `format`, `title` are annotations",
    "an OpenAPI document is read as OpenAPI 3.0 (the version it declares): `const` and a numeric `exclusiveMinimum/Maximum` are not part of "
    "that language and do not carry a constraint; encodings are validated against an OpenAPI document only when kin-openapi can load it",
    "independent loaders: python jsonschema Draft7Validator.check_schema (+ every `$ref` resolved as a JSON pointer inside the document), "
    "kin-openapi loader + Validate; cog's own parsers: jsonschema.GenerateAST, openapi.GenerateAST (Validate on) behind the loader "
    "configuration of internal/codegen/openapi.go",
    "packages that cog cannot generate or that do not compile are excluded from the encoding clause and counted; their emitted documents "
    "are still judged",
    "maps with non-string keys, constant references and composable slots have no spelling in the three input formats used here and are "
    "outside the universe; an IR intersection is read as the struct with all its branches' fields",
    "thorough tier: plus the schemas of EmitSchemaMC!TList (three packages, aliases, mutual recursion, defaults of every value type, "
    "required-ness x nullability x default grids, unions, intersections) and NSIM seeded `tlc -simulate` draws from the large catalogue "
    "(every leaf kind x every position; defaults x required-ness x nullability); the output option `compact` alternates with the schema id",
    "round trip: the emitted document read back by cog's own parser is compared (names, required-ness, constraints, enum values, "
    "defaults) for the objects the parser declares - it only follows references from the entry point; one-place invalid documents "
    "(broken bound, non-member, missing required field, probe values of scalar unions) that the IR rejects must be rejected by the "
    "emitted document; for packages whose generated Go does not compile the documents themselves stand in for the encodings",
    "integers beyond 32 bits are carried as exact decimal text (Semantics!JBig); python reads JSON integers exactly; kin-openapi "
    "validates through float64 (its verdict on such documents is only cross-checked)",
]
