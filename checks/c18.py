"""C18 - copies of the intermediate representation are faithful and independent.

spec: Heap.tla (Go values as a heap graph; Iso, Disjoint, Snapshot, mutations), HeapMC.tla (design level:
      every copy routine of a family x every mutation sequence <= 2 over template heaps), HeapShapes.tla
      (shape universe: node type x kind chain x payload x fill), HeapTrace.tla (validation of real copies),
      HeapDup.tla (the duplicate rules: rule x source shape x exclusion list x target package -> what the duplicate
      keeps, which real transformations follow), HeapDupTrace.tla (validation of real duplicates)
real code: every DeepCopy method of internal/ast (found by reflection), compiler.Passes.Process, the three duplicate
      rules (schema transformation duplicate_object, builder rule duplicate, option rule duplicate); all through the
      verifapi facade.

  worker c18-roots        -> types with a DeepCopy method            -> constant Roots of HeapShapes
  TLC HeapMC              -> Safe (Iso /\\ Disjoint => immune), REVEAL -> mutation plans
  TLC HeapShapes          -> SHAPE lines
  worker c18-run          -> per shape: fill, real DeepCopy, heap graphs, Iso/Disjoint, plans on the copy,
                             snapshot of the original; records for HeapTrace
  TLC HeapTrace (report)  -> Iso / Disjoint / Snapshot / Drift per record, cross-checked with the worker
  worker c18-real         -> Passes.Process leaves its input unchanged
  TLC HeapDup             -> DUPCASE lines
  worker c18-dup          -> per case: the real duplicate rule; Iso against the source without what the spec says is
                             not kept, Disjoint, writes through duplicate and source, real passes aimed at one of them
  TLC HeapDupTrace        -> Iso / Disjoint / Snapshot / Drift per recorded duplicate, cross-checked with the worker
"""
import json
import os

from vlib import core

NSLICES = 48
DUP_NSLICES = 2     # quick: half of the kind chains of the duplicate-rule cases (every rule, fill and exclusion list in both)
OUTER_NSLICES = 6   # thorough: roots other than Type get every kind directly below them + 1/6 of the two-level chains
OPS = ["SetField", "SetElem", "AppendWithinCap", "MapInsert", "MapDelete", "SetThroughPointer"]
REAL_CHAINS = [["struct", k] for k in ("scalar", "ref", "constant_ref", "enum", "array", "map", "struct", "disjunction",
                                       "intersection", "composable_slot")] + \
              [[k] for k in ("scalar", "ref", "enum", "array", "map", "disjunction", "intersection", "constant_ref")]
REAL_PAYLOADS = ["slice", "map", "nested", "irnode"]


def tla_set(names):
    return "{" + ", ".join('"%s"' % n for n in names) + "}"


def canonical(plan):
    """k and k2 are interchangeable: rename so that k2 only acts after k has."""
    seen_k = False
    ren = {}
    out = []
    for a, op in plan:
        if a in ("k", "k2") and a not in ren:
            ren[a] = "k2" if seen_k else "k"
            seen_k = True
        out.append((ren.get(a, a), op))
    return tuple(out)


def design_level(ctx, cov, quick):
    """(a) TLC: Safe/ClassifyOK/OnlySharingLeaks over every copy routine (applied twice) x mutation sequence through
    any of the three values; (b) mutation plans from REVEAL: a core that covers every defect class + the rest."""
    r = ctx.run_tlc("HeapMC", "HeapMC.cfg", workers=8 if quick else 16, timeout=1800,
                    constants={"MaxMut": 2, "MaxDefects": 1 if quick else 8})
    defects, revealed = {}, {}
    for rec in core.tagged_lines(r["out"], "DEFECT"):
        defects[(rec["tpl"], tuple(rec["defect"]))] = rec
    for rec in core.tagged_lines(r["out"], "REVEAL"):
        d = (rec["tpl"], tuple(rec["defect"]))
        plan = canonical([(st["a"], st["op"]) for st in rec["plan"]])
        revealed.setdefault(plan, set()).add(d)
    os.remove(r["out"])
    sharing = {d for d, rec in defects.items() if not rec["disj"]}
    by_defect = {d: {p for p, ds in revealed.items() if d in ds} for d in sharing}
    hidden = [d for d, ps in by_defect.items() if not ps]
    if hidden or not sharing:
        raise core.Inconclusive("design level: sharing defects that no mutation sequence <= 2 reveals: %s" % hidden)
    # core: every revealing single step through the copy, plus for every defect class that no core plan reveals yet all
    # of its shortest revealing plans (e.g. an empty slice with spare capacity: two values appending)
    core_plans = {p for p in revealed if len(p) == 1 and p[0][0] == "k"}
    for d in sorted(sharing):
        if not (by_defect[d] & core_plans):
            shortest = min(len(p) for p in by_defect[d])
            core_plans |= {p for p in by_defect[d] if len(p) == shortest}
    rotate = sorted(set(revealed) - core_plans)
    if not core_plans:
        raise core.Inconclusive("design level: no revealing mutation plan found")
    fmt = lambda ps: [[{"a": a, "op": op} for a, op in p] for p in sorted(ps)]
    cov["design"] = {
        "states": r["distinct"], "max_defects_per_copy_routine": 1 if quick else 8,
        "single_defect_copy_routines": len(defects), "sharing_defects_all_revealed": len(sharing),
        "revealing_plans": len(revealed), "core_plans": ["+".join("%s:%s" % st for st in p) for p in sorted(core_plans)],
        "defects_only_revealed_by_two_values_writing": sorted(
            "%s.%s" % (d[1][0], d[1][1]) for d in sharing if min(len(p) for p in by_defect[d]) > 1),
        "invariants": "Safe (Iso /\\ Disjoint at copy time => no step through one of original/copy/second copy changes "
                      "the snapshot of another), ClassifyOK, OnlySharingLeaks",
    }
    return r, {"core": fmt(core_plans), "rotate": fmt(rotate)}


def shapes_from_tlc(ctx, roots, quick):
    consts = {"Roots": tla_set(roots["roots"]), "DeepRoots": tla_set(["Type"]), "MaxDepth": 3,
              "NSlices": NSLICES if quick else 1, "Slice": ctx.seed % NSLICES if quick else 0,
              "OuterNSlices": 1 if quick else OUTER_NSLICES, "OuterSlice": 0 if quick else ctx.seed % OUTER_NSLICES}
    r = ctx.run_tlc("HeapShapes", "HeapShapes.cfg", workers=4, timeout=900, constants=consts)
    f = os.path.join(ctx.scratch, "shapes.ndjson")
    n = core.tagged_to_file(r["out"], "SHAPE", f)
    os.remove(r["out"])
    if n != r["distinct"]:
        raise core.Inconclusive("TLC printed %d shapes for %d distinct states" % (n, r["distinct"]))
    return r, f, n


def real_shapes(ctx):
    f = os.path.join(ctx.scratch, "real-shapes.ndjson")
    with open(f, "w") as out:
        for chain in REAL_CHAINS:
            for p in REAL_PAYLOADS:
                out.write(json.dumps({"root": "Schemas", "chain": chain, "fill": "wellformed", "payload": p}) + "\n")
        out.write(json.dumps({"root": "Schemas", "chain": ["struct", "scalar"], "fill": "saturated", "payload": "nested"}) + "\n")
    return f


def collect(ctx, summary, replay_of):
    for sig, agg in summary["signatures"].items():
        ex = agg["examples"][0]
        what = "%s (x%d)" % (json.dumps({k: v for k, v in ex.items() if k not in ("shape", "case")})[:400], agg["count"])
        if "case" in ex:
            what = "%s %s %s/%s excluded=%s into=%s: %s" % (ex["case"]["rule"], "/".join(ex["case"]["chain"]), ex["case"]["fill"],
                                                          ex["case"]["payload"], "+".join(ex["case"]["excl"]) or "none", ex["case"]["target"], what)
        ctx.fail(sig, what, replay_of(ex))


def trace_validation(ctx, trace, cov):
    recs = [json.loads(x) for x in open(trace)]
    if not recs:
        raise core.Inconclusive("no trace records (no heap small enough for HeapTrace)")
    r = ctx.run_tlc("HeapTrace", "HeapTrace.cfg", workers=1, timeout=2400, files={"trace.ndjson": trace})
    consumed = _ints(r["out"], "CONSUMED")
    if not consumed or consumed[-1] != len(recs):
        raise core.Inconclusive("HeapTrace consumed %s of %d records" % (consumed, len(recs)))
    failed = {f["l"]: f for f in core.tagged_lines(r["out"], "FAIL")}
    per_clause = {"Iso": 0, "Disjoint": 0, "Snapshot": 0}
    for i, rec in enumerate(recs, start=1):
        v = set(failed[i]["violated"]) if i in failed else set()
        if "Drift" in v:
            raise core.Inconclusive("model and observation disagree on record %d (%s, plan %s): replaying the recorded writes on the "
                                    "extracted heap predicts leaks %s, observed %s" % (i, rec["shape"], rec["plan"],
                                                                                       sorted(failed[i]["predicted"]), rec["leaks"]))
        if rec["go_iso"] != ("Iso" not in v) or rec["go_disjoint"] != ("Disjoint" not in v) or bool(rec["leaks"]) != ("Snapshot" in v):
            raise core.Inconclusive("TLC and the worker disagree on record %d (%s): TLC %s, worker iso=%s disjoint=%s leaks=%s"
                                    % (i, rec["shape"], sorted(v), rec["go_iso"], rec["go_disjoint"], rec["leaks"]))
        for c in per_clause:
            per_clause[c] += c in v
    cov["trace"] = {"records": len(recs), "records_failing_per_clause": per_clause,
                    "records_with_writes": sum(1 for x in recs if x["writes"]),
                    "records_per_fill": {f: sum(1 for x in recs if x["shape"]["fill"] == f) for f in sorted({x["shape"]["fill"] for x in recs})},
                    "max_cells": max(x["ncells"] for x in recs)}
    return r, recs, failed


def share_one_cell(rec):
    """Corrupt a record: make the copy point at a cell of the original (what a shallow copy would do)."""
    cells = rec["cells"]

    def walk(a, b, depth):
        if depth > 6 or a["t"] != b["t"] or a["t"] not in ("slice", "map", "ptr", "inl") or not a["c"] or not b["c"]:
            return None
        for label, va in sorted(cells[a["c"]]["slots"].items()):
            vb = cells[b["c"]]["slots"].get(label)
            if vb is None:
                continue
            if va["t"] in ("slice", "map", "ptr") and vb["t"] == va["t"] and va["c"] and vb["c"] != va["c"]:
                vb["c"] = va["c"]
                return label
            hit = walk(va, vb, depth + 1)
            if hit:
                return hit
        return None
    return walk(rec["o"], rec["k"], 0)


def forget_one_scalar(rec):
    cells = rec["cells"]

    def walk(a, b, depth):
        if depth > 6 or a["t"] != b["t"] or a["t"] not in ("slice", "map", "ptr", "inl") or not a["c"]:
            return None
        for label, va in sorted(cells[a["c"]]["slots"].items()):
            vb = cells[b["c"]]["slots"].get(label)
            if vb is None:
                continue
            if va["t"] == "s" and vb["t"] == "s" and va["v"].startswith("string:s"):
                vb["v"] = "string:"
                return label
            hit = walk(va, vb, depth + 1)
            if hit:
                return hit
        return None
    return walk(rec["o"], rec["k"], 0)


def selftest_binding(ctx, recs, failed):
    good = None
    for i, rec in enumerate(recs, start=1):
        if i not in failed and rec["writes"] and rec["ncells"] >= 6:
            probe = json.loads(json.dumps(rec))
            if share_one_cell(probe):
                good = rec
                break
    if good is None:
        raise core.Inconclusive("binding self-test: no accepted record with a reference edge in the trace")
    variants = {"good": json.loads(json.dumps(good))}
    bad1 = json.loads(json.dumps(good))
    share_one_cell(bad1)
    variants["shared-cell"] = bad1
    bad2 = json.loads(json.dumps(good))
    if forget_one_scalar(bad2):
        variants["forgotten-scalar"] = bad2
    bad3 = json.loads(json.dumps(good))
    bad3["leaks"] = ["k>o"]
    variants["observed-leak"] = bad3
    res = {}
    for name, rec in variants.items():
        r = ctx.run_tlc("HeapTrace", "HeapTrace.cfg", workers=1, timeout=300,
                        files={"trace.ndjson": (json.dumps(rec) + "\n").encode()}, constants={"Strict": "TRUE"},
                        allow_violation=True)
        res[name] = r["violated"]
    if res["good"] or not all(v for k, v in res.items() if k != "good"):
        raise core.Inconclusive("binding self-test failed (rejected?): %s" % res)
    return "HeapTrace(Strict) accepts a genuine record of a real DeepCopy and rejects it after: %s" % ", ".join(
        k for k in res if k != "good")


def drop_kept_element(rec):
    """Corrupt a record: claim that the duplicate keeps one element less than it does (or one more when nothing was left out)."""
    if rec["path"] and rec["keep"]:
        rec["keep"] = rec["keep"][:-1]
        return True
    return False


def duplicate_rules(ctx, cov, quick, problems):
    """The duplicate rules of cog on the cases of HeapDup.tla: (A) TLC enumerates rule x source shape x exclusion list x target
    package with what the duplicate must keep; (B) worker c18-dup runs the real rule on each; (C) the recorded duplicates are
    judged again by TLC (HeapDupTrace) and both verdicts compared; Strict self-test."""
    consts = {"NSlices": DUP_NSLICES if quick else 1, "Slice": ctx.seed % DUP_NSLICES if quick else 0}
    r_cases = ctx.run_tlc("HeapDup", "HeapDup.cfg", workers=2, timeout=600, constants=consts)
    cases = os.path.join(ctx.scratch, "dupcases.ndjson")
    n = core.tagged_to_file(r_cases["out"], "DUPCASE", cases)
    os.remove(r_cases["out"])
    if n != r_cases["distinct"] or n == 0:
        raise core.Inconclusive("TLC printed %d duplicate-rule cases for %d distinct states" % (n, r_cases["distinct"]))
    trace = os.path.join(ctx.scratch, "duptrace.ndjson")
    ds = json.loads(ctx.run_worker(["c18-dup", "-cases", cases, "-trace", trace, "-trace-max", "400" if quick else "1500",
                                    "-trace-cells", "150"], timeout=2400))
    collect(ctx, ds, lambda ex: {"case": ex["case"], "dup": True})
    for h in ds.get("harness_errors") or []:
        problems.append("harness (duplicate rules): " + h)
    st = ds["stats"]
    # vacuity: every rule, every exclusion class, both kinds of list, non-struct sources, both packages, both directions of
    # writing, every follow-up pass effective through the duplicate and through the source
    judged = st["duplicates_judged_per_rule"]
    vac = []
    for rule in ("duplicate_object", "builder_duplicate", "option_duplicate"):
        if judged.get(rule, 0) == 0:
            vac.append("no duplicate judged for rule %s" % rule)
    for rule in ("duplicate_object", "builder_duplicate"):
        for cl in ("none", "absent", "first", "last", "all", "absent+first", "first+last"):
            if st["duplicates_judged_per_exclusion_class"].get("%s/%s" % (rule, cl), 0) == 0:
                vac.append("exclusion list %s never exercised on %s" % (cl, rule))
        if not any(k.startswith(rule + "/") and int(k.split("/")[1]) >= 2 and v for k, v in st["sources_per_number_of_excludable_elements"].items()):
            vac.append("%s: no source with at least two excludable elements" % rule)
    for k in ("duplicates_that_left_elements_out", "duplicates_with_a_list_that_left_nothing_out",
              "object_duplicates_of_non_struct_sources", "object_duplicates_into_another_package"):
        if st[k] == 0:
            vac.append("%s = 0" % k)
    for k in ("through_duplicate", "through_source"):
        if st["writes_per_direction"].get(k, 0) == 0:
            vac.append("no write %s" % k)
    follows = sorted(st["follow_runs"])
    dead = [k for k in follows if st["follow_effective"].get(k, 0) == 0]
    if len(follows) < 16 or dead:
        vac.append("follow-up passes: %d kinds run, never effective: %s" % (len(follows), dead))
    if vac:
        problems.append("duplicate rules vacuous: " + "; ".join(vac))

    # (C) TLC judges the recorded duplicates
    recs = [json.loads(x) for x in open(trace)] if os.path.exists(trace) else []
    r_trace, binding = None, "not run"
    try:
        if not recs:
            raise core.Inconclusive("no duplicate small enough for HeapDupTrace")
        r_trace = ctx.run_tlc("HeapDupTrace", "HeapDupTrace.cfg", workers=1, timeout=1800, files={"duptrace.ndjson": trace})
        consumed = _ints(r_trace["out"], "CONSUMED")
        if not consumed or consumed[-1] != len(recs):
            raise core.Inconclusive("HeapDupTrace consumed %s of %d records" % (consumed, len(recs)))
        failed = {f["l"]: f for f in core.tagged_lines(r_trace["out"], "FAIL")}
        per_clause = {"Iso": 0, "Disjoint": 0, "Snapshot": 0}
        for i, rec in enumerate(recs, start=1):
            v = set(failed[i]["violated"]) if i in failed else set()
            if "Drift" in v:
                raise core.Inconclusive("model and observation disagree on duplicate record %d (%s): replaying the recorded writes "
                                        "predicts leaks %s, observed %s" % (i, rec["case"]["rule"], sorted(failed[i]["predicted"]), rec["leaks"]))
            if rec["go_iso"] != ("Iso" not in v) or rec["go_disjoint"] != ("Disjoint" not in v) or bool(rec["leaks"]) != ("Snapshot" in v):
                raise core.Inconclusive("TLC and the worker disagree on duplicate record %d (%s %s excl %s): TLC %s, worker iso=%s disjoint=%s leaks=%s"
                                        % (i, rec["case"]["rule"], rec["case"]["chain"], rec["case"]["excl"], sorted(v), rec["go_iso"],
                                           rec["go_disjoint"], rec["leaks"]))
            for c in per_clause:
                per_clause[c] += c in v
        # Strict self-test: a genuine duplicate that left elements out is accepted; corrupted records are rejected
        good = None
        for i, rec in enumerate(recs, start=1):
            if i not in failed and rec["path"] and rec["keep"] and rec["ncells"] >= 6 and share_one_cell(json.loads(json.dumps(rec))):
                good = rec
                break
        if good is None:
            raise core.Inconclusive("binding self-test: no accepted record of a duplicate that left elements out")
        variants = {"good": json.loads(json.dumps(good))}
        for name, corrupt in (("shared-cell", share_one_cell), ("kept-element-dropped", drop_kept_element)):
            bad = json.loads(json.dumps(good))
            if corrupt(bad):
                variants[name] = bad
        bad = json.loads(json.dumps(good))
        bad["leaks"] = ["k>o"]
        variants["observed-leak"] = bad
        res = {}
        for name, rec in variants.items():
            r = ctx.run_tlc("HeapDupTrace", "HeapDupTrace.cfg", workers=1, timeout=300,
                            files={"duptrace.ndjson": (json.dumps(rec) + "\n").encode()}, constants={"Strict": "TRUE"},
                            allow_violation=True)
            res[name] = r["violated"]
        if res["good"] or len(res) < 4 or not all(v for k, v in res.items() if k != "good"):
            raise core.Inconclusive("binding self-test (duplicates) failed: %s" % res)
        binding = "HeapDupTrace(Strict) accepts a genuine record of a real duplicate rule and rejects it after: %s" % ", ".join(
            k for k in res if k != "good")
        cov["duplicate_trace"] = {"records": len(recs), "records_failing_per_clause": per_clause,
                                  "records_that_left_elements_out": sum(1 for x in recs if x["path"]),
                                  "records_per_rule": {k: sum(1 for x in recs if x["case"]["rule"] == k) for k in sorted({x["case"]["rule"] for x in recs})},
                                  "binding_selftest": binding}
    except core.Inconclusive as e:
        problems.append(str(e))
    cov["duplicate_rules"] = {
        "cases_from_tlc": n,
        "case_coverage": ("slice %d of %d of the kind chains; every rule, fill/payload combination, exclusion list and target package" % (
            ctx.seed % DUP_NSLICES, DUP_NSLICES)) if quick else "all cases",
        **{k: st[k] for k in ("cases_per_rule", "duplicates_judged_per_rule", "duplicates_judged_per_exclusion_class",
                              "sources_per_number_of_excludable_elements", "duplicates_that_left_elements_out",
                              "duplicates_with_a_list_that_left_nothing_out", "object_duplicates_of_non_struct_sources",
                              "object_duplicates_into_another_package", "writes_per_direction", "follow_runs", "follow_effective",
                              "follow_errors", "cells", "max_cells")},
    }
    return [r for r in (r_cases, r_trace) if r], ds, recs


def run_shapes(ctx, shapes_file, plans_file, extra):
    """worker c18-run; a fatal crash of the worker (stack overflow, out of memory: not a recoverable panic) is attributed to
    the shapes that were in flight (progress file), each re-run alone; reproducible crashes become findings and the rest of
    the universe is run without them."""
    import subprocess
    shapes = [json.loads(x) for x in open(shapes_file)]
    fatal = []
    for attempt in range(4):
        prog = os.path.join(ctx.scratch, "progress-%d.ndjson" % attempt)
        p = subprocess.run([ctx.worker, "c18-run", "-shapes", shapes_file, "-plans", plans_file, "-progress", prog] + extra,
                           stdout=subprocess.PIPE, stderr=subprocess.PIPE, env=ctx.goenv(), timeout=3000)
        if p.returncode == 0:
            return json.loads(p.stdout), fatal
        err = p.stderr.decode(errors="replace")
        inflight = {}
        if os.path.exists(prog):
            for line in open(prog):
                try:
                    ev = json.loads(line)
                except ValueError:
                    continue
                if ev["ev"] == "start":
                    inflight[ev["idx"]] = ev["shape"]
                else:
                    inflight.pop(ev["idx"], None)
        if not inflight or not ("fatal error" in err or "panic:" in err or p.returncode < 0):
            core.log(err[-3000:])
            raise core.Inconclusive("worker failed (exit %d): c18-run" % p.returncode)
        culprits = []
        for sh in inflight.values():
            one = os.path.join(ctx.scratch, "one-shape.ndjson")
            open(one, "w").write(json.dumps(sh) + "\n")
            q = subprocess.run([ctx.worker, "c18-run", "-shapes", one, "-plans", plans_file, "-par", "1", "-pairs", "0"],
                               stdout=subprocess.PIPE, stderr=subprocess.PIPE, env=ctx.goenv(), timeout=600)
            if q.returncode != 0:
                qe = q.stderr.decode(errors="replace")
                cls = "crash"
                for line in qe.splitlines():
                    if line.startswith("fatal error:") or line.startswith("panic:"):
                        cls = "-".join(line.replace(":", "").split()[:4])
                        break
                culprits.append(sh)
                fatal.append(sh)
                ctx.fail("C18/%s.DeepCopy/fatal/%s" % (sh["root"], cls), qe[:300], {"shape": sh, "plan": None})
        if not culprits:
            raise core.Inconclusive("worker crashed (exit %d) but no shape in flight reproduces the crash alone" % p.returncode)
        keys = {json.dumps(c, sort_keys=True) for c in culprits}
        shapes = [x for x in shapes if json.dumps(x, sort_keys=True) not in keys]
        with open(shapes_file, "w") as f:
            for x in shapes:
                f.write(json.dumps(x) + "\n")
    raise core.Inconclusive("worker keeps crashing")


def replay(ctx):
    rp = json.load(open(ctx.replay))
    want = rp.get("signature")
    ex = rp["replay"]
    shape = ex.get("shape")
    sf = os.path.join(ctx.scratch, "shape.ndjson")
    open(sf, "w").write(json.dumps(shape) + "\n")
    found = {}
    if ex.get("dup"):
        cf = os.path.join(ctx.scratch, "dupcase.ndjson")
        open(cf, "w").write(json.dumps(ex["case"]) + "\n")
        s = json.loads(ctx.run_worker(["c18-dup", "-cases", cf]))
        found.update(s["signatures"])
    elif ex.get("real"):
        s = json.loads(ctx.run_worker(["c18-real", "-shapes", sf]))
        found.update(s["signatures"])
    else:
        plans = {"core": [ex["plan"]] if ex.get("plan") else [[{"a": "k", "op": op}] for op in OPS], "rotate": []}
        pf = os.path.join(ctx.scratch, "plans.json")
        json.dump(plans, open(pf, "w"))
        s = json.loads(ctx.run_worker(["c18-run", "-shapes", sf, "-plans", pf]))
        found.update(s["signatures"])
    for sig, agg in found.items():
        if want is None or sig == want:
            ctx.fail(sig, json.dumps(agg["examples"][0])[:400], ex)
    return ctx.finish("model_checking", {"evaluations": 1, "distinct_nontrivial": 0}, [])


def run(ctx):
    quick = ctx.quick()
    ctx.build_worker()
    if ctx.replay:
        return replay(ctx)
    cov = {}
    roots = json.loads(ctx.run_worker(["c18-roots", "-repo", core.REPO]))
    if len(roots["roots"]) < 2:
        raise core.Inconclusive("reflection found %d types with a DeepCopy method" % len(roots["roots"]))
    # Gates that fail AFTER real-code verdicts exist must not turn observed violations into "inconclusive": they are
    # collected and only decide the outcome when no unlisted violation was observed.
    problems = []
    # every DeepCopy method DECLARED in the current source tree (go/parser) must be one reflection reached
    declared = {(d["pkg"], d["recv"]) for d in roots["declared"] if d["name"] == "DeepCopy"}
    unreached = sorted("%s.%s" % d for d in declared if d[0] != "internal/ast" or d[1] not in roots["roots"])
    if unreached or len(declared) != len(roots["roots"]):
        problems.append("DeepCopy methods declared in the source tree but not reached by reflection from ast.Schemas / "
                        "ast.Builders (extend the seeds of c18Roots): %s (declared %d, reached %d)" % (
                            unreached, len(declared), len(roots["roots"])))
    cov["copy_helpers_declared"] = sorted("%s.%s" % (d["pkg"], d["name"]) for d in roots["declared"] if d["name"] != "DeepCopy")

    # (A) design level + mutation plans; shape universe
    r_design, plans = design_level(ctx, cov, quick)
    r_shapes, shapes_file, n_shapes = shapes_from_tlc(ctx, roots, quick)
    plans_file = os.path.join(ctx.scratch, "plans.json")
    json.dump(plans, open(plans_file, "w"))

    # (B) every shape x plan on the real DeepCopy methods
    trace = os.path.join(ctx.scratch, "trace.ndjson")
    extra = ["-seed", str(ctx.seed), "-trace", trace, "-trace-max", "1200" if quick else "6000", "-trace-cells", "150",
             "-pairs", "2"]
    s, fatal_shapes = run_shapes(ctx, shapes_file, plans_file, extra)
    st = s["stats"]
    collect(ctx, s, lambda ex: {"shape": ex["shape"], "plan": ex.get("plan")})
    for h in s.get("harness_errors") or []:
        problems.append("harness: " + h)

    # (C) the recorded real copies, judged by TLC with the operators of Heap.tla
    r_trace, recs, failed, binding = None, [], {}, "not run"
    try:
        r_trace, recs, failed = trace_validation(ctx, trace, cov)
        binding = selftest_binding(ctx, recs, failed)
    except core.Inconclusive as e:
        problems.append(str(e))

    # real transformations instead of synthetic writes
    rs = {"stats": {}, "passes": [], "samples": [], "signatures": {}}
    try:
        rs = json.loads(ctx.run_worker(["c18-real", "-shapes", real_shapes(ctx)], timeout=1800))
        collect(ctx, rs, lambda ex: {"shape": ex["shape"], "real": True})
    except core.Inconclusive as e:
        problems.append(str(e))
    rst = {k: rs["stats"].get(k, 0) for k in ("schema_inputs", "process_calls", "runs_with_input_mutated")}
    rst.update({k: rs["stats"].get(k, {}) for k in ("pass_changed_its_copy", "pass_errors", "pass_panics")})

    # the duplicate rules (HeapDup): TLC cases -> real rules -> TLC trace validation
    r_dup, dst, dup_recs, ds = [], {"cases": 0, "duplicates_judged_per_rule": {}}, [], {"samples": []}
    try:
        r_dup, ds, dup_recs = duplicate_rules(ctx, cov, quick, problems)
        dst = ds["stats"]
    except core.Inconclusive as e:
        problems.append(str(e))
    dup_judged = sum(dst["duplicates_judged_per_rule"].values())

    # vacuity
    missing_roots = [r for r in roots["roots"] if st["shapes_per_root"].get(r, 0) == 0]
    # AppendWithinCap only has a site where a slice has spare capacity (the filler's originals do)
    dead_ops = [op for op in OPS if st["sites_per_op"].get(op, 0) == 0]
    if missing_roots:
        problems.append("DeepCopy methods never exercised: %s" % missing_roots)
    if dead_ops:
        problems.append("mutation kinds that never found a site on any value: %s" % dead_ops)
    if st["recopies_judged"] == 0:
        problems.append("no second call / copy of a copy was judged")
    effective = sorted(p for p in rs["passes"] if rst["pass_changed_its_copy"].get(p, 0) > 0)
    if len(effective) < 15:
        problems.append("real transformations vacuous: %d effective passes" % len(effective))
    known = {k["signature"] for k in core.load_known() if k["property"] == ctx.pid and k.get("status", "known") == "known" and "signature" in k}
    unlisted = [f for f in ctx.failures if f["signature"] not in known]
    if problems and not unlisted:
        raise core.Inconclusive("; ".join(problems))
    if problems:
        cov["inconclusive_parts"] = problems   # reported next to the violations, which stand

    tl = [r for r in (r_design, r_shapes, r_trace) if r] + r_dup
    cov.update({
        "states": sum(r["distinct"] for r in tl),
        "transitions": sum(r["generated"] for r in tl),
        "traces_validated_against_impl": len(recs) + len(dup_recs),
        "exhaustive": False,
        "shape_coverage": ("slice %d of %d of the kind chains, every root, every payload/fill combination" % (ctx.seed % NSLICES, NSLICES)) if quick else
                          ("Type: every kind chain to depth 3; the other %d roots: every kind directly below them and slice %d of %d of the "
                           "two-level chains; every payload/fill combination" % (len(roots["roots"]) - 1, ctx.seed % OUTER_NSLICES, OUTER_NSLICES)),
        "evaluations": st["cases"] + rst["process_calls"] + dup_judged,
        "distinct_nontrivial": st["nontrivial_cases"],
        "rule": "one evaluation = one (shape, mutation plan) executed on a real DeepCopy method: instantiate the shape with the "
                "reflection filler, copy, compare heap graphs (Iso, Disjoint), perform the plan at every site of the copy, compare "
                "a deep snapshot of the original - or one real Passes.Process call / one case of HeapDup run on the real duplicate "
                "rule (faithful against the source without what the spec says is not kept, disjoint, writes both ways, follow-up "
                "passes); shapes and cases are "
                "distinct TLC states and plans distinct op sequences; non-trivial = the plan performed at least one write on the copy",
        "deepcopy_methods": roots["roots"], "shapes_from_tlc": n_shapes, "shapes_instantiated": st["shapes"],
        "shapes_skipped_as_duplicates": st["skipped_duplicate_shapes"], "plans_core": plans["core"], "plans_rotating": len(plans["rotate"]),
        "plans_per_shape": "the core plans + %d of the %d other revealing plans (rotating)" % (2, len(plans["rotate"])),
        "cells_extracted": st["cells"], "largest_heap_cells": st["max_cells"],
        "writes_on_copies_per_mutation_kind": st["sites_per_op"], "cases_per_mutation_kind": st["cases_per_op"],
        "shapes_per_root": st["shapes_per_root"], "observable_leaves_per_root": st["observable_leaves_per_root"],
        "shapes_iso_ok": st["shapes_iso_ok"], "shapes_disjoint_ok": st["shapes_disjoint_ok"],
        "cases_with_visible_mutation": st["cases_with_visible_mutation"],
        "second_calls_and_copies_of_copies_judged": st["recopies_judged"], "shapes_with_fatal_crash": fatal_shapes,
        "real_transformations": {k: rst[k] for k in ("schema_inputs", "process_calls", "runs_with_input_mutated")},
        "effective_passes": effective, "pass_errors": rst["pass_errors"], "pass_panics_not_judged_here": rst["pass_panics"],
        "binding_selftest": binding,
        "samples": (s["samples"] or recs[:1] or [{"note": "no record"}])[:2] + rs["samples"][:1] + ds["samples"][:1],
        "checker_cmd": "tlc HeapMC (MaxMut=2); tlc HeapShapes (%s); worker c18-run; tlc HeapTrace; worker c18-real; tlc HeapDup; "
                       "worker c18-dup; tlc HeapDupTrace" % (
            "slice %d/%d" % (ctx.seed % NSLICES, NSLICES) if quick else "all shapes"),
    })
    return ctx.finish("model_checking", cov, [
        "stated equivalences of nil-ness: nil and empty are the same value for slice and map FIELDS (cog's own copy routines turn "
        "one into the other); exact for pointers (a non-nil pointer to an empty struct is not nil) and for `any` slots (an "
        "interface holding an empty list is not a nil interface); a slice without any capacity has no backing array",
        "a backing array with capacity is structure of the value whatever the length of the slice header: two values holding the "
        "same spare capacity overwrite each other's appends (HeapMC: revealed only by two values appending)",
        "every copy is taken twice from the same original; plans are executed through the original, the copy or the second copy, "
        "and after each step the two other values must be unchanged",
        "PassesTrail and VeneerTrail are compared like every other declared field",
        "`any` payloads are instantiated as scalars (also every falsy one), []any, map[string]any, nestings of them, "
        "ast.DisjunctionType values (which cog itself stores), typed slices/maps, a map in a map, pointers and a pointer to a pointer",
        "for the duplicate rules what the rules document they set is excluded: the name (duplicate_object: also the self reference), "
        "the one appended trail entry, and the elements named by the exclusion list (the duplicate is compared with the source "
        "without them, in source order); exclusion lists name elements exactly or not at all (case folding of the list is the "
        "rule's business, not this property's)",
        "follow-up passes are schema transformations that take an object or field reference, aimed at the duplicate (or the source) "
        "in the same chain after duplicate_object: the other object must come out as from the chain without them; passes that "
        "work on every object are not used for this (what they do to the source is their own effect)",
        "heaps larger than 150 cells are judged by the worker only (same operators, in Go); TLC judges the sampled smaller ones "
        "and both verdicts are cross-checked on every sampled record",
    ])


def _ints(path, tag):
    import re
    out = []
    pat = re.compile(r'^<<"%s", (\d+)>>' % tag)
    with open(path, errors="replace") as f:
        for line in f:
            m = pat.match(line)
            if m:
                out.append(int(m.group(1)))
    return out
