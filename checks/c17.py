"""C17 - builder transformations keep builders well typed and do only what they document.

spec: Builders.tla (WTV / selectors / ApplyRule / StepViolated), BuildersMC.tla (Spec17: histories of rule instances over
      the builders derived from one schema set), BuildersTrace.tla (judgement of real steps)
real code: rewrite.NewRewrite(...).ApplyTo (common rules, then language rules) on BuilderGenerator.FromAST(S),
      rules built directly and through yaml.VeneersLoader.RewriterFrom from files in a temp dir.

  TLC BuildersMC/Spec17       -> CASE17 lines (history, the MODEL's builders after it); the contracts are checked on the
                                 model steps (ModelOK; MODELFAIL lines name model steps that break a contract)
  worker c17-replay           -> real step per history = (state after r1..rn-1, rn, state after r1..rn); a real step
                                 identical to the model step inherits TLC's verdict on it; every other step and a thin
                                 sample of the identical ones are written to the trace
  TLC BuildersTrace (report)  -> StepViolated(S, pre, rule, post) per record: WellTyped, the rule's contract,
                                 UnselectedUnchanged
"""
import json
import os

from vlib import core
from checks import builders_common as bc

NSLICES = 4
BUILDER_RULES = ["omit", "rename", "merge_into", "compose", "properties", "duplicate", "initialize", "promote", "add_option", "add_factory"]
OPTION_RULES = ["omit", "rename", "rename_arguments", "array_to_append", "map_to_index", "unfold_boolean", "struct_fields_as_arguments",
                "struct_fields_as_options", "disjunction_as_options", "duplicate", "add_assignment", "add_comments"]
ALL_RULES = ["builder." + r for r in BUILDER_RULES] + ["option." + r for r in OPTION_RULES]
WT = {"Path", "ArgDeclared", "ValueType"}


def rule_name(r):
    return ("builder." if r["kind"] == "b" else "option.") + r["r"]


def signature(rec, v):
    clause = "WellTyped." + v["clause"] if v["clause"] in WT else v["clause"]
    site = rule_name(rec["rule"])
    if v["witness"] == "builder-without-options-dropped":
        site = "Rewriter.ApplyTo"     # happens on every ApplyTo, whatever the rule
    return "C17/%s/%s/%s" % (site, clause, v["witness"])


def gate(ctx, msg):
    """A vacuity / self-test problem makes the run inconclusive - unless violations were observed: those are reported first."""
    if ctx.failures:
        ctx.notes.append("GATE (not fatal, violations were observed): " + msg)
    else:
        raise core.Inconclusive(msg)


def replay_and_judge(ctx, tlc_out, tag, extra_args=()):
    """worker replay of one TLC output + TLC judgement of the traced real steps."""
    summ = os.path.join(ctx.scratch, "c17-%s-sum.json" % tag)
    trace = os.path.join(ctx.scratch, "c17-%s-trace.ndjson" % tag)
    tables = os.path.join(ctx.scratch, "c17-%s-tables.json" % tag)
    ctx.run_worker(["c17-replay", "-in", tlc_out, "-trace", trace, "-tables", tables] + list(extra_args), stdout_path=summ, timeout=3000,
                   env={"TMPDIR": ctx.scratch})   # YAML veneer files live in the scratch directory
    s = json.load(open(summ))
    res = {"summary": s, "accepted": 0, "failed": 0, "inherited": 0, "skipped": 0, "tlc": []}
    if s["traced"] == 0:
        return res
    chunks, n = bc.split_file(trace, 1500, ctx, "c17-%s-chunk" % tag)
    os.remove(trace)
    tb = json.load(open(tables))
    for path, _first in chunks:
        recs = [json.loads(x) for x in open(path)]
        tr, fails, notes, consumed = bc.run_trace(ctx, path, tb)
        res["tlc"].append(tr)
        if consumed != len(recs):
            raise core.Inconclusive("BuildersTrace consumed %d of %d records" % (consumed, len(recs)))
        for i, rec in enumerate(recs, start=1):
            note = notes.get(i)
            if note and note["skipped"]:
                res["skipped"] += 1
            elif note and note["inherited"]:
                res["inherited"] += 1
            vs = fails.get(i)
            if not vs:
                res["accepted"] += 1
                continue
            if rec["same_as_model"]:
                raise core.Inconclusive("TLC rejects a real step that equals a model step it accepted: %s" % json.dumps(rec["hist"])[:400])
            res["failed"] += 1
            for v in vs:
                ctx.fail(signature(rec, v), "%s after %s (%s route)" % (json.dumps(v), json.dumps([rule_name(h) + ":" + json.dumps(h["sel"]) for h in rec["hist"]])[:700], rec["route"]),
                         {"S": s["S"], "hist": rec["hist"], "violated": v})
    return res


def replay(ctx):
    rp = json.load(open(ctx.replay))
    want = rp["signature"]
    ctx.build_worker()
    hist, S = rp["replay"]["hist"], rp["replay"]["S"]
    f = os.path.join(ctx.scratch, "replay.out")
    with open(f, "w") as out:
        out.write(bc.tlc_line("S17", {"S": S, "B0": []}))
        for n in range(1, len(hist) + 1):
            out.write(bc.tlc_line("CASE17", {"hist": hist[:n], "post": [], "err": False}))
    replay_and_judge(ctx, f, "replay", ["-trace-all"])
    ctx.failures = [x for x in ctx.failures if x["signature"] == want]
    return ctx.finish("model_checking", {"evaluations": 1, "distinct_nontrivial": 0}, [])


def run(ctx):
    if ctx.replay:
        return replay(ctx)
    quick = ctx.quick()
    ctx.build_worker()
    runs = []
    if quick:
        runs.append(("histories<=2", {"MaxLen": 2, "NSlices": NSLICES, "Slice": ctx.seed % NSLICES}, None))
        runs.append(("histories=3", {"MaxLen": 3, "NSlices": 1, "Slice": 0, "FirstFromR2": "TRUE"}, "num=12"))
    else:
        runs.append(("histories<=2", {"MaxLen": 2, "NSlices": 1, "Slice": 0}, None))
        runs.append(("histories=3", {"MaxLen": 3, "NSlices": 1, "Slice": 0, "FirstFromR2": "TRUE"}, "num=350"))
        # four rules, builder and option rules mixed, the extended alphabet (letter-case variants of selectors, by_builder,
        # by_name on builders, by_variant, generated_from_disjunction, rules on copies), common then language-specific
        runs.append(("histories=4", {"MaxLen": 4, "NSlices": 1, "Slice": 0, "FirstFromR2": "TRUE", "Ext": "TRUE"}, "num=100"))
    # nested structs, every history of <=3 path-lengthening rules (exhaustive): paths of four segments with sibling leaves
    runs.append(("chains", {"MaxLen": 3, "NSlices": 1, "Slice": 0, "Chains": "TRUE", "FirstFromR2": "TRUE"}, None))
    # argument wiring: two-argument options renamed with lists that swap / shift the old names (exhaustive, <=3 rules)
    runs.append(("wiring", {"MaxLen": 3, "NSlices": 1, "Slice": 0, "Wiring": "TRUE", "FirstFromR2": "TRUE"}, None))
    # layout: options whose arguments and assignments are not in pairs (constants in front, one envelope for several arguments),
    # rules addressing an argument by index on them, promote on the SOURCE of merge_into / compose, then the merge (exhaustive
    # <=3 of 10 rules, plus every history option, option, builder, builder)
    runs.append(("layout", {"MaxLen": 4, "NSlices": 1, "Slice": 0, "Layout": "TRUE", "FirstFromR2": "TRUE"}, None))
    runs.append(("no-option-builder", {"MaxLen": 1, "NSlices": 1, "Slice": 0, "WithMarker": "TRUE", "FirstFromR2": "TRUE"}, None))
    only = os.environ.get("VERIF_C17_RUNS")       # diagnostics: run the named universes only (the vacuity gates then make the run inconclusive)
    if only:
        runs = [r for r in runs if r[0] in only.split(",")]
    tot = {"steps": 0, "matched": 0, "traced": 0, "accepted": 0, "failed": 0, "inherited": 0, "skipped": 0, "rejected": 0,
           "yaml_runs": 0, "yaml_agree": 0, "modelfail": 0}
    per_rule, per_rule_nt, per_rule_drift, per_len, per_sel, other = {}, {}, {}, {}, {}, {}
    drift1 = {}
    samples, tlc_all, other_ex = [], [], {}
    for name, consts, sim in runs:
        r = ctx.run_tlc("BuildersMC", "BuildersMC17.cfg", workers=8 if not sim else 1, timeout=2400, constants=consts,
                        simulate=sim, depth=consts["MaxLen"] + 1 if sim else None)
        tlc_all.append(r)
        tot["modelfail"] += sum(1 for _ in core.tagged_lines(r["out"], "MODELFAIL"))
        res = replay_and_judge(ctx, r["out"], name.replace("<", "le").replace("=", "eq"))
        os.remove(r["out"])
        s = res["summary"]
        if not s["derived_equals_model"]:
            raise core.Inconclusive("FromAST(S) differs from Derive(S) on the C17 schema set (see C16)")
        tlc_all += res["tlc"]
        tot["steps"] += s["steps"]
        tot["matched"] += s["matched_model"]
        tot["traced"] += s["traced"]
        tot["rejected"] += s["rejected_by_rewriter"]
        tot["yaml_runs"] += s["yaml_runs"]
        tot["yaml_agree"] += s["yaml_agree_with_direct"]
        for k in ("accepted", "failed", "inherited", "skipped"):
            tot[k] += res[k]
        for dst, key in ((per_rule, "per_rule"), (per_rule_nt, "per_rule_nontrivial"), (per_rule_drift, "per_rule_model_drift"),
                         (per_len, "per_history_length"), (drift1, "per_rule_model_drift_one_rule"), (per_sel, "per_selector_class"), (other, "observations_for_other_properties")):
            for k, v in s[key].items():
                dst[k] = dst.get(k, 0) + v
        for k, v in s["observation_examples"].items():
            other_ex.setdefault(k, v)
        samples += s["samples"] or []
    vacuous = [r for r in ALL_RULES if per_rule_nt.get(r, 0) == 0]
    if vacuous:
        gate(ctx, "rules that never changed a real state: %s" % vacuous)
    for cls in ("exact", "folded", "none", "other"):
        if per_sel.get(cls, 0) == 0:
            gate(ctx, "selector class never exercised: %s" % cls)
    if not all(per_len.get(str(n), 0) > 0 for n in ((1, 2, 3) if quick else (1, 2, 3, 4))):
        gate(ctx, "history lengths exercised: %s" % per_len)
    for rn, k in sorted(drift1.items()):
        # diagnostic only (DESIGN 7.3): the documented effect is not itself a clause of C17
        ctx.notes.append("MODEL-DRIFT property=C17 %s: %d one-rule step(s) differ from the rule's documented effect (judged by the contracts only)" % (rn, k))
    try:
        binding = selftest(ctx)
    except core.Inconclusive as e:
        gate(ctx, str(e))
        binding = "not established: %s" % e
    cov = {
        "states": sum(r["distinct"] for r in tlc_all),
        "transitions": sum(r["generated"] for r in tlc_all),
        "traces_validated_against_impl": tot["matched"] + tot["accepted"],
        "exhaustive": True,
        "evaluations": tot["steps"],
        "distinct_nontrivial": sum(per_rule_nt.values()),
        "rule": "one evaluation = one history of 1..3 (thorough: 1..4) rule instances (a TLC state) replayed on the real rewriter in one ApplyTo from freshly "
                "derived builders (direct rules; plus the same history loaded from YAML veneer files), judged on its last step "
                "(real state before, rule, real state after); histories of 1 rule: every rule x selector (exact, case-differing, "
                "non-matching, by_variant, generated_from_disjunction) x parameters under 'all' and under the language; 2 rules: the "
                "reduced alphabet R2 (49 instances)%s; 3 rules: TLC -simulate over R2; non-trivial = the real state changed" % (
                    " sliced %d/%d by VERIF_SEED" % (ctx.seed % NSLICES, NSLICES) if quick else ""),
        "steps_equal_to_model_step_judged_by_TLC_in_MC": tot["matched"],
        "steps_judged_by_TLC_trace_spec": tot["traced"], "trace_accepted": tot["accepted"], "trace_rejected": tot["failed"],
        "steps_with_already_ill_typed_pre_state": tot["inherited"], "undefined_parameterisations_skipped": tot["skipped"],
        "rejected_by_rewriter_with_error": tot["rejected"],
        "yaml_route_runs": tot["yaml_runs"], "yaml_route_same_as_direct": tot["yaml_agree"],
        "model_steps_violating_a_contract": tot["modelfail"],
        "per_rule": per_rule, "per_rule_nontrivial": per_rule_nt, "per_rule_model_drift": per_rule_drift, "per_rule_model_drift_one_rule": drift1,
        "per_history_length": per_len, "per_selector_class": per_sel,
        "observations_for_other_properties": other,
        "observation_examples": {k: json.dumps(v)[:600] for k, v in other_ex.items() if k.startswith("C04")},
        "binding_selftest": binding,
        "samples": [{"hist": x["hist"]} for x in samples[:3]] or [{"note": "no sample drawn"}],
        "checker_cmd": "tlc BuildersMC/BuildersMC17.cfg (exhaustive <=2, simulate 3, marker); worker c17-replay; tlc BuildersTrace",
    }
    return ctx.finish("model_checking", cov, [
        "VeneerTrail is not part of the compared state",
        "types on a path are compared up to the default value they carry; a path through `any` may continue in the hinted type",
        "an argument is declared when its option/constructor has an argument of that name",
        "explicit field lists naming no field of the struct are undefined parameterisations (not generated, skipped in traces)",
        "a builder may disappear after an option rule only when every one of its options was selected by that rule",
        "one schema set: Root{array,map,bool+default,ref struct,ref disjunction-struct,constrained string,disjunction,array of refs}, "
        "Inner, U (generated from a disjunction), Panel{type,any}, composable package q",
    ])


def selftest(ctx):
    """A genuine step is accepted in Strict mode; the same step with an unselected option changed is rejected."""
    d = ctx.sub("selftest17")
    f = os.path.join(d, "one.out")
    S = json.load(open(os.path.join(core.VERIF, "checks", "c17_selftest_schema.json")))
    rule = {"kind": "o", "lang": "all", "r": "rename", "as": "renamed",
            "sel": {"k": "by_name", "pkg": "p", "object": "Main", "options": ["a"]}}
    with open(f, "w") as out:
        out.write(bc.tlc_line("S17", {"S": S, "B0": []}))
        out.write(bc.tlc_line("CASE17", {"hist": [rule], "post": [], "err": False}))
    trace = os.path.join(d, "t.ndjson")
    tables = os.path.join(d, "tables.json")
    summ = os.path.join(d, "sum.json")
    ctx.run_worker(["c17-replay", "-in", f, "-trace", trace, "-tables", tables, "-trace-all"], stdout_path=summ, env={"TMPDIR": ctx.scratch})
    recs = [json.loads(x) for x in open(trace)]
    if len(recs) != 1 or recs[0]["post"][0]["options"][0]["name"] != "renamed":
        raise core.Inconclusive("binding self-test: unexpected real step")
    bad = json.loads(json.dumps(recs[0]))
    bad["post"][0]["options"][1]["comments"] = ["sneaked in"]
    res = {}
    tb = json.load(open(tables))
    for name, r in (("good", recs[0]), ("bad", bad)):
        t = os.path.join(d, name + ".ndjson")
        open(t, "w").write(json.dumps(r) + "\n")
        out, _f, _n, _c = bc.run_trace(ctx, t, tb, strict=True, allow_violation=True, timeout=300)
        res[name] = out["violated"]
    if res["good"] or not res["bad"]:
        raise core.Inconclusive("binding self-test failed: good rejected=%s bad rejected=%s" % (res["good"], res["bad"]))
    return "BuildersTrace(Strict) accepts a real option rename step and rejects it when an unselected option is changed in the recorded result"
