"""Growth item 2 (DESIGN Appendix E) - nil-check generation, the IR half of C09.

requirement (spec/Builders.tla, section "nil checks"): for every assignment of every constructor/option scope, exactly one
      nil check per NULLABLE PROPER PREFIX of the assignment path (nullable per the language's NullableConfig: Kinds,
      AnyIsNullable; the appended-to array itself when ProtectArrayAppend and the method is append), placed at or before the
      assignment, none repeated within the scope, none for anything else, EmptyValueType = the prefix's (hinted) type.
spec: Builders.tla (TypeNullable, NeededLens, BuilderWithNilChecks - the requirement as a function -, NilChecksViolated -
      as a relation), NilChecksMC.tla (builders derived from a schema set with nested optional structs, maps/arrays of
      structs, references through aliases, an `any` slot composed into; rewritten by histories of the path-changing veneer
      rules; design check: function satisfies relation for the seven languages' configurations), GrowthTrace.tla.
real code: BuilderGenerator.FromAST + Rewriter.ApplyTo give the builder state; languages.GenerateBuilderNilChecks(language, ctx)
      runs for each of the seven real Language values on a fresh copy; every distinct (language, builder) is judged by TLC.

run_part(ctx) -> dict(fails=[(signature, what, replay, key)], coverage={...}, tlc=[...]);
signatures C09/nilchecks/<lang>/<missing|spurious|duplicate|wrong-empty-value|frame|function>/<path class>.
"""
import json
import os

from vlib import core
from checks import builders_common as bc

NSLICES = 4
LANGS = ["go", "java", "jsonschema", "openapi", "php", "python", "typescript"]
# prefix classes every language with that configuration must have exercised
REQUIRED_CLASSES = {
    "go": ["nullable-ref", "nullable-struct", "kind-map", "any+hint"],
    "java": ["nullable-ref", "nullable-struct", "kind-map", "kind-ref", "kind-struct", "any+hint", "append-target"],
    "python": ["nullable-ref", "nullable-struct", "kind-map", "kind-ref", "kind-struct", "any+hint", "append-target"],
    "typescript": ["nullable-ref", "nullable-struct", "kind-map", "kind-ref", "kind-struct", "any+hint", "append-target"],
    "php": ["nullable-ref", "nullable-struct", "any+hint", "append-target"],
    "jsonschema": ["nullable-ref", "nullable-struct", "any+hint"],
    "openapi": ["nullable-ref", "nullable-struct", "any+hint"],
}


def run_growth_trace(ctx, trace_path, tables, strict=False, allow_violation=False, timeout=2400):
    d = ctx.sub("gtables")
    tp = os.path.join(d, "tables.json")
    tables = dict(tables)
    tables.setdefault("ucamel", {"dataquery": "Dataquery"})
    json.dump(tables, open(tp, "w"))
    r = ctx.run_tlc("GrowthTrace", "GrowthTrace.cfg", workers=1, timeout=timeout,
                    files={"trace.ndjson": trace_path, "tables.json": tp},
                    constants={"Strict": "TRUE"} if strict else None, allow_violation=allow_violation)
    fails, stats = {}, {}
    for f in core.tagged_lines(r["out"], "FAIL"):
        fails[f["l"]] = f["violated"]
    for f in core.tagged_lines(r["out"], "STAT"):
        stats[f["l"]] = f["classes"]
    consumed = bc.ints(r["out"], "CONSUMED")
    return r, fails, stats, (consumed[-1] if consumed else 0)


def signature(rec, v):
    return "C09/nilchecks/%s/%s/%s" % (rec["lang"], v["clause"], v["class"])


def judge(ctx, tlc_out, tag):
    summ = os.path.join(ctx.scratch, "nil-%s-sum.json" % tag)
    trace = os.path.join(ctx.scratch, "nil-%s-trace.ndjson" % tag)
    tables = os.path.join(ctx.scratch, "nil-%s-tables.json" % tag)
    ctx.run_worker(["nilchecks-replay", "-in", tlc_out, "-trace", trace, "-tables", tables], stdout_path=summ, timeout=3000)
    s = json.load(open(summ))
    res = {"summary": s, "fails": [], "accepted": 0, "classes": {}, "tlc": [], "checks_generated": 0, "first_records": []}
    if s["traced"] == 0:
        return res
    tb = json.load(open(tables))
    chunks, _n = bc.split_file(trace, 1500, ctx, "nil-%s-chunk" % tag)
    os.remove(trace)
    for path, _first in chunks:
        recs = [json.loads(x) for x in open(path)]
        tr, fails, stats, consumed = run_growth_trace(ctx, path, tb)
        if len(res["first_records"]) < 40:   # accepted records with generated checks: material for the binding self-test
            res["first_records"] += [r for i, r in enumerate(recs, start=1) if r["pre"] != r["post"] and i not in fails][:40]
        res["tlc"].append(tr)
        if consumed != len(recs):
            raise core.Inconclusive("GrowthTrace consumed %d of %d records" % (consumed, len(recs)))
        for i, rec in enumerate(recs, start=1):
            for c in stats.get(i, []):
                k = rec["lang"] + ":" + c
                res["classes"][k] = res["classes"].get(k, 0) + 1
            res["checks_generated"] += sum(len(a["nilchecks"]) for o in rec["post"]["options"] for a in o["assigns"]) + \
                sum(len(a["nilchecks"]) for a in rec["post"]["ctor"]["assigns"])
            vs = fails.get(i)
            if not vs:
                res["accepted"] += 1
                continue
            for v in vs:
                sig = signature(rec, v)
                res["fails"].append((sig, "%s on builder %s after %s" % (json.dumps(v), rec["pre"]["name"], json.dumps([h["r"] for h in rec["hist"]])),
                                     {"S": s["S"], "cfg": s["spec_cfg"], "hist": rec["hist"], "lang": rec["lang"], "builder": rec["pre"]["name"], "violated": v}, sig))
    return res


def replay_part(ctx, replay_obj):
    """Re-run one stored history; returns the fails list (same shape as run_part()['fails'])."""
    if ctx.worker is None:
        ctx.build_worker()
    f = os.path.join(ctx.scratch, "nil-replay.out")
    with open(f, "w") as out:
        out.write(bc.tlc_line("SN", {"S": replay_obj["S"], "B0": [], "cfg": replay_obj.get("cfg", {})}))
        out.write(bc.tlc_line("CASEN", {"hist": replay_obj["hist"], "post": [], "err": False}))
    return judge(ctx, f, "replay")["fails"]


def run_part(ctx):
    quick = ctx.quick()
    if ctx.worker is None:
        ctx.build_worker()
    consts = {"MaxLen": 2, "NSlices": 1, "Slice": 0} if quick else {"MaxLen": 3, "NSlices": NSLICES, "Slice": ctx.seed % NSLICES}
    r = ctx.run_tlc("NilChecksMC", "NilChecksMC.cfg", workers=8, timeout=2400, constants=consts)
    res = judge(ctx, r["out"], "mc")
    os.remove(r["out"])
    s = res["summary"]
    missing = []
    for lang, classes in REQUIRED_CLASSES.items():
        for c in classes:
            if not any(k.startswith(lang + ":" + c) for k in res["classes"]):
                missing.append(lang + ":" + c)
    if missing:
        raise core.Inconclusive("nil checks: prefix classes never exercised on real builders: %s" % missing)
    if any(s["per_language"].get(lang, 0) == 0 for lang in LANGS):
        raise core.Inconclusive("nil checks: a language was never run: %s" % s["per_language"])
    binding = selftest(ctx, res["first_records"], s["S"])
    if binding.startswith("not run") and not res["fails"]:
        raise core.Inconclusive("nil checks binding self-test: no record with a generated nil check")
    notes = []
    if not s["cfg_agrees_with_spec"]:
        notes.append("MODEL-DRIFT nil checks: the languages' NullableKinds() differ from the table in NilChecksMC.tla (LangCfg): real %s" % json.dumps(s["real_cfg"]))
    cov = {
        "nilchecks_histories": s["cases"], "nilchecks_records_judged_by_tlc": s["traced"], "nilchecks_records_accepted": res["accepted"],
        "nilchecks_generated_in_judged_records": res["checks_generated"],
        "nilchecks_states_equal_to_model": s["states_equal_to_model"], "nilchecks_rejected_by_rewriter": s["rejected_by_rewriter"],
        "nilchecks_per_language": s["per_language"], "nilchecks_prefix_classes": res["classes"],
        "nilchecks_language_configs": s["real_cfg"], "nilchecks_binding_selftest": binding,
        "nilchecks_observations_for_other_properties": s["observations_for_other_properties"],
        "nilchecks_rule": "one record = one distinct (language, builder) pair: the builder as left by the real rewriter after a history of "
                          "<=%d path-changing veneer rules (26 instances%s), and the same builder after the real GenerateBuilderNilChecks of "
                          "that language; judged by TLC as a relation (missing/spurious/duplicate/wrong-empty-value/frame) and against the "
                          "requirement as a function" % (consts["MaxLen"], "" if quick else ", last rule sliced %d/%d" % (consts["Slice"], NSLICES)),
        "nilchecks_notes": notes,
        "nilchecks_samples": s["samples"],
    }
    return {"fails": res["fails"], "coverage": cov, "tlc": [r] + res["tlc"]}


def selftest(ctx, records, S):
    """A real record is accepted in Strict mode; the same record with one generated nil check removed is rejected."""
    rec = None
    for r in records:
        for oi, o in enumerate(r["post"]["options"]):
            for ai, a in enumerate(o["assigns"]):
                if a["nilchecks"]:
                    rec, where = r, (oi, ai)
                    break
            if rec:
                break
        if rec:
            break
    if rec is None:
        return "not run: no real record with a generated nil check was accepted (see the violations)"
    bad = json.loads(json.dumps(rec))
    bad["post"]["options"][where[0]]["assigns"][where[1]]["nilchecks"] = bad["post"]["options"][where[0]]["assigns"][where[1]]["nilchecks"][1:]
    d = ctx.sub("selftest-nil")
    res = {}
    names = set()

    def collect(v):
        if isinstance(v, dict):
            for x in v.values():
                collect(x)
        elif isinstance(v, list):
            for x in v:
                collect(x)
        elif isinstance(v, str) and v:
            names.add(v)
    collect(rec)
    tb = {"fold": {n: n.lower() for n in names} or {"p": "p"}, "singular": {"tags": "tag"}, "lcamel": {"Inner": "inner"},
          "ucamel": {"dataquery": "Dataquery"}, "schemas": [S]}
    for name, r in (("good", rec), ("bad", bad)):
        t = os.path.join(d, name + ".ndjson")
        open(t, "w").write(json.dumps(r) + "\n")
        out, _f, _s, _c = run_growth_trace(ctx, t, tb, strict=True, allow_violation=True, timeout=300)
        res[name] = out["violated"]
    if res["good"] or not res["bad"]:
        raise core.Inconclusive("nil checks binding self-test failed: good rejected=%s bad rejected=%s" % (res["good"], res["bad"]))
    return "GrowthTrace(Strict) accepts a real GenerateBuilderNilChecks result and rejects it with one nil check removed"


def run(ctx):
    """Stand-alone entry (./vcheck NILCHECKS_PART): same verdict logic as when called from c09.py."""
    if ctx.replay:
        rp = json.load(open(ctx.replay))
        fails = [f for f in replay_part(ctx, rp["replay"]) if f[0] == rp["signature"]]
        cov = {"evaluations": 1, "distinct_nontrivial": 0}
        tlc = []
    else:
        part = run_part(ctx)
        fails, cov, tlc = part["fails"], part["coverage"], part["tlc"]
    known = {k["signature"] for k in core.load_known() if k.get("status", "known") == "known"}
    seen_known = set()
    for sig, what, replay, key in fails:
        if sig in known:
            seen_known.add(sig)
        else:
            ctx.fail(sig, what, replay, key)
    for sig in sorted(seen_known):
        print("KNOWN-FINDING: property=C09 [%s]" % sig)
    if tlc:
        cov.update({"states": sum(r["distinct"] for r in tlc), "transitions": sum(r["generated"] for r in tlc),
                    "traces_validated_against_impl": cov["nilchecks_records_accepted"], "exhaustive": True,
                    "evaluations": cov["nilchecks_records_judged_by_tlc"], "distinct_nontrivial": cov["nilchecks_records_judged_by_tlc"],
                    "rule": cov["nilchecks_rule"], "samples": cov["nilchecks_samples"] or [{"note": "none drawn"}]})
    return ctx.finish("model_checking", cov, ["nullability of a path item is the language's NullableConfig applied to the item's own type (references are not resolved)"])
