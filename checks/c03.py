"""C03 - determinism: the same pipeline, configuration, inputs and cog build give the same files and the same IR,
whatever iteration order the Go runtime picks for its maps.

spec:  Pipeline.tla (one run, every map-ranging stage draws a permutation), Pipeline2.tla (self-composition, 2-safety),
       Pipeline2MC.tla (bounded universe), PipelineTrace.tla (hyper-properties over the records of real runs)
real:  codegen.PipelineFromFile(..).Run() + the `cog inspect` views, built with the map-order scheduler overlay
       (harness/cmd/schedrewrite): every `range` over a map in cog asks the scheduler for the key order.
"""
import json
import os
import shutil

from vlib import core
from checks import pipeline_common as pc


def corpus(ctx, base, shapes):
    quick = ctx.quick()
    jobs = []
    feats = []
    for f in shapes["minimal"]:
        feats.append(dict(zip(pc.FEATURES, f)))
    if shapes["top"]:
        feats.append(dict(zip(pc.FEATURES, shapes["top"])))
    if not quick:
        # every pair of minimal shapes joined, and the types-only variants
        mins = shapes["minimal"]
        for i in range(len(mins)):
            for j in range(i + 1, len(mins)):
                feats.append(dict(zip(pc.FEATURES, [max(a, b) for a, b in zip(mins[i], mins[j])])))
    seen = set()
    for f in feats:
        k = json.dumps(f, sort_keys=True)
        if k in seen:
            continue
        seen.add(k)
        name = "shape-" + "-".join("%s%d" % (n[:3], f[n]) for n in pc.FEATURES if f.get(n)) or "shape-plain"
        jobs.append(pc.feature_entry(base, name, f))
        if not quick:
            jobs.append(pc.feature_entry(base, name + "-typesonly", f, flags={"builders": False, "converters": False, "api_reference": False}))
    jobs.append(pc.sink_entry(base))
    for name, make in sorted(pc.GROWTH_ENTRIES.items()):      # entries built to reach more map-ranging sites with >= 2 keys
        jobs.append(make(base))
    jobs += pc.testdata_entries(base, quick, ctx.seed)
    return jobs


def regenerate(ctx, base, entry):
    """Rebuild one corpus entry from the description stored in a replay file."""
    if entry.get("source") == "sink":
        return pc.sink_entry(base)
    if entry.get("source") in pc.GROWTH_ENTRIES:
        return pc.GROWTH_ENTRIES[entry["source"]](base)
    if entry.get("source"):
        for j in pc.testdata_entries(base, False, 0):
            if j["id"] == entry["id"]:
                return j
        raise core.Inconclusive("replay: corpus entry %s no longer exists in the repository" % entry["id"])
    return pc.feature_entry(base, entry["id"], entry["features"], flags=entry.get("flags"))


def replay(ctx):
    rp = json.load(open(ctx.replay))["replay"]
    info = pc.build_with_scheduler(ctx)
    if info["mode"] != "overlay":
        raise core.Inconclusive("replay needs the scheduler overlay: " + info["why"])
    base = ctx.sub("corpus")
    job = regenerate(ctx, base, rp["entry"])
    recs = []
    for s in (None, rp["sched"]):
        j = dict(job)
        if s:
            j["sched"] = s
        recs += pc.run_jobs(ctx, "pipe-run", [j], parallel=1)
    a, b = recs[0]["outcome"], recs[1]["outcome"]
    if a != b:
        cls = "ir" if a["ir"] != b["ir"] else "files"
        ctx.fail(rp.get("signature") or "C03/%s/%s" % (rp["site"], cls),
                 "replayed: schedule %s changes the outcome of %s" % (json.dumps(rp["sched"]), job["id"]), rp)
    return ctx.finish("model_checking", {"evaluations": 2, "distinct_nontrivial": 0}, [])


def soft(ctx, msg, observed=None):
    """A self-check of the machinery failed. Without any observed violation the run is inconclusive; once violations were
    observed they are reported (exit 1) and the failed self-check becomes a NOTE: exit 2 must never hide a detection."""
    if ctx.failures or observed:
        ctx.notes.append("self-check failed (violations are reported all the same): " + msg)
        return
    raise core.Inconclusive(msg)


def run(ctx):
    pc.java_tmp(ctx)
    if ctx.replay:
        return replay(ctx)
    quick = ctx.quick()
    info = pc.build_with_scheduler(ctx)

    # (A) design level
    req, _ = pc.tlc_requirement(ctx, ["same"])
    wit = pc.tlc_witnesses(ctx)
    if len(wit["minimal"]) == 0:
        raise core.Inconclusive("witness generator printed no order-sensitive shape")

    # (B) real inputs from the witness shapes, the repository's own schemas and example pipeline
    base = ctx.sub("corpus")
    jobs = corpus(ctx, base, wit)
    by_id = {j["id"]: j for j in jobs}
    cov = {"scheduler_mode": info["mode"], "sites_discovered": len(info["sites"]), "files_rewritten": info["files"],
           "uncontrolled_map_iterations": info["uncontrolled"], "corpus": [j["id"] for j in jobs],
           "witness_shapes_minimal": [dict(zip(pc.FEATURES, f)) for f in wit["minimal"]],
           "witness_lines": wit["witness_lines"]}
    records, inputs_table = [], {}
    findings = []
    hung = {}
    if info["mode"] == "overlay":
        args = ["-seed", str(ctx.seed), "-random", "2" if quick else "40", "-per-site", "3" if quick else "16",
                "-rot-cap", "3" if quick else "8"]
        out = pc.run_jobs(ctx, "c03-explore", jobs, args=args, parallel=14, timeout=2400)
        hung = {}
        for r in out:
            if r.get("kind") == "timeout":
                hung.setdefault(r["job"], r.get("sched"))
        totals = [r for r in out if r.get("kind") == "total"]
        summaries = [r for r in out if r.get("kind") == "job"]
        findings = [r for r in out if "site" in r]
        runs = sum(t["runs"] for t in totals)
        permuted = sum(t["permuted_occurrences"] for t in totals)
        sites_seen = {}
        for t in totals:
            for s, n in t["sites_seen"].items():
                sites_seen[s] = sites_seen.get(s, 0) + n
    else:
        # repetition fallback: N fresh processes per job, compare (probabilistic)
        n = 6 if quick else 30
        summaries, runs, permuted, sites_seen = [], 0, 0, {}
        for j in jobs:
            outs = {}
            for _ in range(n):
                r = pc.run_jobs(ctx, "pipe-run", [j], parallel=1)[0]
                runs += 1
                outs.setdefault(json.dumps(r["outcome"], sort_keys=True), 0)
                outs[json.dumps(r["outcome"], sort_keys=True)] += 1
            summaries.append({"job": j["id"], "err": "", "occurrences": 0, "permuted_occurrences": 0, "distinct_outcomes": len(outs),
                              "records": [{"nsched": c, "outcome": json.loads(o)} for o, c in outs.items()]})
            if len(outs) > 1:
                a, b = [json.loads(o) for o in list(outs)[:2]]
                findings.append({"job": j["id"], "site": "unscheduled", "class": "ir" if a["ir"] != b["ir"] else "files", "sched": None,
                                 "keys": "", "detail": {}, "mode": "repetition", "confirmed": True})

    # A run that did not return (per-run watchdog) ends the exploration of its entry. It is an OBSERVATION, not a reason to give up:
    # probe the entry under a few schedules in separate processes (canonical, language loop reversed, every site reversed, two
    # random ones) and compare the outcomes, "did not return" being one of them.
    hang_findings = []
    if info["mode"] == "overlay" and hung:
        os.environ["VERIF_RUN_TIMEOUT"] = os.environ.get("VERIF_HANG_PROBE_TIMEOUT", "25")
        all_sites = [s_["id"] for s_ in info["sites"]]
        probes = [("canonical", None), ("language-loop-reversed", {"reverse": [pc.LANGLOOP_SITE]}), ("every-site-reversed", {"reverse": all_sites}),
                  ("random-1", {"random": ctx.seed * 31 + 1}), ("random-2", {"random": ctx.seed * 31 + 2})]
        pjobs = []
        for jid in sorted(hung):
            for pname, sc in probes:
                j = dict(by_id[jid], id="%s|%s" % (jid, pname))
                if sc:
                    j["sched"] = sc
                pjobs.append(j)
        pres = {r["id"]: r for r in pc.run_jobs(ctx, "pipe-run", pjobs, parallel=len(pjobs), timeout=1200, max_timeouts=10 ** 6)}
        os.environ.pop("VERIF_RUN_TIMEOUT", None)
        for jid in sorted(hung):
            obs = {}
            for pname, sc in probes:
                r = pres.get("%s|%s" % (jid, pname))
                obs[pname] = "not-run" if r is None else ("did-not-return" if r.get("timeout") else json.dumps(r["outcome"], sort_keys=True))
            kinds = set(obs.values()) - {"not-run"}
            hangs = sorted(k for k, v in obs.items() if v == "did-not-return")
            if len(kinds) > 1:
                site = pc.LANGLOOP_SITE if obs["canonical"] != obs["language-loop-reversed"] else "several-sites"
                cls = "termination" if hangs else "files"
                what = "%s: the run returns under some schedules and not under others (did not return: %s)" % (jid, hangs) if hangs else \
                       "%s: schedules give different outcomes (one exploration run did not return)" % jid
            else:
                site, cls = "every-schedule", "termination"
                what = "%s: cog does not return under any of %d schedules (a corpus entry that terminates on the reference tree)" % (jid, len(probes))
            sched = dict(probes)[hangs[0]] if hangs else dict(probes)["language-loop-reversed"]
            hang_findings.append({"job": jid, "site": site, "class": cls, "sched": sched, "keys": "", "mode": "hang-probe", "confirmed": True,
                                  "detail": {"observed": {k: (v if len(v) < 40 else "returned") for k, v in obs.items()}, "first_difference": what}})
        findings += hang_findings
        runs += len(pjobs)

    failing_jobs = [s["job"] for s in summaries if s.get("err")]
    for s in summaries:
        j = by_id[s["job"]]
        inputs_table[j["id"]] = {"pkg": j["id"]}
        for rec in s["records"]:
            records.append(pc.run_record([j["id"]], "c03", j["langs"], rec["outcome"], rec["nsched"]))

    # (C) the records of the real runs against the hyper-properties (TLC, report mode)
    tr, fails = pc.validate_trace(ctx, records, inputs_table)
    tlc_bad_jobs = set()
    for f in fails:
        tlc_bad_jobs.add(records[f["l"] - 1]["inputs"][0])
        for pr in f["pairs"]:
            if "Deterministic" not in pr["violated"]:
                soft(ctx, "PipelineTrace reported %s on a determinism corpus" % pr["violated"], findings)
    go_bad_jobs = {s["job"] for s in summaries if s["distinct_outcomes"] > 1}
    if tlc_bad_jobs != go_bad_jobs:
        soft(ctx, "TLC and the worker disagree on which corpus entries are non-deterministic: %s vs %s"
                  % (sorted(tlc_bad_jobs), sorted(go_bad_jobs)), findings)
    found_jobs = {f["job"] for f in findings}
    cov["entries_with_a_run_that_did_not_return"] = sorted(hung) if info["mode"] == "overlay" else []
    if not go_bad_jobs <= found_jobs:
        soft(ctx, "non-deterministic entries without an attributed finding: %s" % sorted(go_bad_jobs - found_jobs), findings)

    # witness class of a finding: the input features (TLC's shape features) that every annotated corpus entry showing it
    # has in common - "the two case-equal default keys", "the colliding definition names" ... A defect that shows on entries
    # without any common feature is a different (any-input) class, also at a site that already has a known finding.
    def active(j):
        fs = {k for k, v in (j.get("features") or {}).items() if v}
        if len(j.get("pkgs") or []) >= 2:
            fs.add("pkgs")
        return fs
    groups = {}
    for f in findings:
        if not f.get("confirmed", True):
            soft(ctx, "difference at %s not reproducible (baseline unstable?)" % f["site"], [x for x in findings if x.get("confirmed", True)])
            continue
        groups.setdefault((f["site"], f["class"]), []).append(f)
    for (site, cls), fs in sorted(groups.items()):
        annotated = [by_id[f["job"]] for f in fs if by_id[f["job"]].get("source") in (None, "sink")]
        special = sorted({by_id[f["job"]]["source"] for f in fs if by_id[f["job"]].get("source") in pc.GROWTH_ENTRIES})
        if annotated:
            inter = set.intersection(*[active(j) for j in annotated])
            witness = "needs-" + "+".join(sorted(inter)) if inter else "any-input"
        elif special:
            witness = "corpus-" + "+".join(special)
        else:
            witness = "repository-schemas"
        sig = "C03/%s/%s/%s" % (site, cls, witness)
        for f in fs:
            j = by_id[f["job"]]
            what = "%s: schedule %s changes %s (keys %s); first difference: %s" % (
                f["job"], json.dumps(f["sched"])[:200], f["class"], f.get("keys") or "-", json.dumps(f["detail"].get("first_difference"))[:400])
            ctx.fail(sig, what, {"entry": {"id": j["id"], "features": j.get("features"), "flags": j.get("flags"), "source": j.get("source")},
                                 "site": f["site"], "sched": f["sched"], "signature": sig, "mode": f["mode"], "detail": f["detail"]})

    # binding self-test: one corrupted record must be rejected in Strict mode
    good = [r for r in records if not r["err"]][:2]
    if good:
        bad = json.loads(json.dumps(good[0]))
        lang = sorted(k for k in bad["files"] if k != "_")[0]
        bad["files"][lang] = "corrupted"
        _, _ = pc.validate_trace(ctx, [good[0]], inputs_table, strict=True)
        rbad, _ = pc.validate_trace(ctx, [good[0], bad], inputs_table, strict=True, allow_violation=True)
        if not rbad["violated"]:
            soft(ctx, "binding self-test: a corrupted record was accepted by PipelineTrace (Strict)")
        cov["binding_selftest"] = "PipelineTrace(Strict) accepts a genuine record and rejects its copy with one file hash changed"

    # vacuity
    nontrivial = sum(1 for s in summaries if s.get("permuted_occurrences", 0) > 0)
    if info["mode"] == "overlay" and permuted == 0:
        soft(ctx, "no dynamic map-range occurrence with two or more keys was permuted")
    dyn_sites = sorted(sites_seen)
    static_ids = {s["id"] for s in info["sites"]}
    cov.update({
        "states": sum(t["distinct"] for t in ctx.tlc_runs),
        "transitions": sum(t["generated"] for t in ctx.tlc_runs),
        "traces_validated_against_impl": len(records) - len(fails),
        "real_runs": runs, "evaluations": runs,
        "distinct_nontrivial": permuted if info["mode"] == "overlay" else len(jobs),
        "permuted_occurrences": permuted,
        "dynamic_sites_with_two_or_more_keys": len(dyn_sites), "dynamic_sites": sites_seen,
        "sites_never_reached_with_two_keys": sorted(static_ids - set(dyn_sites)),
        "corpus_entries": len(jobs), "corpus_entries_with_permutations": nontrivial, "corpus_entries_failing_in_every_schedule": failing_jobs,
        "exhaustive": False,
        "rule": "one evaluation = one real run (cog generate + cog inspect views) of one corpus entry under one map-order schedule; "
                "non-trivial = a dynamic occurrence of a range over a map with >= 2 keys that was permuted on its own (reversal, rotations, "
                "all permutations for <= 3 keys); repeated identical (site, key set) occurrences are sampled, then every site is reversed "
                "as a whole, then random full schedules (VERIF_SEED)",
        "samples": [{"entry": s["job"], "occurrences": s.get("occurrences"), "permuted": s.get("permuted_occurrences"),
                     "distinct_outcomes": s["distinct_outcomes"]} for s in summaries[:4]],
        "checker_cmd": "schedrewrite + go build -overlay; tlc Pipeline2MC (AsCoded={}: Deterministic; as coded: witness shapes); "
                       "worker c03-explore; tlc PipelineTrace",
    })
    if info["mode"] != "overlay":
        ctx.assumptions.append("scheduler overlay unavailable (%s): map orders sampled by repetition in fresh processes, not enumerated" % info["why"])
    return ctx.finish("model_checking", cov, [
        "map iteration inside external libraries (cue, kin-openapi, santhosh-tekuri/jsonschema, yaml.v3, codejen, goimports) is not scheduled",
        "canonical key order of the scheduler = keys sorted by printed form; every other order is a permutation of it",
        "runs that fail in both schedules are equal (no files either way); the error text is not compared",
    ])
