#!/usr/bin/python3
"""promote_seed.py <seed id> <detected_by text>: a pending seeded change is caught now -> seeded/<id>/"""
import json, os, shutil, sys
sid, det = sys.argv[1], sys.argv[2]
root = os.path.join(os.path.dirname(os.path.dirname(os.path.abspath(__file__))), "seeded")
src, dst = os.path.join(root, "_pending", sid), os.path.join(root, sid)
shutil.move(src, dst)
m = json.load(open(os.path.join(dst, "meta.json")))
m["detected_by"] = "missed when seeded; " + det
json.dump(m, open(os.path.join(dst, "meta.json"), "w"), indent=1)
print("promoted", sid)
