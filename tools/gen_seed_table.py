#!/usr/bin/python3
"""Prints the markdown table of seeded changes (seeded/*/meta.json) for DESIGN.md section 11.4."""
import json, os, glob
V = os.path.dirname(os.path.dirname(os.path.abspath(__file__)))
rows = []
for m in sorted(glob.glob(os.path.join(V, "seeded", "*", "meta.json"))):
    d = json.load(open(m))
    det = d.get("detected_by")
    if isinstance(det, dict):
        det = "; ".join("%s: %s" % (k, v) for k, v in det.items())
    first = d.get("first_attempt", "")
    missed = "MISSED first" if ("miss" in (det or "").lower() or first) else "caught at once"
    rows.append("| %s | %s | %s | %s |" % (d["id"], d["property"], missed, (det or "").replace("|", "\\|")[:260]))
print("| seeded change | property | first run | reported now as |")
print("|---|---|---|---|")
print("\n".join(rows))
pend = sorted(glob.glob(os.path.join(V, "seeded", "_pending", "*", "meta.json")))
print("\n%d seeded changes are reported; %d of them were missed on the first run and led to a stronger check." % (len(rows), sum(1 for r in rows if "| MISSED first |" in r)))
if pend:
    print("\nConfirmed but NOT yet reported (`seeded/_pending/`):\n")
    for m in pend:
        d = json.load(open(m))
        print("* `%s` (%s): %s - needs: %s" % (d["id"], d["property"], d["change"][:200], d.get("needs", "")[:160]))
