#!/bin/bash
# verify_seeds.sh <parallelism> [property filter regex]: re-runs every stored seeded change (confirmation + its property's quick check
# against a scratch worktree with the patch) on the current /repo and /verif; prints one SEED line each.
P=${1:-5}; F=${2:-.}
cd /verif
ls seeded | grep -v "^_pending$" | while read s; do
  [ -f seeded/$s/meta.json ] || continue
  pid=$(python3 -c "import json;print(json.load(open('seeded/$s/meta.json'))['property'])")
  echo "$pid" | grep -Eq "$F" || continue
  echo "$s $pid"
done | xargs -P "$P" -L 1 bash -c 'tools/try_seed.sh seeded/$0 $1 > /tmp/vs_$0.log 2>&1; tail -n 1 /tmp/vs_$0.log'
