#!/bin/bash
# confirm_seed.sh <scratch-worktree-of-repo> <patch.diff> <demo_test.go> <demo destination relative to repo root>
# Confirms a seeded change: compiles, existing suite passes with it, demo passes without and fails with it.
set -u
WT=$1; PATCH=$2; DEMO=$3; DEST=$4
export GOFLAGS=-mod=mod GOPROXY=off GOSUMDB=off GOTOOLCHAIN=local
cd "$WT" || exit 2
git checkout -q -- . ; git clean -fdq -e out >/dev/null 2>&1
PKG=./$(dirname "$DEST")
cp "$DEMO" "$DEST"
go test -count=1 "$PKG" >/tmp/confirm.$$.log 2>&1; A=$?
echo "demo without change: exit=$A (want 0)"
rm -f "$DEST"
git apply "$PATCH" || { echo "patch does not apply"; exit 2; }
go build ./... ; B=$?
echo "build with change: exit=$B (want 0)"
go test -count=1 ./... >/tmp/confirm.$$.suite 2>&1; C=$?
echo "suite with change: exit=$C (want 0)"; grep -v "^ok\|no test files" /tmp/confirm.$$.suite | head -5
cp "$DEMO" "$DEST"
go test -count=1 "$PKG" >/tmp/confirm.$$.log2 2>&1; D=$?
echo "demo with change: exit=$D (want non-zero)"
rm -f "$DEST"; git checkout -q -- .
rm -f /tmp/confirm.$$.*
[ $A -eq 0 ] && [ $B -eq 0 ] && [ $C -eq 0 ] && [ $D -ne 0 ] && echo CONFIRMED || echo NOT-CONFIRMED
