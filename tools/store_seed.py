#!/usr/bin/python3
"""store_seed.py <src dir (patch.diff, demo_test.go, README.md)> <seed id> <property> <caught|pending> <change text> <needs text> [detected_by text]
Stores a confirmed seeded change under seeded/<id>/ (caught) or seeded/_pending/<id>/ (not yet caught) with its meta.json."""
import json, os, shutil, sys
src, sid, prop, state, change, needs = sys.argv[1:7]
det = sys.argv[7] if len(sys.argv) > 7 else ""
root = os.path.join(os.path.dirname(os.path.dirname(os.path.abspath(__file__))), "seeded")
dst = os.path.join(root, sid) if state == "caught" else os.path.join(root, "_pending", sid)
os.makedirs(dst, exist_ok=True)
for f in ("patch.diff", "demo_test.go", "README.md"):
    shutil.copy(os.path.join(src, f), os.path.join(dst, f))
place = open(os.path.join(src, "demo_test.go")).readline().split("place at:")[-1].strip(" `\n")
meta = {"id": sid, "property": prop, "origin": "independent sub-agent (property text + scratch worktree only), round 2",
        "change": change, "needs": needs, "demo": "demo_test.go -> " + place,
        "confirmed": "tools/confirm_seed.sh CONFIRMED (demo passes without; go build ./... and go test ./... pass with the change; demo fails with it)",
        "detected_by": det if state == "caught" else "NOT YET: " + det,
        "ran": "tools/try_seed.sh (VERIF_REPO=<scratch worktree at HEAD with patch> ./vcheck %s --tier quick)" % prop}
json.dump(meta, open(os.path.join(dst, "meta.json"), "w"), indent=1)
print("stored", dst)
