#!/usr/bin/python3
"""Regenerates MANIFEST.json from tools/manifest_claims.json (claimed checks) and properties.jsonl."""
import json, os
V = os.path.dirname(os.path.dirname(os.path.abspath(__file__)))
props = [json.loads(l) for l in open(os.path.join(V, "properties.jsonl"))]
cl = json.load(open(os.path.join(V, "tools", "manifest_claims.json")))
claimed, na = cl["claimed"], cl["not_applicable"]
m = {"version": 1, "setup_cmd": "./setup.sh",
     "hooks": {"guard": "verif",
               "enable": "go build -tags verif of the harness worker against /repo (replace directive); facade extensions and the map-order scheduler are added with go build -overlay from files under /verif (nothing written to /repo)",
               "baseline_off_cmd": "cd /repo && GOFLAGS=-mod=mod go test -json -vet=off -count=1 -timeout 25m ./...",
               "source_commits": cl["hook_commits"], "add_only": True},
     "engines": [
         {"name": "tlc", "path": "spec/", "serves_properties": sorted(claimed), "kind_free_text": "TLA+ specifications checked with TLC (exhaustive, simulate, trace validation); Apalache for inductive invariants"},
         {"name": "worker", "path": "harness/", "serves_properties": sorted(claimed), "kind_free_text": "Go harness built with -tags verif against /repo; replays TLC behaviours on the real code and records traces of real steps"},
         {"name": "vcheck", "path": "vcheck", "serves_properties": sorted(claimed), "kind_free_text": "python orchestrator: build, TLC, replay, signatures, known findings, evidence"}],
     "checks": [], "notes": "see DESIGN.md; known findings and fixes in known_findings.json; seeded changes in seeded/", "not_applicable": []}
for p in props:
    i = p["id"]
    if i in claimed:
        c = claimed[i]
        m["checks"].append({"property_id": i, "quick_cmd": "./vcheck %s --tier quick" % i, "thorough_cmd": "./vcheck %s --tier thorough" % i,
                            "evidence_file": "evidence/%s.json" % i, "replay_cmd_template": "./vcheck %s --replay {path}" % i, "engine": "tlc+worker",
                            "level_claimed": {"category": c["level"], "text": c["text"], "design_ref": c["design_ref"]},
                            "level_note": c["note"], "technique": c["technique"]})
    else:
        m["not_applicable"].append({"property_id": i, "reason": na.get(i, "check not finished in this round (planned: DESIGN.md section 6); not claimed until its check runs clean on the unchanged tree")})
json.dump(m, open(os.path.join(V, "MANIFEST.json"), "w"), indent=1)
print("claimed:", sorted(claimed))
