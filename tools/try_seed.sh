#!/bin/bash
# try_seed.sh <dir with patch.diff + demo_test.go> <PID> [tier]
# Confirms a seeded change in a fresh scratch worktree of /repo (compiles, suite passes, demo fails with / passes without)
# and then runs the property's check against that worktree (VERIF_REPO), which leaves /repo and the evidence untouched.
# Prints one summary line:  SEED <dir> confirm=<CONFIRMED|NOT-CONFIRMED> check_exit=<n> violations=<n>
set -u
D=$(readlink -f "$1"); PID=$2; TIER=${3:-quick}
WT=$(mktemp -d /tmp/tryseed.XXXXXX); rmdir "$WT"
git -C /repo worktree add -q --detach "$WT" HEAD || exit 2
trap 'git -C /repo worktree remove --force "$WT" >/dev/null 2>&1; rm -rf "$WT"' EXIT
DEST=$(head -1 "$D/demo_test.go" | sed 's#.*place at: *##; s#[ `]*$##')
CONF=$(/verif/tools/confirm_seed.sh "$WT" "$D/patch.diff" "$D/demo_test.go" "$DEST" 2>&1)
echo "$CONF" | sed 's/^/    /'
C=$(echo "$CONF" | tail -1)
git -C "$WT" apply "$D/patch.diff" || exit 2
LOG=$(mktemp /tmp/tryseed.log.XXXXXX)
(cd /verif && VERIF_REPO="$WT" ./vcheck "$PID" --tier "$TIER" >"$LOG" 2>&1); RC=$?
NV=$(grep -c '^VIOLATION' "$LOG")
grep '^VIOLATION\|^INCONCLUSIVE' "$LOG" | head -5 | cut -c1-300 | sed 's/^/    /'
echo "SEED $D confirm=$C check_exit=$RC violations=$NV log=$LOG"
