#!/bin/bash
# try_pending.sh [parallelism]: runs every seeded/_pending/<id> against its property's quick check; prints one SEED line each.
P=${1:-4}
cd /verif
ls seeded/_pending | grep -v README | while read s; do
  pid=$(python3 -c "import json;print(json.load(open('seeded/_pending/$s/meta.json'))['property'])")
  echo "$s $pid"
done | xargs -P "$P" -L 1 bash -c 'tools/try_seed.sh seeded/_pending/$0 $1 > /tmp/pend_$0.log 2>&1; tail -n 1 /tmp/pend_$0.log'
