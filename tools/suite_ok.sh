#!/bin/bash
# suite_ok.sh <repo-worktree>: exit 0 iff `go build ./...` and the whole unedited test suite pass there.
cd "$1" || exit 2
export GOFLAGS=-mod=mod GOPROXY=off GOSUMDB=off GOTOOLCHAIN=local
go build ./... || exit 1
out=$(go test -count=1 ./... 2>&1); rc=$?
echo "$out" | grep -v "no test files" | grep -v "^ok" | head -20
exit $rc
