#!/usr/bin/python3
"""Maintenance aid: run every claimed check (quick under several seeds, optionally thorough) on /repo and report
exit codes, wall times and which known-finding signatures were observed (to spot stale entries)."""
import json, os, subprocess, sys, time
V = os.path.dirname(os.path.dirname(os.path.abspath(__file__)))
claims = json.load(open(os.path.join(V, "tools", "manifest_claims.json")))["claimed"]
tiers = sys.argv[1].split(",") if len(sys.argv) > 1 else ["quick"]
seeds = [int(x) for x in (sys.argv[2].split(",") if len(sys.argv) > 2 else ["1", "2", "3"])]
only = sys.argv[3].split(",") if len(sys.argv) > 3 else sorted(claims)
seen = {}
rows = []
for pid in only:
    for tier in tiers:
        for seed in (seeds if tier == "quick" else seeds[:1]):
            t = time.time()
            p = subprocess.run(["./vcheck", pid, "--tier", tier, "--seed", str(seed)], cwd=V, capture_output=True, text=True)
            wall = time.time() - t
            last = (p.stdout.strip().splitlines() or ["?"])[-1]
            rows.append((pid, tier, seed, p.returncode, round(wall), last[:100]))
            print(rows[-1], flush=True)
            try:
                ev = json.load(open(os.path.join(V, "evidence", pid + ".json")))
                if p.returncode == 0 and ev.get("tier") == tier and ev.get("seed") == seed and os.environ.get("SWEEP_KEEP"):
                    os.makedirs(os.environ["SWEEP_KEEP"], exist_ok=True)     # maintenance: keep a copy of what this very run wrote
                    json.dump(ev, open(os.path.join(os.environ["SWEEP_KEEP"], "%s_%s_%d.json" % (pid, tier, seed)), "w"), indent=1, sort_keys=True)
                for s in ev["coverage"].get("known_findings_seen", []):
                    seen.setdefault(pid, set()).add(s)
            except Exception as e:
                print("  no evidence:", e)
            if p.returncode != 0:
                open("/tmp/sweep_%s_%s_%d.log" % (pid, tier, seed), "w").write(p.stdout + p.stderr)
known = json.load(open(os.path.join(V, "known_findings.json")))["findings"]
print("\nknown entries never observed in this sweep:")
for f in known:
    if f.get("status", "known") == "known" and f["property"] in only and f["signature"] not in seen.get(f["property"], set()):
        print("  ", f["property"], f["signature"])
print("\nnon-zero exits:", [r for r in rows if r[3] != 0])
