#!/bin/sh
# Offline set-up: verifies the tools the checks need and warms the Go build
# cache by building the harness worker once against /repo, exactly as every check does
# (go build -tags verif, facade extensions overlaid from harness/facade_ext).
set -e
cd "$(dirname "$0")"
for t in go java timeout /usr/bin/python3; do command -v $t >/dev/null || { echo "missing tool: $t"; exit 1; }; done
test -f /opt/veriftools/tla/tla2tools.jar || { echo "missing tla2tools.jar"; exit 1; }
chmod +x vcheck
mkdir -p evidence replays
/usr/bin/python3 - <<'PY'
import sys
sys.path.insert(0, ".")
from vlib import core
ctx = core.Ctx("SETUP", "quick", 1)
try:
    ctx.build_worker()
except core.Inconclusive as e:
    print("setup failed:", e)
    sys.exit(1)
print("setup ok")
PY
