#!/bin/sh
# Offline set-up: verifies the tools the checks need and warms the Go build
# cache by building the harness worker once against /repo (rebuilt by every check).
set -e
cd "$(dirname "$0")"
export GOFLAGS=-mod=mod GOPROXY=off GOSUMDB=off GOTOOLCHAIN=local
for t in go java python3 timeout; do command -v $t >/dev/null || { echo "missing tool: $t"; exit 1; }; done
test -f /opt/veriftools/tla/tla2tools.jar || { echo "missing tla2tools.jar"; exit 1; }
chmod +x vcheck
T=$(mktemp -d)
trap 'rm -rf "$T"' EXIT
cp -r harness "$T/h"
cp /repo/go.sum "$T/h/go.sum"
(cd "$T/h" && go build -trimpath -tags verif -o "$T/worker" ./cmd/worker) || { echo "worker does not build"; exit 1; }
mkdir -p evidence replays
echo "setup ok"
