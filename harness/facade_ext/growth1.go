//go:build verif

package verifapi

// Facade extension for the specification growth items 2 and 3 (nil checks,
// converter IR): the types harness code must name.

import (
	"github.com/grafana/cog/internal/languages"
)

type (
	NullableKindsProvider = languages.NullableKindsProvider
	ConversionMapping     = languages.ConversionMapping
	OptionMapping         = languages.OptionMapping
	ArgumentMapping       = languages.ArgumentMapping
	MappingGuard          = languages.MappingGuard
	DirectArgMapping      = languages.DirectArgMapping
	BuilderArgMapping     = languages.BuilderArgMapping
)
