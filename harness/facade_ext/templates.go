//go:build verif

package verifapi

// Facade extension for growth item 7 (Templates.tla): the real template set of
// internal/jennies/template filled from an embedded file system and override
// directories, probed the way jennies probe it.

import (
	"fmt"
	"testing/fstest"

	"github.com/grafana/cog/internal/jennies/template"
)

type TemplateRender struct {
	Err bool   `json:"err"`
	Out string `json:"out"`
	Msg string `json:"msg,omitempty"`
}

type TemplateProbeResult struct {
	Failed bool                      `json:"failed"`
	Msg    string                    `json:"msg,omitempty"`
	Panic  string                    `json:"panic"`
	Render map[string]TemplateRender `json:"render"`
	Exists map[string]bool           `json:"exists"`
}

// TemplateProbe builds a template set from builtin (path below builtinRoot -> contents)
// and the override directories, then renders every query and asks whether it exists.
func TemplateProbe(builtin map[string]string, builtinRoot string, dirs []string, queries []string) (res TemplateProbeResult) {
	res.Render = map[string]TemplateRender{}
	res.Exists = map[string]bool{}
	defer func() {
		if r := recover(); r != nil {
			res.Panic = fmt.Sprint(r)
		}
	}()
	vfs := fstest.MapFS{}
	for p, c := range builtin {
		vfs[builtinRoot+"/"+p] = &fstest.MapFile{Data: []byte(c)}
	}
	opts := []template.Option{}
	if len(builtin) != 0 {
		opts = append(opts, template.ParseFS(vfs, builtinRoot))
	}
	opts = append(opts, template.ParseDirectories(dirs...))
	tmpl, err := template.New("probe", opts...)
	if err != nil {
		res.Failed = true
		res.Msg = err.Error()
		if len(res.Msg) > 300 {
			res.Msg = res.Msg[:300]
		}
		return res
	}
	for _, q := range queries {
		res.Exists[q] = tmpl.Exists(q)
		out, rerr := tmpl.Render(q, map[string]any{})
		r := TemplateRender{Err: rerr != nil, Out: out}
		if rerr != nil {
			r.Msg = rerr.Error()
			if len(r.Msg) > 200 {
				r.Msg = r.Msg[len(r.Msg)-200:]
			}
		}
		res.Render[q] = r
	}
	return res
}
