//go:build verif && !verifsched

package verifapi

// Stand-ins for the map-order scheduler controls, compiled when the worker is
// built WITHOUT the scheduler overlay (repetition fallback of C03/C07). With the
// overlay (build tag verifsched) the real ones come from ext_zz_sched.go.
type SchedOcc struct {
	Site string
	N    int
	Keys string
}

const SchedAvailable = false

func SchedReset()                     {}
func SchedSet(occurrence, code int)   {}
func SchedSetRandom(seed uint64)      {}
func SchedSetRandomSites(s []string)  {}
func SchedSetReverseSites(s []string) {}
func SchedLog() []SchedOcc            { return nil }
func SchedCalls() int                 { return 0 }
