//go:build verif

package verifapi

import "github.com/grafana/cog/internal/tools"

var UpperCamelCase = tools.UpperCamelCase
