//go:build verif

package verifapi

// Facade extension for C16/C17 (overlaid into /repo/verifapi at build time):
// the value types of veneers.Assignment, which harness code must name to
// build add_option / add_assignment rules directly.

import (
	"github.com/grafana/cog/internal/tools"
	"github.com/grafana/cog/internal/veneers"
)

// string helpers the option rules use to name what they produce (the trace
// specification receives them as lookup tables)
var (
	Singularize    = tools.Singularize
	LowerCamelCase = tools.LowerCamelCase
	UpperCamelCase = tools.UpperCamelCase
)

type (
	VeneerAssignmentValue    = veneers.AssignmentValue
	VeneerAssignmentEnvelope = veneers.AssignmentEnvelope
	VeneerEnvelopeFieldValue = veneers.EnvelopeFieldValue
)
