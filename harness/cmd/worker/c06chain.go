package main

// C06 chain model (spec/ChainModel*.tla): the ORDER of the built-in passes of
// every language is read from the code at check time.
//
//   chain-list            prints {"go":[{"name":"AnonymousStructsToNamed","args":{}}, ...], ...}
//                         from Language.CompilerPasses() of the seven languages
//   c06-summary -in trace -out file
//                         one compact line per record of a c06-run trace:
//                         key, error flag, number of objects per type kind (what MODEL-DRIFT compares)

import (
	"bufio"
	"encoding/json"
	"flag"
	"fmt"
	"os"
	"reflect"
	"strings"
)

func init() {
	commands["chain-list"] = chainList
	commands["c06-summary"] = c06Summary
}

func passName(p any) string {
	n := fmt.Sprintf("%T", p)
	n = strings.TrimLeft(n, "*")
	if i := strings.LastIndex(n, "."); i >= 0 {
		n = n[i+1:]
	}
	return n
}

// passArgs lists the exported configuration fields of a pass (InlineObjectsWithTypes.InlineTypes, ...).
func passArgs(p any) J {
	out := J{}
	v := reflect.ValueOf(p)
	for v.Kind() == reflect.Ptr && !v.IsNil() {
		v = v.Elem()
	}
	if v.Kind() != reflect.Struct {
		return out
	}
	for i := 0; i < v.NumField(); i++ {
		f := v.Type().Field(i)
		if !f.IsExported() {
			continue
		}
		fv := v.Field(i)
		switch fv.Kind() {
		case reflect.Slice:
			l := []any{}
			for k := 0; k < fv.Len(); k++ {
				l = append(l, fmt.Sprint(fv.Index(k).Interface()))
			}
			out[f.Name] = l
		default:
			out[f.Name] = fmt.Sprint(fv.Interface())
		}
	}
	return out
}

func chainList(_ []string) int {
	out := J{}
	langs := allLanguages()
	for _, lang := range langOrder {
		l := []any{}
		for _, p := range langs[lang]().CompilerPasses() {
			l = append(l, J{"name": passName(p), "args": passArgs(p)})
		}
		out[lang] = l
	}
	raw, _ := json.Marshal(out)
	fmt.Println(string(raw))
	return 0
}

func c06Summary(args []string) int {
	fs := flag.NewFlagSet("c06-summary", flag.ExitOnError)
	in := fs.String("in", "", "c06-run trace (ndjson)")
	out := fs.String("out", "", "summary (ndjson)")
	_ = fs.Parse(args)
	f, err := os.Open(*in)
	if err != nil {
		fmt.Fprintln(os.Stderr, err)
		return 2
	}
	defer f.Close()
	of, err := os.Create(*out)
	if err != nil {
		fmt.Fprintln(os.Stderr, err)
		return 2
	}
	defer of.Close()
	w := bufio.NewWriterSize(of, 1<<20)
	defer w.Flush()
	rd := bufio.NewReaderSize(f, 4<<20)
	n := 0
	for {
		line, rerr := rd.ReadBytes('\n')
		if len(line) > 1 {
			var rec J
			if err := json.Unmarshal(line, &rec); err != nil {
				fmt.Fprintln(os.Stderr, err)
				return 2
			}
			if jstr(rec["source"]) == "" { // records of the repository's own tests have no model counterpart
				kinds := map[string]int{}
				for _, s := range jlist(rec["post"]) {
					for _, o := range jlist(jmap(s)["objects"]) {
						kinds[jstr(jmap(jmap(o)["type"])["k"])]++
					}
				}
				shape := []string{}
				for _, x := range jlist(rec["shape"]) {
					shape = append(shape, jstr(x))
				}
				raw, _ := json.Marshal(J{"lang": rec["lang"], "shape": shape, "leaf": rec["leaf"], "pos": rec["pos"],
					"err": rec["err"], "kinds": kinds})
				w.Write(raw)
				w.WriteByte('\n')
				n++
			}
		}
		if rerr != nil {
			break
		}
	}
	fmt.Printf("{\"records\":%d}\n", n)
	return 0
}
