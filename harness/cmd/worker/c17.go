package main

// C17: replay of BuildersMC (Spec17) histories on the real veneers rewriter.
//
// Input: TLC output with one <<"S17", {S, B0}>> line (the schema set and the
// model's derived builders), <<"CASE17", {hist, post, err}>> lines (a history of
// rule instances and the MODEL's builders after it) and <<"MODELFAIL", ..>> lines.
//
// For every history h = r1..rn the real builders are derived with
// BuilderGenerator.FromAST(S) and rewritten by ONE rewrite.NewRewrite(..).ApplyTo
// call holding r1..rn (each rule under its language: common "all" first, then the
// language), built directly and through yaml.VeneersLoader from files in a temp dir.
// The step judged is (real state after r1..rn-1, rn, real state after r1..rn).
// A real step identical to the model's step inherits the verdict TLC gave the model
// step (ModelOK); every other step - and a thin sample of the identical ones - is
// written as a trace record for BuildersTrace.tla, which judges it.

import (
	"bufio"
	"bytes"
	"crypto/sha1"
	"encoding/hex"
	"encoding/json"
	"flag"
	"fmt"
	"os"
	"path/filepath"
	"regexp"
	"runtime/pprof"
	"sort"
	"strings"
	"sync"
	"time"

	"github.com/grafana/cog/verifapi"
)

func init() {
	commands["c17-replay"] = c17Replay
}

type case17 struct {
	Hist []any `json:"hist"`
	Post []any `json:"post"`
	Err  bool  `json:"err"`
}

type runResult struct {
	ok       bool   // a state was produced (no error, no panic)
	canon    string // canonical JSON text of the projected builders
	err      string
	panicked string
	mutated  bool // the builders handed to ApplyTo were modified
}

// state decodes the projected builders (only needed for records that are written out).
func (r *runResult) state() []any {
	var out []any
	_ = json.Unmarshal([]byte(r.canon), &out)
	return out
}

func hashOf(s string) string {
	h := sha1.Sum([]byte(s))
	return hex.EncodeToString(h[:])
}

func normJSON(v any) []any {
	raw, _ := json.Marshal(v)
	var out []any
	_ = json.Unmarshal(raw, &out)
	return out
}

var nonAlpha = regexp.MustCompile(`[^a-z]+`)

func panicClass(msg string) string {
	m := strings.ToLower(msg)
	m = regexp.MustCompile(`\[[^\]]*\]|\d+`).ReplaceAllString(m, "")
	m = strings.Trim(nonAlpha.ReplaceAllString(m, "-"), "-")
	if len(m) > 60 {
		m = m[:60]
	}
	return m
}

// runHistory derives the builders from S and applies the whole history in one ApplyTo.
func runHistory(S []any, hist []any, viaYAML bool, lang string, tmp string, checkMutation bool) (res runResult, yamlOK bool) {
	schemas, err := unprojSchemas(any(S))
	if err != nil {
		return runResult{err: "harness: " + err.Error()}, false
	}
	var builders []verifapi.Builder
	func() {
		defer func() {
			if r := recover(); r != nil {
				res.panicked = "FromAST: " + fmt.Sprint(r)
			}
		}()
		builders = (&verifapi.BuilderGenerator{}).FromAST(schemas)
	}()
	if res.panicked != "" {
		return res, false
	}
	before := ""
	if checkMutation {
		before = canonJ(projBuilders(builders))
	}
	var rw *verifapi.Rewriter
	if !viaYAML {
		rules := make([]verifapi.LanguageRules, 0, len(hist))
		for _, r := range hist {
			br, or, err := directRule(jmap(r))
			if err != nil {
				return runResult{err: "harness: " + err.Error()}, false
			}
			lr := verifapi.LanguageRules{Language: jstr(jmap(r)["lang"])}
			if br != nil {
				lr.BuilderRules = []verifapi.BuilderRule{br}
			} else {
				lr.OptionRules = []verifapi.OptionRule{*or}
			}
			rules = append(rules, lr)
		}
		rw = verifapi.NewRewrite(rules, verifapi.RewriteConfig{})
	} else {
		files := []string{}
		for i, r := range hist {
			y, ok := yamlRule(jmap(r))
			if !ok {
				return runResult{}, false
			}
			fn := filepath.Join(tmp, fmt.Sprintf("v%02d.yaml", i))
			if err := os.WriteFile(fn, []byte(y), 0o600); err != nil {
				return runResult{err: "harness: " + err.Error()}, false
			}
			files = append(files, fn)
		}
		rw, err = verifapi.NewVeneersLoader().RewriterFrom(files, verifapi.RewriteConfig{})
		if err != nil {
			return runResult{err: "yaml-load: " + err.Error()}, true
		}
	}
	var out []verifapi.Builder
	var aerr error
	func() {
		defer func() {
			if r := recover(); r != nil {
				res.panicked = fmt.Sprint(r)
			}
		}()
		out, aerr = rw.ApplyTo(schemas, builders, lang)
	}()
	res.mutated = checkMutation && canonJ(projBuilders(builders)) != before
	if res.panicked != "" {
		return res, true
	}
	if aerr != nil {
		res.err = aerr.Error()
		return res, true
	}
	res.canon = canonJ(projBuilders(out))
	res.ok = true
	return res, true
}

func ruleName(r J) string {
	if jstr(r["kind"]) == "b" {
		return "builder." + jstr(r["r"])
	}
	return "option." + jstr(r["r"])
}

// selectorClass tells how the rule's selector relates to the state it is applied to:
// exact (names spelled like a builder/option it selects), folded (selects only up to
// letter case), other (by_variant / generated_from_disjunction / every that select
// something), none (selects nothing).
func selectorClass(rule J, pre []any) string {
	sel := jmap(rule["sel"])
	k := jstr(sel["k"])
	in := func(n string, l []string, fold bool) bool {
		for _, x := range l {
			if x == n || (fold && strings.EqualFold(x, n)) {
				return true
			}
		}
		return false
	}
	res := "none"
	for _, b := range pre {
		bm := jmap(b)
		f := jmap(bm["for"])
		if jstr(rule["kind"]) == "b" {
			var name string
			switch k {
			case "by_object":
				name = jstr(f["selfname"])
			case "by_name":
				name = jstr(bm["name"])
			default:
				return "other"
			}
			if !strings.EqualFold(jstr(f["selfpkg"]), jstr(sel["pkg"])) {
				continue
			}
			if name == jstr(sel["name"]) {
				return "exact"
			}
			if strings.EqualFold(name, jstr(sel["name"])) {
				res = "folded"
			}
			continue
		}
		var owner, want string
		switch k {
		case "by_name":
			owner, want = jstr(f["name"]), jstr(sel["object"])
			if jstr(f["selfpkg"]) != jstr(sel["pkg"]) {
				continue
			}
		case "by_builder":
			owner, want = jstr(bm["name"]), jstr(sel["builder"])
			if jstr(bm["pkg"]) != jstr(sel["pkg"]) {
				continue
			}
		default:
			return "other"
		}
		if !strings.EqualFold(owner, want) {
			continue
		}
		for _, o := range jlist(bm["options"]) {
			on := jstr(jmap(o)["name"])
			if owner == want && in(on, jstrings(sel["options"]), false) {
				return "exact"
			}
			if in(on, jstrings(sel["options"]), true) {
				res = "folded"
			}
		}
	}
	return res
}

func collectAllStrings(v any, into map[string]bool) {
	switch x := v.(type) {
	case map[string]any:
		for _, c := range x {
			collectAllStrings(c, into)
		}
	case []any:
		for _, c := range x {
			collectAllStrings(c, into)
		}
	case string:
		if len(x) <= 40 {
			into[x] = true
		}
	}
}

func builderTables(names map[string]bool, schemas []any) J {
	fold, sing, lc := J{}, J{}, J{}
	for n := range names {
		if n == "" {
			continue
		}
		fold[n] = strings.ToLower(n)
		sing[n] = verifapi.Singularize(n)
		lc[n] = verifapi.LowerCamelCase(verifapi.UpperCamelCase(n))
	}
	fold["p"], sing["tags"], lc["Inner"] = "p", "tag", "inner"
	return J{"fold": fold, "singular": sing, "lcamel": lc, "schemas": schemas}
}

func c17Replay(args []string) int {
	fs := flag.NewFlagSet("c17-replay", flag.ExitOnError)
	in := fs.String("in", "", "TLC output file with S17 / CASE17 / MODELFAIL lines")
	traceOut := fs.String("trace", "", "trace file for BuildersTrace")
	tablesOut := fs.String("tables", "", "tables file for BuildersTrace")
	lang := fs.String("lang", "go", "the language the rewriter is applied for")
	sampleEvery := fs.Int("trace-match-every", 50, "also trace every n-th step that equals the model's")
	traceAll := fs.Bool("trace-all", false, "trace every step (replay mode)")
	par := fs.Int("par", 16, "parallel replayers")
	cpuprof := fs.String("cpuprofile", "", "write a CPU profile (diagnostics)")
	_ = fs.Parse(args)
	if *cpuprof != "" {
		pf, err := os.Create(*cpuprof)
		if err == nil {
			_ = pprof.StartCPUProfile(pf)
			defer pprof.StopCPUProfile()
		}
	}

	t0 := time.Now()
	f, err := os.Open(*in)
	if err != nil {
		fmt.Fprintln(os.Stderr, err)
		return 2
	}
	defer f.Close()
	rd := bufio.NewReaderSize(f, 8<<20)
	pCase, pS, pFail := []byte(`<<"CASE17", `), []byte(`<<"S17", `), []byte(`<<"MODELFAIL", `)
	var S []any
	var modelB0 []any
	type mcase struct {
		hist     []any
		postHash string
		err      bool
	}
	cases := []mcase{}
	modelPost := map[string]mcase{} // history key -> model result
	modelFail := map[string]bool{}
	for {
		line, rerr := rd.ReadBytes('\n')
		switch {
		case bytes.HasPrefix(line, pS):
			var s struct {
				S  []any `json:"S"`
				B0 []any `json:"B0"`
			}
			if err := taggedPayload(line, pS, &s); err != nil {
				fmt.Fprintln(os.Stderr, "bad S17 line:", err)
				return 2
			}
			S, modelB0 = s.S, s.B0
		case bytes.HasPrefix(line, pCase):
			var c case17
			if err := taggedPayload(line, pCase, &c); err != nil {
				fmt.Fprintln(os.Stderr, "bad CASE17 line:", err)
				return 2
			}
			m := mcase{hist: c.Hist, postHash: hashOf(canonJ(any(c.Post))), err: c.Err}
			hk := canonJ(any(c.Hist))
			if _, dup := modelPost[hk]; !dup { // simulation prints a history once per behaviour that reaches it
				cases = append(cases, m)
			}
			modelPost[hk] = m
		case bytes.HasPrefix(line, pFail):
			var c struct {
				Hist []any `json:"hist"`
			}
			if err := taggedPayload(line, pFail, &c); err != nil {
				fmt.Fprintln(os.Stderr, "bad MODELFAIL line:", err)
				return 2
			}
			modelFail[canonJ(any(c.Hist))] = true
		}
		if rerr != nil {
			break
		}
	}
	if os.Getenv("VERIF_TIMING") != "" {
		fmt.Fprintf(os.Stderr, "pass1 done %v\n", time.Since(t0))
	}
	if S == nil {
		fmt.Fprintln(os.Stderr, "no S17 line in input")
		return 2
	}
	tmpRoot, err := os.MkdirTemp("", "c17-yaml-")
	if err != nil {
		fmt.Fprintln(os.Stderr, err)
		return 2
	}
	defer os.RemoveAll(tmpRoot)

	// the derived state: real FromAST(S) against the model's Derive(S)
	schemas0, _ := unprojSchemas(any(S))
	realB0 := normJSON(projBuilders((&verifapi.BuilderGenerator{}).FromAST(schemas0)))
	b0Agrees := canonJ(any(realB0)) == canonJ(any(modelB0))

	modelB0Hash := hashOf(canonJ(any(modelB0)))
	var mu sync.Mutex
	cache := map[string]*runResult{} // direct-route results per history
	cacheY := map[string]*runResult{}
	getRun := func(hist []any, viaYAML bool, tmp string) (*runResult, bool) {
		key := canonJ(any(hist))
		mu.Lock()
		c := cache
		if viaYAML {
			c = cacheY
		}
		if r, ok := c[key]; ok {
			mu.Unlock()
			return r, r != nil
		}
		mu.Unlock()
		var r *runResult
		if len(hist) == 0 {
			r = &runResult{ok: true, canon: canonJ(any(realB0))}
		} else {
			res, ok := runHistory(S, hist, viaYAML, *lang, tmp, !viaYAML && len(hist) == 1)
			if ok || !viaYAML {
				r = &res
			}
		}
		mu.Lock()
		c[key] = r
		mu.Unlock()
		return r, r != nil
	}

	var tw *bufio.Writer
	if *traceOut != "" {
		tf, err := os.Create(*traceOut)
		if err != nil {
			fmt.Fprintln(os.Stderr, err)
			return 2
		}
		defer tf.Close()
		tw = bufio.NewWriterSize(tf, 1<<20)
		defer tw.Flush()
	}
	names := map[string]bool{}
	collectAllStrings(any(S), names)
	steps, matched, traced, yamlRuns, yamlAgree, rejected := 0, 0, 0, 0, 0, 0
	perRule, perRuleNT, perRuleDrift, perLen := map[string]int{}, map[string]int{}, map[string]int{}, map[string]int{}
	perSelClass := map[string]int{}
	perRuleDrift1 := map[string]int{} // one-rule histories: the real rule deviates from its documented effect
	other := map[string]int{}
	otherEx := map[string]any{}
	seen := map[string]bool{}
	harnessErr := ""
	var samples []any
	observe := func(sig string, ex any) { // mu held
		other[sig]++
		if _, ok := otherEx[sig]; !ok {
			otherEx[sig] = ex
		}
	}
	writeRec := func(rec J) { // mu held
		key := hashOf(canonJ(rec["pre"]) + canonJ(rec["rule"]) + canonJ(rec["post"]) + fmt.Sprint(rec["err"]))
		if seen[key] {
			return
		}
		seen[key] = true
		if tw == nil {
			return
		}
		raw, _ := json.Marshal(rec)
		tw.Write(raw)
		tw.WriteByte('\n')
		traced++
		collectAllStrings(rec["pre"], names)
		collectAllStrings(rec["post"], names)
		collectAllStrings(rec["rule"], names)
	}

	type job struct {
		n int
		c mcase
	}
	jobs := make(chan job, 64)
	var wg sync.WaitGroup
	process := func(jb job, tmp string) {
		hist := jb.c.hist
		n := len(hist)
		rule := jmap(hist[n-1])
		rn := ruleName(rule)
		key := canonJ(any(hist))
		preKey := canonJ(any(hist[:n-1]))
		for _, viaYAML := range []bool{false, true} {
			route := "direct"
			if viaYAML {
				route = "yaml"
			}
			post, ok := getRun(hist, viaYAML, tmp)
			if !ok {
				continue // the YAML grammar cannot express this history
			}
			pre, okp := getRun(hist[:n-1], viaYAML, tmp)
			if !okp {
				continue
			}
			if strings.HasPrefix(post.err, "harness") || strings.HasPrefix(pre.err, "harness") {
				mu.Lock()
				harnessErr = post.err + pre.err
				mu.Unlock()
				return
			}
			selClass := ""
			if !viaYAML && pre.ok {
				selClass = selectorClass(rule, pre.state())
			}
			var direct *runResult
			if viaYAML {
				direct, _ = getRun(hist, false, tmp)
			}
			mu.Lock()
			if viaYAML {
				yamlRuns++
			} else {
				steps++
				perRule[rn]++
				perLen[fmt.Sprint(n)]++
			}
			if post.mutated {
				observe("C18/Rewriter.ApplyTo/input-builders-modified/"+rn, J{"hist": hist})
			}
			if post.panicked != "" {
				observe("C04/veneers."+rn+"/panic/"+panicClass(post.panicked), J{"hist": hist, "panic": post.panicked, "route": route})
				mu.Unlock()
				continue
			}
			if !pre.ok {
				// the prefix was rejected or panicked: there is no state to step from
				mu.Unlock()
				continue
			}
			if strings.HasPrefix(post.err, "yaml-load") {
				observe("C20/VeneersLoader/rejects-generated-rule/"+rn, J{"hist": hist, "error": post.err})
				mu.Unlock()
				continue
			}
			isErr := post.err != ""
			if viaYAML {
				d := direct
				if d != nil && d.canon == post.canon && (d.err != "") == isErr {
					yamlAgree++
					mu.Unlock()
					continue // the same real step as the direct route: already judged
				}
				observe("C20/VeneersLoader/differs-from-direct-rule/"+rn, J{"hist": hist})
			}
			if isErr {
				rejected++
			} else if !viaYAML && post.canon != pre.canon {
				perRuleNT[rn]++
			}
			if !viaYAML {
				perSelClass[selClass]++
			}
			mp, haveModel := modelPost[key]
			mpre, havePre := modelPost[preKey]
			modelPreHash := modelB0Hash
			if n > 1 && havePre {
				modelPreHash = mpre.postHash
			}
			same := haveModel && (n == 1 || havePre) && !modelFail[key] && mp.err == isErr &&
				(isErr || (hashOf(post.canon) == mp.postHash && hashOf(pre.canon) == modelPreHash))
			if !same && !viaYAML && haveModel {
				perRuleDrift[rn]++
				if n == 1 && !modelFail[key] {
					perRuleDrift1[rn]++
				}
			}
			write := *traceAll || !same
			if same {
				matched++
				if !viaYAML && jb.n%*sampleEvery == 0 {
					write = true
				}
				if len(samples) < 3 && post.canon != pre.canon && jb.n%37 == 0 {
					samples = append(samples, J{"hist": hist, "pre": pre.state(), "post": post.state()})
				}
			}
			if write {
				ps := []any{}
				if post.ok {
					ps = post.state()
				}
				writeRec(J{"kind": "step", "s": 1, "pre": pre.state(), "rule": rule, "post": ps, "err": isErr, "hist": hist,
					"route": route, "same_as_model": same, "error": post.err})
			}
			mu.Unlock()
		}
	}
	for i := 0; i < *par; i++ {
		wg.Add(1)
		tmp := filepath.Join(tmpRoot, fmt.Sprintf("w%02d", i))
		_ = os.MkdirAll(tmp, 0o700)
		go func() {
			defer wg.Done()
			for jb := range jobs {
				process(jb, tmp)
			}
		}()
	}
	// shorter histories first: their results are the pre-states of the longer ones
	sort.SliceStable(cases, func(i, j int) bool { return len(cases[i].hist) < len(cases[j].hist) })
	for i, c := range cases {
		jobs <- job{i + 1, c}
	}
	close(jobs)
	wg.Wait()
	if os.Getenv("VERIF_TIMING") != "" {
		fmt.Fprintf(os.Stderr, "pass2 done %v\n", time.Since(t0))
	}
	if tw != nil {
		tw.Flush()
	}
	if harnessErr != "" {
		fmt.Fprintln(os.Stderr, harnessErr)
		return 2
	}
	if *tablesOut != "" {
		raw, _ := json.Marshal(builderTables(names, []any{S}))
		if err := os.WriteFile(*tablesOut, raw, 0o600); err != nil {
			fmt.Fprintln(os.Stderr, err)
			return 2
		}
	}
	out, _ := json.Marshal(J{"cases": len(cases), "steps": steps, "matched_model": matched, "traced": traced, "rejected_by_rewriter": rejected,
		"yaml_runs": yamlRuns, "yaml_agree_with_direct": yamlAgree, "per_rule": perRule, "per_rule_nontrivial": perRuleNT,
		"per_rule_model_drift": perRuleDrift, "per_rule_model_drift_one_rule": perRuleDrift1, "per_history_length": perLen, "per_selector_class": perSelClass, "derived_equals_model": b0Agrees,
		"observations_for_other_properties": other, "observation_examples": otherEx, "samples": samples, "S": S})
	os.Stdout.Write(out)
	os.Stdout.WriteString("\n")
	return 0
}
