package main

// Growth item 7: the real template set (internal/jennies/template) on TLC's histories.
//
// Input: TLC output of TemplatesMC with <<"CASE", {files, expect}>> lines. Every history is
// materialised - source 0 as an in-memory file system below "templates", source k >= 1 as a
// directory on disk whose spelling (absolute, relative, trailing slash, ./) is chosen by -spelling -
// and the real set is built (template.New + ParseFS + ParseDirectories), every query rendered and
// looked up. Output: one trace record {files, got} per case for TemplatesTrace.tla; a summary on
// stdout. A render that does not return within -watchdog seconds is recorded as hang.

import (
	"bufio"
	"encoding/json"
	"flag"
	"fmt"
	"os"
	"path/filepath"
	"sort"
	"strings"
	"sync"
	"time"

	"github.com/grafana/cog/verifapi"
)

func init() {
	commands["templates-replay"] = templatesReplay
}

type tplItem struct {
	K string `json:"k"`
	V string `json:"v"`
}
type tplDef struct {
	Name string    `json:"name"`
	Body []tplItem `json:"body"`
}
type tplFile struct {
	Src  int       `json:"src"`
	Name string    `json:"name"`
	Body []tplItem `json:"body"`
	Defs []tplDef  `json:"defs"`
}
type tplCase struct {
	Files  []tplFile       `json:"files"`
	Expect json.RawMessage `json:"expect"`
}

func tplBodyText(items []tplItem) string {
	var b strings.Builder
	for _, it := range items {
		switch it.K {
		case "lit":
			b.WriteString(it.V)
		case "ws":
			b.WriteString(" ")
		case "inc":
			fmt.Fprintf(&b, "{{ include %q . }}", it.V)
		case "incif":
			fmt.Fprintf(&b, "{{ includeIfExists %q . }}", it.V)
		case "tmpl":
			fmt.Fprintf(&b, "{{ template %q . }}", it.V)
		}
	}
	return b.String()
}

func tplFileText(f tplFile) string {
	var b strings.Builder
	// definitions are read before the file's own tree is added, wherever they stand: written first here
	for _, d := range f.Defs {
		fmt.Fprintf(&b, "{{ define %q }}%s{{ end }}", d.Name, tplBodyText(d.Body))
	}
	b.WriteString(tplBodyText(f.Body))
	return b.String()
}

func templatesReplay(args []string) int {
	fs := flag.NewFlagSet("templates-replay", flag.ExitOnError)
	in := fs.String("in", "", "TLC output with CASE lines")
	trace := fs.String("trace", "", "trace records (ndjson) for TemplatesTrace")
	work := fs.String("work", "", "scratch directory for override directories")
	spelling := fs.String("spelling", "mixed", "abs | abs/ | rel | rel/ | dot | mixed (first four by case index)")
	slice := fs.Int("slice", 0, "keep cases with index % of == slice")
	of := fs.Int("of", 1, "number of slices")
	watchdog := fs.Int("watchdog", 30, "seconds before a probe counts as a hang")
	par := fs.Int("par", 8, "parallel probes")
	progress := fs.String("progress", "", "with -par 1: file that holds the files of the case being probed (a fatal error kills the process)")
	_ = fs.Parse(args)

	f, err := os.Open(*in)
	if err != nil {
		fmt.Fprintln(os.Stderr, err)
		return 2
	}
	defer f.Close()
	sc := bufio.NewScanner(f)
	sc.Buffer(make([]byte, 1<<20), 1<<28)
	var cases []tplCase
	seen := map[string]bool{} // -simulate evaluates the invariant on every successor: the same history is printed many times
	idx := 0
	for sc.Scan() {
		line := sc.Text()
		if !strings.HasPrefix(line, "<<\"CASE\", ") {
			continue
		}
		if seen[line] {
			continue
		}
		seen[line] = true
		idx++
		if idx%*of != *slice {
			continue
		}
		body := strings.TrimSuffix(strings.TrimPrefix(line, "<<\"CASE\", "), ">>")
		var s string
		if err := json.Unmarshal([]byte(body), &s); err != nil {
			fmt.Fprintln(os.Stderr, "bad CASE line:", err)
			return 2
		}
		var c tplCase
		if err := json.Unmarshal([]byte(s), &c); err != nil {
			fmt.Fprintln(os.Stderr, "bad CASE json:", err)
			return 2
		}
		cases = append(cases, c)
	}
	if abs, aerr := filepath.Abs(*trace); aerr == nil {
		*trace = abs
	}
	if *progress != "" {
		if abs, aerr := filepath.Abs(*progress); aerr == nil {
			*progress = abs
		}
	}
	if abs, aerr := filepath.Abs(*work); aerr == nil {
		*work = abs
	}
	if err := os.MkdirAll(*work, 0o755); err != nil {
		fmt.Fprintln(os.Stderr, err)
		return 2
	}
	if err := os.Chdir(*work); err != nil { // relative spellings are relative to the scratch directory
		fmt.Fprintln(os.Stderr, err)
		return 2
	}
	queries := []string{"a", "b", "c", "d/x", "zz"}
	spellings := []string{"abs", "abs/", "rel", "rel/"}
	type outRec struct {
		Files    []tplFile                    `json:"files"`
		Spelling string                       `json:"spelling"`
		Got      verifapi.TemplateProbeResult `json:"got"`
		Hang     bool                         `json:"hang"`
	}
	recs := make([]outRec, len(cases))
	var wg sync.WaitGroup
	sem := make(chan struct{}, *par)
	for i := range cases {
		wg.Add(1)
		sem <- struct{}{}
		go func(i int) {
			defer wg.Done()
			defer func() { <-sem }()
			c := cases[i]
			sp := *spelling
			if sp == "mixed" {
				sp = spellings[i%len(spellings)]
			}
			builtin := map[string]string{}
			dirs := map[int]string{}
			maxSrc := 0
			for _, fl := range c.Files {
				if fl.Src > maxSrc {
					maxSrc = fl.Src
				}
				if fl.Src == 0 {
					builtin[fl.Name] = tplFileText(fl)
					continue
				}
				rel := fmt.Sprintf("case%d/src%d", i, fl.Src)
				dirs[fl.Src] = rel
				p := filepath.Join(rel, filepath.FromSlash(fl.Name))
				_ = os.MkdirAll(filepath.Dir(p), 0o755)
				_ = os.WriteFile(p, []byte(tplFileText(fl)), 0o644)
			}
			var roots []string
			for s := 1; s <= maxSrc; s++ {
				rel, ok := dirs[s]
				if !ok {
					continue // a source without files is not configured at all
				}
				switch sp {
				case "abs":
					roots = append(roots, filepath.Join(*work, rel))
				case "abs/":
					roots = append(roots, filepath.Join(*work, rel)+"/")
				case "rel":
					roots = append(roots, rel)
				case "rel/":
					roots = append(roots, rel+"/")
				case "dot":
					roots = append(roots, "./"+rel)
				}
			}
			if *progress != "" {
				pj, _ := json.Marshal(map[string]any{"files": c.Files, "spelling": sp})
				_ = os.WriteFile(*progress, pj, 0o644)
			}
			done := make(chan verifapi.TemplateProbeResult, 1)
			go func() { done <- verifapi.TemplateProbe(builtin, "templates", roots, queries) }()
			select {
			case r := <-done:
				recs[i] = outRec{Files: c.Files, Spelling: sp, Got: r}
			case <-time.After(time.Duration(*watchdog) * time.Second):
				recs[i] = outRec{Files: c.Files, Spelling: sp, Hang: true,
					Got: verifapi.TemplateProbeResult{Render: map[string]verifapi.TemplateRender{}, Exists: map[string]bool{}}}
			}
			_ = os.RemoveAll(fmt.Sprintf("case%d", i))
		}(i)
	}
	wg.Wait()
	tf, err := os.Create(*trace)
	if err != nil {
		fmt.Fprintln(os.Stderr, err)
		return 2
	}
	w := bufio.NewWriter(tf)
	enc := json.NewEncoder(w)
	enc.SetEscapeHTML(false)
	sum := map[string]int{"cases": len(recs)}
	for _, r := range recs {
		// uniform records for TLC: every query present in both maps
		for _, q := range queries {
			if _, ok := r.Got.Render[q]; !ok {
				r.Got.Render[q] = verifapi.TemplateRender{Err: true}
			}
			if _, ok := r.Got.Exists[q]; !ok {
				r.Got.Exists[q] = false
			}
			rr := r.Got.Render[q]
			rr.Msg = ""
			r.Got.Render[q] = rr
		}
		if r.Hang {
			sum["hang"]++
		}
		if r.Got.Panic != "" {
			sum["panic"]++
		}
		if r.Got.Failed {
			sum["set_failed"]++
		}
		_ = enc.Encode(r)
	}
	_ = w.Flush()
	_ = tf.Close()
	keys := make([]string, 0, len(sum))
	for k := range sum {
		keys = append(keys, k)
	}
	sort.Strings(keys)
	out, _ := json.Marshal(sum)
	fmt.Println(string(out))
	return 0
}
