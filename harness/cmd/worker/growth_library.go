package main

// C15, library route: the public package (github.com/grafana/cog) on TLC's ways of giving
// transformations to SchemaTransformations().
//
// Input: TLC output of LibraryMC with <<"CASE", {hist, groups, expect}>> lines. Every case runs
//   cog.TypesFromSchema().CUEValue("lib", v).SchemaTransformations(group 1...)...SchemaTransformations(group n...).Golang(cfg).Run()
// on the fixed CUE source given with -cue, with cog.PrefixObjectsNames / cog.AppendCommentToObjects as the
// transformations; the generated Go files are parsed and every declared type is recorded with its doc comment
// lines. Output: one trace record {hist, groups, got} per case for LibraryTrace.tla.

import (
	"bufio"
	"context"
	"encoding/json"
	"flag"
	"fmt"
	"go/ast"
	"go/parser"
	"go/token"
	"os"
	"sort"
	"strings"

	"cuelang.org/go/cue/cuecontext"
	"github.com/grafana/cog"
)

func init() {
	commands["library-replay"] = libraryReplay
}

type libObject struct {
	Name     string   `json:"name"`
	Comments []string `json:"comments"`
}

type libGot struct {
	Failed  bool        `json:"failed"`
	Msg     string      `json:"msg"`
	Objects []libObject `json:"objects"`
}

// libPasses builds the arguments of one SchemaTransformations() call; the pass type is internal to cog and only inferred here.
func libPasses[T any](prefix func(string) T, comment func(string) T, acts []map[string]any) ([]T, bool) {
	out := make([]T, 0, len(acts))
	for _, act := range acts {
		switch act["a"] {
		case "prefix_objects_names":
			out = append(out, prefix(jstr(act["prefix"])))
		case "append_comment_objects":
			out = append(out, comment(jstr(act["comment"])))
		default:
			return nil, false
		}
	}
	return out, true
}

func libraryRun(cueSrc string, hist []map[string]any, groups []int) (got libGot) {
	got.Objects = []libObject{}
	defer func() {
		if r := recover(); r != nil {
			got.Failed, got.Msg = true, "panic: "+fmt.Sprint(r)
		}
	}()
	value := cuecontext.New().CompileString(cueSrc)
	if value.Err() != nil {
		got.Failed, got.Msg = true, "harness: cue: "+value.Err().Error()
		return got
	}
	pipeline := cog.TypesFromSchema().CUEValue("lib", value)
	next := 0
	for _, n := range groups {
		passes, ok := libPasses(cog.PrefixObjectsNames, cog.AppendCommentToObjects, hist[next:next+n])
		next += n
		if !ok {
			got.Failed, got.Msg = true, "harness: unknown transformation"
			return got
		}
		pipeline = pipeline.SchemaTransformations(passes...)
	}
	files, err := pipeline.Golang(cog.GoConfig{}).Run(context.Background())
	if err != nil {
		got.Failed, got.Msg = true, err.Error()
		return got
	}
	fset := token.NewFileSet()
	for _, f := range files {
		if !strings.HasSuffix(f.RelativePath, ".go") {
			continue
		}
		parsed, perr := parser.ParseFile(fset, f.RelativePath, f.Data, parser.ParseComments)
		if perr != nil {
			got.Failed, got.Msg = true, "generated Go does not parse: "+perr.Error()
			return got
		}
		for _, d := range parsed.Decls {
			gd, ok := d.(*ast.GenDecl)
			if !ok || gd.Tok != token.TYPE {
				continue
			}
			for _, s := range gd.Specs {
				ts := s.(*ast.TypeSpec)
				doc := ts.Doc
				if doc == nil {
					doc = gd.Doc
				}
				lines := []string{}
				if doc != nil {
					for _, c := range doc.List {
						lines = append(lines, strings.TrimPrefix(strings.TrimPrefix(c.Text, "//"), " "))
					}
				}
				got.Objects = append(got.Objects, libObject{Name: ts.Name.Name, Comments: lines})
			}
		}
	}
	sort.Slice(got.Objects, func(i, j int) bool { return got.Objects[i].Name < got.Objects[j].Name })
	return got
}

func libraryReplay(args []string) int {
	fs := flag.NewFlagSet("library-replay", flag.ExitOnError)
	in := fs.String("in", "", "TLC output with CASE lines")
	trace := fs.String("trace", "", "trace records (ndjson) for LibraryTrace")
	cueFile := fs.String("cue", "", "the CUE source every case starts from")
	_ = fs.Parse(args)
	src, err := os.ReadFile(*cueFile)
	if err != nil {
		fmt.Fprintln(os.Stderr, err)
		return 2
	}
	f, err := os.Open(*in)
	if err != nil {
		fmt.Fprintln(os.Stderr, err)
		return 2
	}
	defer f.Close()
	tf, err := os.Create(*trace)
	if err != nil {
		fmt.Fprintln(os.Stderr, err)
		return 2
	}
	w := bufio.NewWriter(tf)
	enc := json.NewEncoder(w)
	enc.SetEscapeHTML(false)
	sc := bufio.NewScanner(f)
	sc.Buffer(make([]byte, 1<<20), 1<<28)
	n, failed := 0, 0
	for sc.Scan() {
		line := sc.Text()
		if !strings.HasPrefix(line, "<<\"CASE\", ") {
			continue
		}
		var s string
		if err := json.Unmarshal([]byte(strings.TrimSuffix(strings.TrimPrefix(line, "<<\"CASE\", "), ">>")), &s); err != nil {
			fmt.Fprintln(os.Stderr, "bad CASE line:", err)
			return 2
		}
		var c struct {
			Hist   []map[string]any `json:"hist"`
			Groups []int            `json:"groups"`
		}
		if err := json.Unmarshal([]byte(s), &c); err != nil {
			fmt.Fprintln(os.Stderr, "bad CASE json:", err)
			return 2
		}
		got := libraryRun(string(src), c.Hist, c.Groups)
		if got.Failed {
			failed++
		}
		n++
		_ = enc.Encode(map[string]any{"hist": c.Hist, "groups": c.Groups, "got": got})
	}
	_ = w.Flush()
	_ = tf.Close()
	fmt.Printf("{\"cases\":%d,\"failed\":%d}\n", n, failed)
	return 0
}
