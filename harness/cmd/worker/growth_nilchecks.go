package main

// Growth item 2: the real languages.GenerateBuilderNilChecks on real builder states.
//
// Input: TLC output of NilChecksMC with one <<"SN", {S, B0, cfg}>> line and
// <<"CASEN", {hist, post, err}>> lines. For every history the builders are derived
// with the real BuilderGenerator.FromAST and rewritten by the real Rewriter.ApplyTo;
// then, for each of the seven languages, GenerateBuilderNilChecks runs on a fresh
// copy of that state. Every distinct (language, builder) pair is written as a trace
// record {kind:"nilchecks", lang, cfg, pre, post, hist} judged by GrowthTrace.tla.

import (
	"bufio"
	"bytes"
	"encoding/json"
	"flag"
	"fmt"
	"os"
	"sort"

	"github.com/grafana/cog/verifapi"
)

func init() {
	commands["nilchecks-replay"] = nilchecksReplay
}

// applyHistory: FromAST(S) rewritten by one ApplyTo holding the history (direct rules).
func applyHistory(S []any, hist []any, lang string) (verifapi.Schemas, []verifapi.Builder, string, string) {
	schemas, err := unprojSchemas(any(S))
	if err != nil {
		return nil, nil, "harness: " + err.Error(), ""
	}
	var builders []verifapi.Builder
	panicked := ""
	func() {
		defer func() {
			if r := recover(); r != nil {
				panicked = fmt.Sprint(r)
			}
		}()
		builders = (&verifapi.BuilderGenerator{}).FromAST(schemas)
		rules := make([]verifapi.LanguageRules, 0, len(hist))
		for _, r := range hist {
			br, or, rerr := directRule(jmap(r))
			if rerr != nil {
				err = rerr
				return
			}
			lr := verifapi.LanguageRules{Language: jstr(jmap(r)["lang"])}
			if br != nil {
				lr.BuilderRules = []verifapi.BuilderRule{br}
			} else {
				lr.OptionRules = []verifapi.OptionRule{*or}
			}
			rules = append(rules, lr)
		}
		builders, err = verifapi.NewRewrite(rules, verifapi.RewriteConfig{}).ApplyTo(schemas, builders, lang)
	}()
	if panicked != "" {
		return nil, nil, "", panicked
	}
	if err != nil {
		return nil, nil, err.Error(), ""
	}
	return schemas, builders, "", ""
}

func nullableConfigOf(l verifapi.Language) J {
	cfg := verifapi.NullableConfig{AnyIsNullable: true}
	if p, ok := l.(verifapi.NullableKindsProvider); ok {
		cfg = p.NullableKinds()
	}
	kinds := []string{}
	for _, k := range cfg.Kinds {
		kinds = append(kinds, string(k))
	}
	sort.Strings(kinds)
	ks := make([]any, 0, len(kinds))
	for _, k := range kinds {
		ks = append(ks, k)
	}
	return J{"kinds": ks, "protect": cfg.ProtectArrayAppend, "any": cfg.AnyIsNullable}
}

func nilchecksReplay(args []string) int {
	fs := flag.NewFlagSet("nilchecks-replay", flag.ExitOnError)
	in := fs.String("in", "", "TLC output with SN / CASEN lines")
	traceOut := fs.String("trace", "", "trace file for GrowthTrace")
	tablesOut := fs.String("tables", "", "tables file for GrowthTrace")
	_ = fs.Parse(args)
	f, err := os.Open(*in)
	if err != nil {
		fmt.Fprintln(os.Stderr, err)
		return 2
	}
	defer f.Close()
	rd := bufio.NewReaderSize(f, 8<<20)
	tf, err := os.Create(*traceOut)
	if err != nil {
		fmt.Fprintln(os.Stderr, err)
		return 2
	}
	defer tf.Close()
	tw := bufio.NewWriterSize(tf, 1<<20)
	defer tw.Flush()

	pS, pC := []byte(`<<"SN", `), []byte(`<<"CASEN", `)
	var S []any
	var specCfg J
	langs := allLanguages()
	realCfg := J{}
	for _, name := range langOrder {
		realCfg[name] = nullableConfigOf(langs[name]())
	}
	names := map[string]bool{}
	seen := map[string]bool{}
	seenHist := map[string]bool{}
	cases, rejected, traced, modelSame := 0, 0, 0, 0
	perLang := map[string]int{}
	other := map[string]int{}
	otherEx := map[string]any{}
	var samples []any
	for {
		line, rerr := rd.ReadBytes('\n')
		switch {
		case bytes.HasPrefix(line, pS):
			var s struct {
				S   []any `json:"S"`
				Cfg J     `json:"cfg"`
			}
			if err := taggedPayload(line, pS, &s); err != nil {
				fmt.Fprintln(os.Stderr, "bad SN line:", err)
				return 2
			}
			S, specCfg = s.S, s.Cfg
			collectAllStrings(any(S), names)
		case bytes.HasPrefix(line, pC):
			var c case17
			if err := taggedPayload(line, pC, &c); err != nil {
				fmt.Fprintln(os.Stderr, "bad CASEN line:", err)
				return 2
			}
			if S == nil {
				fmt.Fprintln(os.Stderr, "CASEN before SN")
				return 2
			}
			hk := canonJ(any(c.Hist))
			if seenHist[hk] {
				break
			}
			seenHist[hk] = true
			cases++
			_, builders, errStr, panicked := applyHistory(S, c.Hist, "go")
			if panicked != "" {
				other["C04/veneers/panic/"+panicClass(panicked)]++
				break
			}
			if errStr != "" {
				if len(errStr) > 8 && errStr[:8] == "harness:" {
					fmt.Fprintln(os.Stderr, errStr)
					return 2
				}
				rejected++
				break
			}
			state := normJSON(projBuilders(builders))
			if canonJ(any(state)) == canonJ(any(c.Post)) {
				modelSame++
			}
			for _, lname := range langOrder {
				// a fresh copy of the state for every language: the generation writes into the builders
				fresh, err := unprojBuilders(any(state))
				if err != nil {
					fmt.Fprintln(os.Stderr, "harness:", err)
					return 2
				}
				schemas, _ := unprojSchemas(any(S))
				var out verifapi.LanguageContext
				var gerr error
				gp := ""
				func() {
					defer func() {
						if r := recover(); r != nil {
							gp = fmt.Sprint(r)
						}
					}()
					out, gerr = verifapi.GenerateBuilderNilChecks(langs[lname](), verifapi.LanguageContext{Schemas: schemas, Builders: fresh})
				}()
				if gp != "" || gerr != nil {
					sig := "C04/languages.GenerateBuilderNilChecks/panic/" + panicClass(gp+fmt.Sprint(gerr))
					other[sig]++
					if _, ok := otherEx[sig]; !ok {
						otherEx[sig] = J{"hist": c.Hist, "lang": lname}
					}
					continue
				}
				post := normJSON(projBuilders(out.Builders))
				if len(post) != len(state) {
					other["C09/nilchecks/"+lname+"/frame/builder-count-changed"]++
					continue
				}
				for i := range state {
					key := lname + "|" + hashOf(canonJ(state[i]))
					if seen[key] {
						continue
					}
					seen[key] = true
					// judged against the configuration the specification states for the language (NilChecksMC LangCfg);
					// the language's own NullableKinds() is only used when the input carries no table
					cfg := realCfg[lname]
					if sc := jmap(specCfg[lname]); sc != nil {
						cfg = J{"kinds": sc["kinds"], "protect": sc["protect"], "any": sc["any"]}
					}
					rec := J{"kind": "nilchecks", "lang": lname, "cfg": cfg, "pre": state[i], "post": post[i], "hist": c.Hist}
					raw, _ := json.Marshal(rec)
					tw.Write(raw)
					tw.WriteByte('\n')
					traced++
					perLang[lname]++
					collectAllStrings(state[i], names)
					if len(samples) < 2 && canonJ(state[i]) != canonJ(post[i]) && traced%53 == 0 {
						samples = append(samples, J{"lang": lname, "hist": c.Hist, "builder": jmap(post[i])["name"]})
					}
				}
			}
		}
		if rerr != nil {
			break
		}
	}
	if *tablesOut != "" {
		raw, _ := json.Marshal(builderTables(names, []any{S}))
		_ = os.WriteFile(*tablesOut, raw, 0o600)
	}
	cfgAgree := canonJ(normCfg(specCfg)) == canonJ(normCfg(realCfg))
	out, _ := json.Marshal(J{"cases": cases, "rejected_by_rewriter": rejected, "traced": traced, "states_equal_to_model": modelSame,
		"per_language": perLang, "real_cfg": realCfg, "spec_cfg": specCfg, "cfg_agrees_with_spec": cfgAgree,
		"observations_for_other_properties": other, "observation_examples": otherEx, "samples": samples, "S": S})
	os.Stdout.Write(out)
	os.Stdout.WriteString("\n")
	return 0
}

// normCfg sorts the kind lists of a language -> NullableConfig table.
func normCfg(c J) J {
	out := J{}
	for l, v := range c {
		m := jmap(v)
		ks := jstrings(m["kinds"])
		sort.Strings(ks)
		out[l] = J{"kinds": ks, "protect": m["protect"], "any": m["any"]}
	}
	return out
}
