package main

// C18: reflection-driven instantiation of IR values.
//
// The filler knows nothing about the fields of the IR structs: it walks the
// Go type of the root with reflection and populates EVERY exported field of
// every struct it meets with non-nil, non-empty, pairwise distinct sentinel
// values. A field added to an IR struct later is therefore populated (and
// compared, and mutated) without touching the harness.
//
// What comes from the TLC shape (spec/HeapShapes.tla):
//   root     the node type to instantiate (a type with a DeepCopy method)
//   chain    the kind of ast.Type at each nesting level: every ast.Type that
//            is not itself nested in an ast.Type gets the whole chain; the
//            pointer matching the kind is filled with the rest of the chain
//   payload  what every `any` slot holds: scalar | slice | map | nested
//            (slice holding a map holding a slice) | irnode (an
//            ast.DisjunctionType value, which cog itself stores in hints)
//   fill     wellformed: of the kind pointers of ast.Type only the one of its
//            kind is set; slices have two elements and spare capacity;
//            saturated: all kind pointers (every exported field non-nil);
//            sparse: optional pointers nil, slices/maps rotate through nil,
//            empty and short; nilled: EVERY optional pointer, slice, map and
//            `any` is nil; emptied: EVERY pointer is non-nil and points to a
//            struct filled the same way, every slice is empty WITH spare
//            capacity (what tools.Filter leaves behind), every map is empty
//            non-nil, every `any` holds an empty list
//            wide: like wellformed with THREE distinct elements in every slice
//            and map near the root (a routine that treats only the first or
//            the last element properly); zeroed: like wellformed but every
//            scalar slot holds its zero value (false, 0, "") and slices have
//            one element; combined with the falsy payloads
//   payload  ... | exotic (typed slices and maps, a map in a map, a pointer to a
//            pointer, a pointer to an IR node) | false | zero | emptystr (the same falsy
//            value in every `any` slot; empty lists/maps: fill emptied)
//
// The only knowledge about ast.Type is the convention that links Kind to the
// pointer field of the same name (kindField); a pointer field that is not in
// that table is still populated in saturated mode.

import (
	"fmt"
	"reflect"

	"github.com/grafana/cog/verifapi"
)

type c18Shape struct {
	Root    string   `json:"root"`
	Chain   []string `json:"chain"`
	Fill    string   `json:"fill"`
	Payload string   `json:"payload"`
}

func (s c18Shape) key() string {
	return fmt.Sprintf("%s|%v|%s|%s", s.Root, s.Chain, s.Fill, s.Payload)
}

var kindField = map[string]string{
	"disjunction": "Disjunction", "array": "Array", "enum": "Enum", "map": "Map", "struct": "Struct", "ref": "Ref",
	"constant_ref": "ConstantReference", "scalar": "Scalar", "intersection": "Intersection", "composable_slot": "ComposableSlot",
}

// valid members of the string enumerations of the IR (so that real passes can run on filled values)
var namedStrings = map[string][]string{
	"ScalarKind":       {"string", "int64", "bool", "float64"},
	"Op":               {"minLength", "maxLength", ">=", "<"},
	"AssignmentMethod": {"direct", "append", "index"},
	"SchemaKind":       {"composable", "core"},
	"SchemaVariant":    {"panelcfg", "dataquery"},
}

var (
	c18TypeOfType      = reflect.TypeOf(verifapi.Type{})
	c18TypeOfObjectMap = reflect.TypeOf((*verifapi.ObjectMap)(nil))
	c18TypeOfObject    = reflect.TypeOf(verifapi.Object{})
)

type c18Filler struct {
	shape     c18Shape
	n         int
	stack     map[reflect.Type]int
	depth     int
	typesMet  int // number of ast.Type values instantiated (0 => the chain was irrelevant for this root)
	structs   int
	err       error
	inPayload bool
	// set just before filling a pointer that must not be nil even in sparse mode
	mandatoryPtr bool
}

func newFiller(s c18Shape) *c18Filler {
	return &c18Filler{shape: s, stack: map[reflect.Type]int{}}
}

func (f *c18Filler) next() int { f.n++; return f.n }

func (f *c18Filler) fail(format string, a ...any) {
	if f.err == nil {
		f.err = fmt.Errorf(format, a...)
	}
}

// c18New instantiates the root type of the shape; the result is addressable.
func c18New(t reflect.Type, s c18Shape) (reflect.Value, *c18Filler) {
	return c18NewFrom(t, s, 0)
}

// c18NewFrom: like c18New with the nesting depth counted from depth0 (negative: the widths the filler
// gives near the root - two or three elements per slice - reach that much further down)
func c18NewFrom(t reflect.Type, s c18Shape, depth0 int) (reflect.Value, *c18Filler) {
	f := newFiller(s)
	f.depth = depth0
	v := reflect.New(t).Elem()
	f.fill(v, s.Chain, 1)
	return v, f
}

func (f *c18Filler) sparse() bool    { return f.shape.Fill == "sparse" }
func (f *c18Filler) nilled() bool    { return f.shape.Fill == "nilled" }
func (f *c18Filler) emptied() bool   { return f.shape.Fill == "emptied" }
func (f *c18Filler) wide() bool      { return f.shape.Fill == "wide" }
func (f *c18Filler) zeroed() bool    { return f.shape.Fill == "zeroed" }
func (f *c18Filler) saturated() bool { return f.shape.Fill == "saturated" }

// sliceLen: two elements near the root, one further down (keeps builders of a few thousand cells)
func (f *c18Filler) sliceLen() int {
	if f.wide() {
		if f.depth <= 2 {
			return 3
		}
		return 1
	}
	if f.zeroed() {
		return 1
	}
	if f.depth <= 2 && !f.saturated() {
		return 2
	}
	return 1 // saturated is about every field being populated, not about width
}

// selfNest: how often a struct type may contain itself (factory calls in parameters, envelopes in
// envelope values)
func (f *c18Filler) selfNest() int {
	if f.saturated() {
		return 1
	}
	return 2
}

func (f *c18Filler) payload() any {
	kind := f.shape.Payload
	if f.inPayload && kind == "irnode" {
		kind = "slice"
	}
	scalar := func() any {
		n := f.next()
		switch n % 3 {
		case 0:
			return int64(n)
		case 1:
			return fmt.Sprintf("s%d", n)
		}
		return float64(n) + 0.5
	}
	if f.emptied() {
		return make([]any, 0, 2)
	}
	switch kind { // falsy payloads: the SAME falsy value in every `any` slot of the value
	case "false":
		return false
	case "zero":
		if f.next()%2 == 0 {
			return int64(0)
		}
		return float64(0)
	case "emptystr":
		return ""
	}
	switch kind {
	case "exotic":
		// dynamic types the parsers do not produce but Go code may store: typed containers, a pointer
		strs := make([]string, 1, 3)
		strs[0] = fmt.Sprintf("s%d", f.next())
		ints := make([]int64, 1, 2)
		ints[0] = int64(f.next())
		ref := &verifapi.RefType{ReferredPkg: fmt.Sprintf("s%d", f.next()), ReferredType: fmt.Sprintf("s%d", f.next())}
		pp := &ref // pointer to pointer
		inner := make([]any, 1, 2)
		inner[0] = scalar()
		mm := map[string]map[string]any{fmt.Sprintf("k%d", f.next()): {fmt.Sprintf("k%d", f.next()): inner}} // map inside a map
		out := make([]any, 6, 8)
		out[0], out[1], out[2], out[3], out[4], out[5] = strs, map[string][]int64{fmt.Sprintf("k%d", f.next()): ints}, ref, scalar(), pp, mm
		return out
	case "scalar":
		return scalar()
	case "slice":
		n := 2
		if f.wide() {
			n = 3
		}
		s := make([]any, n, n+2)
		for i := range s {
			s[i] = scalar()
		}
		return s
	case "map":
		return map[string]any{fmt.Sprintf("k%d", f.next()): scalar(), fmt.Sprintf("k%d", f.next()): scalar()}
	case "nested":
		inner := make([]any, 1, 2)
		inner[0] = scalar()
		outer := make([]any, 2, 4)
		outer[0] = map[string]any{fmt.Sprintf("k%d", f.next()): inner}
		outer[1] = scalar()
		return outer
	case "irnode":
		// cog stores ast.DisjunctionType values in hints (disjunctions.go, prefix_objects_names.go)
		was := f.inPayload
		f.inPayload = true
		d := reflect.New(reflect.TypeOf(verifapi.DisjunctionType{})).Elem()
		f.fillStruct(d, nil, 1)
		f.inPayload = was
		return d.Interface()
	}
	f.fail("unknown payload kind %q", kind)
	return nil
}

func (f *c18Filler) fill(v reflect.Value, chain []string, sat int) {
	if f.err != nil {
		return
	}
	switch v.Kind() {
	case reflect.String, reflect.Bool, reflect.Int, reflect.Int8, reflect.Int16, reflect.Int32, reflect.Int64,
		reflect.Uint, reflect.Uint8, reflect.Uint16, reflect.Uint32, reflect.Uint64, reflect.Float32, reflect.Float64:
		if f.zeroed() {
			return // every scalar slot keeps its zero value
		}
		f.fillScalar(v)
	default:
		f.fillOther(v, chain, sat)
	}
}

func (f *c18Filler) fillScalar(v reflect.Value) {
	t := v.Type()
	switch v.Kind() {
	case reflect.String:
		if vals, ok := namedStrings[t.Name()]; ok {
			v.SetString(vals[f.next()%len(vals)])
		} else {
			v.SetString(fmt.Sprintf("s%d", f.next()))
		}
	case reflect.Bool:
		v.SetBool(true)
	case reflect.Int, reflect.Int8, reflect.Int16, reflect.Int32, reflect.Int64:
		v.SetInt(int64(f.next()%100 + 1))
	case reflect.Uint, reflect.Uint8, reflect.Uint16, reflect.Uint32, reflect.Uint64:
		v.SetUint(uint64(f.next()%100 + 1))
	case reflect.Float32, reflect.Float64:
		v.SetFloat(float64(f.next()) + 0.25)
	}
}

func (f *c18Filler) fillOther(v reflect.Value, chain []string, sat int) {
	t := v.Type()
	switch v.Kind() {
	case reflect.Interface:
		if t.NumMethod() != 0 {
			f.fail("cannot fill interface type %s", t)
			return
		}
		if f.nilled() || (f.sparse() && f.next()%2 == 0) {
			return
		}
		v.Set(reflect.ValueOf(f.payload()))
	case reflect.Ptr:
		if t == c18TypeOfObjectMap {
			f.fillObjectMap(v, chain, sat)
			return
		}
		if (f.sparse() || f.nilled()) && !f.mandatoryPtr {
			return
		}
		f.mandatoryPtr = false
		if t.Elem().Kind() == reflect.Struct && f.stack[t.Elem()] >= f.selfNest() {
			return // self-nesting (factory calls in parameters, envelopes in envelope values): one level
		}
		p := reflect.New(t.Elem())
		f.fill(p.Elem(), chain, sat)
		v.Set(p)
	case reflect.Struct:
		if t == c18TypeOfType {
			f.fillType(v, chain, sat)
			return
		}
		f.fillStruct(v, chain, sat)
	case reflect.Slice:
		et := t.Elem()
		if et.Kind() == reflect.Struct && et != c18TypeOfType && f.stack[et] >= f.selfNest() {
			return
		}
		n, c := f.sliceLen(), 2*f.sliceLen()
		if f.nilled() {
			return
		}
		if f.emptied() {
			n, c = 0, 2
		}
		if f.sparse() {
			switch f.next() % 4 {
			case 0:
				return // nil
			case 1:
				n, c = 0, 0
			case 2:
				n, c = 0, 2
			default:
				n, c = 1, 1
			}
		}
		s := reflect.MakeSlice(t, n, c)
		f.depth++
		for i := 0; i < n; i++ {
			f.mandatoryPtr = et.Kind() == reflect.Ptr // a nil element in []*Schema is not an IR value
			f.fill(s.Index(i), chain, sat)
		}
		f.mandatoryPtr = false
		f.depth--
		v.Set(s)
	case reflect.Map:
		n := 2
		if f.nilled() {
			return
		}
		if f.wide() && f.depth <= 2 {
			n = 3
		}
		if f.emptied() {
			n = 0
		}
		if f.sparse() {
			switch f.next() % 3 {
			case 0:
				return
			case 1:
				n = 0
			default:
				n = 1
			}
		}
		m := reflect.MakeMapWithSize(t, n)
		f.depth++
		for i := 0; i < n; i++ {
			k := reflect.New(t.Key()).Elem()
			if k.Kind() != reflect.String {
				f.fail("cannot fill map key type %s", t.Key())
				return
			}
			k.SetString(fmt.Sprintf("k%d", f.next()))
			e := reflect.New(t.Elem()).Elem()
			f.fill(e, chain, sat)
			m.SetMapIndex(k, e)
		}
		f.depth--
		v.Set(m)
	default:
		f.fail("cannot fill kind %s (%s)", v.Kind(), t)
	}
}

func (f *c18Filler) fillStruct(v reflect.Value, chain []string, sat int) {
	t := v.Type()
	f.stack[t]++
	f.depth++
	f.structs++
	for i := 0; i < t.NumField(); i++ {
		if !t.Field(i).IsExported() {
			f.fail("struct %s has unexported field %s: no constructor registered in the C18 filler", t, t.Field(i).Name)
			break
		}
		f.fill(v.Field(i), chain, sat)
	}
	f.depth--
	f.stack[t]--
}

// fillType instantiates one ast.Type following the chain of kinds.
func (f *c18Filler) fillType(v reflect.Value, chain []string, sat int) {
	t := v.Type()
	f.typesMet++
	kind := "scalar"
	var rest []string
	if len(chain) > 0 {
		kind, rest = chain[0], chain[1:]
	}
	want, ok := kindField[kind]
	if !ok {
		f.fail("no pointer field known for kind %q", kind)
		return
	}
	if _, ok := t.FieldByName(want); !ok {
		f.fail("ast.Type has no field %s for kind %q", want, kind)
		return
	}
	f.depth++
	for i := 0; i < t.NumField(); i++ {
		sf := t.Field(i)
		fv := v.Field(i)
		switch {
		case !sf.IsExported():
			f.fail("ast.Type has unexported field %s", sf.Name)
		case sf.Name == "Kind":
			fv.SetString(kind)
		case sf.Type.Kind() == reflect.Ptr && sf.Type.Elem().Kind() == reflect.Struct:
			if sf.Name == want {
				p := reflect.New(sf.Type.Elem())
				f.fill(p.Elem(), rest, sat)
				fv.Set(p)
			} else if f.saturated() && sat > 0 {
				p := reflect.New(sf.Type.Elem())
				f.fill(p.Elem(), nil, sat-1) // off-kind parts: leaf types below, not saturated again
				fv.Set(p)
			}
		default:
			f.fill(fv, rest, sat)
		}
	}
	f.depth--
}

// fillObjectMap: the one IR container with unexported representation (orderedmap.Map) is built
// through its own API.
func (f *c18Filler) fillObjectMap(v reflect.Value, chain []string, sat int) {
	m := verifapi.NewObjectMap()
	n := 2
	if f.sparse() {
		n = f.next() % 2
	}
	if f.nilled() || f.emptied() {
		n = 0
	}
	for i := 0; i < n; i++ {
		o := reflect.New(c18TypeOfObject).Elem()
		f.fill(o, chain, sat)
		obj := o.Interface().(verifapi.Object)
		m.Set(obj.Name, obj)
	}
	v.Set(reflect.ValueOf(m))
}

// ---------------------------------------------------------------- type discovery

// c18Roots walks the Go types reachable from ast.Schemas and ast.Builders and returns every named
// type that has a DeepCopy method (on the value or on its pointer).
func c18Roots() map[string]reflect.Type {
	seen := map[reflect.Type]bool{}
	roots := map[string]reflect.Type{}
	var visit func(t reflect.Type)
	visit = func(t reflect.Type) {
		if seen[t] {
			return
		}
		seen[t] = true
		if t.Name() != "" && t.Kind() != reflect.Ptr {
			if _, ok := reflect.PointerTo(t).MethodByName("DeepCopy"); ok {
				roots[t.Name()] = t
			}
		}
		switch t.Kind() {
		case reflect.Ptr, reflect.Slice, reflect.Array:
			visit(t.Elem())
		case reflect.Map:
			visit(t.Key())
			visit(t.Elem())
		case reflect.Struct:
			for i := 0; i < t.NumField(); i++ {
				visit(t.Field(i).Type)
			}
		}
	}
	visit(reflect.TypeOf(verifapi.Schemas{}))
	visit(reflect.TypeOf(verifapi.Builders{}))
	return roots
}

func c18HasDeepCopy(t reflect.Type) bool {
	if t.Name() == "" || t.Kind() == reflect.Ptr {
		return false
	}
	_, ok := reflect.PointerTo(t).MethodByName("DeepCopy")
	return ok
}

// c18DeepCopy calls the real DeepCopy method of v (addressable) and returns an addressable value of
// the same type holding the result.
func c18DeepCopy(v reflect.Value) (out reflect.Value, err error) {
	defer func() {
		if r := recover(); r != nil {
			err = fmt.Errorf("DeepCopy panicked: %v", r)
		}
	}()
	if !v.CanAddr() {
		a := reflect.New(v.Type()).Elem()
		a.Set(v)
		v = a
	}
	m := v.Addr().MethodByName("DeepCopy")
	if !m.IsValid() {
		return reflect.Value{}, fmt.Errorf("%s has no DeepCopy method", v.Type())
	}
	res := m.Call(nil)
	if len(res) != 1 {
		return reflect.Value{}, fmt.Errorf("%s.DeepCopy returns %d values", v.Type(), len(res))
	}
	r := res[0]
	if r.Type() != v.Type() {
		if !r.Type().ConvertibleTo(v.Type()) {
			return reflect.Value{}, fmt.Errorf("%s.DeepCopy returns %s", v.Type(), r.Type())
		}
		r = r.Convert(v.Type())
	}
	out = reflect.New(v.Type()).Elem()
	out.Set(r)
	return out, nil
}
