// Command worker drives the real grafana/cog code (built from /repo with
// -tags verif) for the checks in /verif. One sub-command per engine; all I/O
// is ndjson on stdin/stdout.
package main

import (
	"fmt"
	"os"
)

var commands = map[string]func(args []string) int{}

func main() {
	if len(os.Args) < 2 {
		fmt.Fprintln(os.Stderr, "usage: worker <command> [args]")
		os.Exit(2)
	}
	cmd, ok := commands[os.Args[1]]
	if !ok {
		fmt.Fprintf(os.Stderr, "unknown command %q\n", os.Args[1])
		os.Exit(2)
	}
	os.Exit(cmd(os.Args[2:]))
}
