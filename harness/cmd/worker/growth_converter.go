package main

// Growth item 3: the real languages.ConverterGenerator.FromBuilder on real builder states.
//
// Converter  {"pkg","builder","input":{"arg","pkg","name"},"ctorargs":[Direct],"mappings":[Mapping]}
// Mapping    {"for":[PathItem] (empty when the option is not repeated),"as","index","options":[OptMap]}
// OptMap     {"option":Option,"guards":[Guard],"args":[Arg]}
// Guard      {"path":[PathItem],"op","value":V}
// Direct     {"path":[PathItem],"type":T}
// Arg        {"k":"direct","path","type","guards"} | {"k":"builder","path","type","pkg","name","guards"}
//            | {"k":"choice","choices":[{"guards":[Guard],"path","type","pkg","name"}],"guards"}
//            | {"k":"array","for","fortype","forarg":Arg,"valueas","valuetype","guards"}
//            | {"k":"map","for","fortype","forarg":Arg,"valueas","indextype","valuetype","guards"}
//            | {"k":"disjunction","branches":[{"type":T,"of":Direct,"arg":Arg}],"guards"}
//            | {"k":"runtime","func","args":[Direct],"guards"} | {"k":"none","guards"}
//
// Input: TLC output of ConverterMC with <<"SC", {S, B0, cfg}>> and <<"CASEC", {hist, post, err}>> lines.
// For every history: real FromAST + ApplyTo; for every converter language (go, java, php configurations)
// and every builder of the state: NewConverterGenerator(cfg).FromBuilder(context, builder). Every distinct
// (language, builder, builder directory) is written as a trace record
//   {kind:"converter", lang, cfg, s, dir:[{pkg,name,forpkg,forname,ctor}], builder, conv, hist}.

import (
	"bufio"
	"bytes"
	"encoding/json"
	"flag"
	"fmt"
	"os"

	"github.com/grafana/cog/verifapi"
)

func init() {
	commands["converter-replay"] = converterReplay
}

func projGuards(gs []verifapi.MappingGuard) []any {
	out := make([]any, 0, len(gs))
	for _, g := range gs {
		out = append(out, J{"path": projPath(g.Path), "op": string(g.Op), "value": projVal(g.Value)})
	}
	return out
}

func projDirect(d verifapi.DirectArgMapping) J {
	return J{"path": projPath(d.ValuePath), "type": projType(d.ValueType)}
}

func projArgMapping(a verifapi.ArgumentMapping) J {
	g := projGuards(a.Guards)
	switch {
	case a.Direct != nil:
		return J{"k": "direct", "path": projPath(a.Direct.ValuePath), "type": projType(a.Direct.ValueType), "guards": g}
	case a.Runtime != nil:
		args := []any{}
		for _, d := range a.Runtime.Args {
			args = append(args, projDirect(*d))
		}
		return J{"k": "runtime", "func": a.Runtime.FuncName, "args": args, "guards": g}
	case a.Builder != nil:
		return J{"k": "builder", "path": projPath(a.Builder.ValuePath), "type": projType(a.Builder.ValueType),
			"pkg": a.Builder.BuilderPkg, "name": a.Builder.BuilderName, "guards": g}
	case a.BuilderDisjunction != nil:
		cs := []any{}
		for _, c := range a.BuilderDisjunction {
			cs = append(cs, J{"guards": projGuards(c.Guards), "path": projPath(c.Builder.ValuePath), "type": projType(c.Builder.ValueType),
				"pkg": c.Builder.BuilderPkg, "name": c.Builder.BuilderName})
		}
		return J{"k": "choice", "choices": cs, "guards": g}
	case a.Array != nil:
		fa := J{"k": "none", "guards": []any{}}
		if a.Array.ForArg != nil {
			fa = projArgMapping(*a.Array.ForArg)
		}
		return J{"k": "array", "for": projPath(a.Array.For), "fortype": projType(a.Array.ForType), "forarg": fa,
			"valueas": projPath(a.Array.ValueAs), "valuetype": projType(a.Array.ValueType), "guards": g}
	case a.Map != nil:
		fa := J{"k": "none", "guards": []any{}}
		if a.Map.ForArg != nil {
			fa = projArgMapping(*a.Map.ForArg)
		}
		return J{"k": "map", "for": projPath(a.Map.For), "fortype": projType(a.Map.ForType), "forarg": fa,
			"valueas": projPath(a.Map.ValueAs), "indextype": projType(a.Map.IndexType), "valuetype": projType(a.Map.ValueType), "guards": g}
	case a.Disjunction != nil:
		bs := []any{}
		for _, b := range a.Disjunction.Branches {
			arg := J{"k": "none", "guards": []any{}}
			if b.Arg != nil {
				arg = projArgMapping(*b.Arg)
			}
			of := J{"path": []any{}, "type": J{"k": "none"}}
			if b.Of != nil {
				of = projDirect(*b.Of)
			}
			bs = append(bs, J{"type": projType(b.Type), "of": of, "arg": arg})
		}
		return J{"k": "disjunction", "branches": bs, "guards": g}
	}
	return J{"k": "none", "guards": g}
}

func projConverter(c verifapi.Converter) J {
	ctor := []any{}
	for _, d := range c.ConstructorArgs {
		ctor = append(ctor, projDirect(d))
	}
	ms := []any{}
	for _, m := range c.Mappings {
		opts := []any{}
		for _, o := range m.Options {
			args := []any{}
			for _, a := range o.Args {
				args = append(args, projArgMapping(a))
			}
			opts = append(opts, J{"option": projOption(o.Option), "guards": projGuards(o.Guards), "args": args})
		}
		ms = append(ms, J{"for": projPath(m.RepeatFor), "as": m.RepeatAs, "index": m.RepeatIndex, "options": opts})
	}
	return J{"pkg": c.Package, "builder": c.BuilderName,
		"input":    J{"arg": c.Input.ArgName, "pkg": c.Input.TypeRef.ReferredPkg, "name": c.Input.TypeRef.ReferredType},
		"ctorargs": ctor, "mappings": ms}
}

var converterLangs = []string{"go", "java", "php"}

func converterReplay(args []string) int {
	fs := flag.NewFlagSet("converter-replay", flag.ExitOnError)
	in := fs.String("in", "", "TLC output with SC / CASEC lines")
	traceOut := fs.String("trace", "", "trace file for GrowthTrace")
	tablesOut := fs.String("tables", "", "tables file for GrowthTrace")
	_ = fs.Parse(args)
	f, err := os.Open(*in)
	if err != nil {
		fmt.Fprintln(os.Stderr, err)
		return 2
	}
	defer f.Close()
	rd := bufio.NewReaderSize(f, 8<<20)
	tf, err := os.Create(*traceOut)
	if err != nil {
		fmt.Fprintln(os.Stderr, err)
		return 2
	}
	defer tf.Close()
	tw := bufio.NewWriterSize(tf, 1<<20)
	defer tw.Flush()

	pS, pC := []byte(`<<"SC", `), []byte(`<<"CASEC", `)
	var S []any
	var specCfg J
	langs := allLanguages()
	names := map[string]bool{}
	seen := map[string]bool{}
	seenHist := map[string]bool{}
	cases, rejected, traced, modelSame := 0, 0, 0, 0
	perLang := map[string]int{}
	other := map[string]int{}
	otherEx := map[string]any{}
	var samples []any
	for {
		line, rerr := rd.ReadBytes('\n')
		switch {
		case bytes.HasPrefix(line, pS):
			var s struct {
				S   []any `json:"S"`
				Cfg J     `json:"cfg"`
			}
			if err := taggedPayload(line, pS, &s); err != nil {
				fmt.Fprintln(os.Stderr, "bad SC line:", err)
				return 2
			}
			S, specCfg = s.S, s.Cfg
			collectAllStrings(any(S), names)
		case bytes.HasPrefix(line, pC):
			var c case17
			if err := taggedPayload(line, pC, &c); err != nil {
				fmt.Fprintln(os.Stderr, "bad CASEC line:", err)
				return 2
			}
			if S == nil {
				fmt.Fprintln(os.Stderr, "CASEC before SC")
				return 2
			}
			hk := canonJ(any(c.Hist))
			if seenHist[hk] {
				break
			}
			seenHist[hk] = true
			cases++
			schemas, builders, errStr, panicked := applyHistory(S, c.Hist, "go")
			if panicked != "" {
				other["C04/veneers/panic/"+panicClass(panicked)]++
				break
			}
			if errStr != "" {
				if len(errStr) > 8 && errStr[:8] == "harness:" {
					fmt.Fprintln(os.Stderr, errStr)
					return 2
				}
				rejected++
				break
			}
			state := normJSON(projBuilders(builders))
			if canonJ(any(state)) == canonJ(any(c.Post)) {
				modelSame++
			}
			dir := make([]any, 0, len(state))
			for _, b := range state {
				bm := jmap(b)
				dir = append(dir, J{"pkg": bm["pkg"], "name": bm["name"], "forpkg": jmap(bm["for"])["selfpkg"], "forname": jmap(bm["for"])["selfname"],
					"ctor": bm["ctor"]})
			}
			dirKey := hashOf(canonJ(any(dir)))
			for _, lname := range converterLangs {
				realCfg := nullableConfigOf(langs[lname]())
				cfg := realCfg
				if sc := jmap(specCfg[lname]); sc != nil {
					cfg = J{"kinds": sc["kinds"], "protect": sc["protect"], "any": sc["any"]}
				}
				nc := verifapi.NullableConfig{AnyIsNullable: true}
				if p, ok := langs[lname]().(verifapi.NullableKindsProvider); ok {
					nc = p.NullableKinds()
				}
				for i := range builders {
					key := lname + "|" + dirKey + "|" + hashOf(canonJ(state[i]))
					if seen[key] {
						continue
					}
					seen[key] = true
					var conv verifapi.Converter
					gp := ""
					func() {
						defer func() {
							if r := recover(); r != nil {
								gp = fmt.Sprint(r)
							}
						}()
						conv = verifapi.NewConverterGenerator(nc).FromBuilder(verifapi.LanguageContext{Schemas: schemas, Builders: builders}, builders[i])
					}()
					if gp != "" {
						sig := "C04/languages.ConverterGenerator.FromBuilder/panic/" + panicClass(gp)
						other[sig]++
						if _, ok := otherEx[sig]; !ok {
							otherEx[sig] = J{"hist": c.Hist, "lang": lname, "builder": jmap(state[i])["name"], "panic": gp}
						}
						continue
					}
					pc := projConverter(conv)
					rec := J{"kind": "converter", "lang": lname, "cfg": cfg, "s": 1, "dir": dir, "builder": state[i], "conv": pc, "hist": c.Hist}
					raw, _ := json.Marshal(rec)
					tw.Write(raw)
					tw.WriteByte('\n')
					traced++
					perLang[lname]++
					collectAllStrings(state[i], names)
					collectAllStrings(pc, names)
					if len(samples) < 2 && traced%41 == 0 {
						samples = append(samples, J{"lang": lname, "hist": c.Hist, "builder": jmap(state[i])["name"], "converter": pc})
					}
				}
				if canonJ(normJSON(projBuilders(builders))) != canonJ(any(state)) {
					other["C18/ConverterGenerator.FromBuilder/input-builders-modified"]++
				}
			}
		}
		if rerr != nil {
			break
		}
	}
	if *tablesOut != "" {
		tb := builderTables(names, []any{S})
		uc := J{}
		for n := range names {
			if n != "" {
				uc[n] = verifapi.UpperCamelCase(n)
			}
		}
		uc["dataquery"] = "Dataquery"
		tb["ucamel"] = uc
		raw, _ := json.Marshal(tb)
		_ = os.WriteFile(*tablesOut, raw, 0o600)
	}
	out, _ := json.Marshal(J{"cases": cases, "rejected_by_rewriter": rejected, "traced": traced, "states_equal_to_model": modelSame,
		"per_language": perLang, "spec_cfg": specCfg,
		"observations_for_other_properties": other, "observation_examples": otherEx, "samples": samples, "S": S})
	os.Stdout.Write(out)
	os.Stdout.WriteString("\n")
	return 0
}
