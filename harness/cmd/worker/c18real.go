package main

// C18, second sentence with REAL transformations instead of synthetic writes:
//
//  passes   compiler.Passes{p}.Process(schemas) deep-copies its input and lets p work on the copy:
//           for every schema transformation of the C15 list and every parameterless language pass, the
//           schemas handed in must be unchanged afterwards (deep snapshot by reflection, not the IR
//           projection: `any` payloads, trails and the ordered map representation are included)
//  (the duplicate rules - duplicate_object, the builder and the option rule `duplicate` - are judged
//  in c18dup.go on the cases of spec/HeapDup.tla)
//
// Inputs are produced by the C18 filler from TLC shapes; references are pointed at existing
// objects afterwards so that the passes find something to do.

import (
	"encoding/json"
	"flag"
	"fmt"
	"os"
	"reflect"
	"sort"
	"sync"

	"github.com/grafana/cog/verifapi"
)

func init() {
	commands["c18-real"] = c18Real
}

// c18FixRefs points every reference of the filled schemas at an existing object and makes object
// names, map keys and self references agree.
func c18FixRefs(schemas verifapi.Schemas) {
	if len(schemas) == 0 {
		return
	}
	// references go to a leaf object without references of its own (no reference cycles)
	pkg, name := schemas[0].Package, "Leaf"
	schemas[0].AddObject(verifapi.NewObject(pkg, name, verifapi.Type{Kind: "scalar", Scalar: &verifapi.ScalarType{ScalarKind: "string"}}))
	var fix func(t *verifapi.Type, depth int)
	fix = func(t *verifapi.Type, depth int) {
		if depth > 8 {
			return
		}
		if t.Ref != nil {
			t.Ref.ReferredPkg, t.Ref.ReferredType = pkg, name
		}
		if t.ConstantReference != nil {
			t.ConstantReference.ReferredPkg, t.ConstantReference.ReferredType = pkg, name
		}
		if t.Array != nil {
			fix(&t.Array.ValueType, depth+1)
		}
		if t.Map != nil {
			fix(&t.Map.IndexType, depth+1)
			fix(&t.Map.ValueType, depth+1)
		}
		if t.Struct != nil {
			for i := range t.Struct.Fields {
				fix(&t.Struct.Fields[i].Type, depth+1)
			}
		}
		if t.Disjunction != nil {
			for i := range t.Disjunction.Branches {
				fix(&t.Disjunction.Branches[i], depth+1)
			}
		}
		if t.Intersection != nil {
			for i := range t.Intersection.Branches {
				fix(&t.Intersection.Branches[i], depth+1)
			}
		}
		if t.Enum != nil {
			for i := range t.Enum.Values {
				fix(&t.Enum.Values[i].Type, depth+1)
			}
		}
	}
	for _, s := range schemas {
		keys := []string{}
		s.Objects.Iterate(func(k string, _ verifapi.Object) { keys = append(keys, k) })
		for _, k := range keys {
			o := s.Objects.Get(k)
			o.SelfRef.ReferredPkg, o.SelfRef.ReferredType = s.Package, o.Name
			fix(&o.Type, 0)
			s.Objects.Set(k, o)
		}
		if s.EntryPointType.Kind != "" {
			fix(&s.EntryPointType, 0)
		}
		if len(keys) > 0 {
			s.EntryPoint = keys[0]
		}
	}
}

type c18Pass struct {
	name string
	mk   func(pkg, obj, obj2, field string) verifapi.Pass
}

func c18PassList() []c18Pass {
	str := verifapi.Type{Kind: "scalar", Scalar: &verifapi.ScalarType{ScalarKind: "string"}}
	or := func(p, o string) verifapi.ObjectReference { return verifapi.ObjectReference{Package: p, Object: o} }
	fr := func(p, o, f string) verifapi.FieldReference {
		return verifapi.FieldReference{Package: p, Object: o, Field: f}
	}
	return []c18Pass{
		// the schema transformations of the configuration language (C15 list)
		{"rename_object", func(p, o, _, _ string) verifapi.Pass { return &verifapi.RenameObject{From: or(p, o), To: "Renamed"} }},
		{"omit", func(p, o, _, _ string) verifapi.Pass {
			return &verifapi.Omit{Objects: []verifapi.ObjectReference{or(p, o)}}
		}},
		{"omit_fields", func(p, o, _, f string) verifapi.Pass {
			return &verifapi.OmitFields{Fields: []verifapi.FieldReference{fr(p, o, f)}}
		}},
		{"add_fields", func(p, o, _, _ string) verifapi.Pass {
			return &verifapi.AddFields{Object: or(p, o), Fields: []verifapi.StructField{{Name: "added", Type: str.DeepCopy()}}}
		}},
		{"add_object", func(p, _, _, _ string) verifapi.Pass {
			return &verifapi.AddObject{Object: or(p, "Added"), As: str.DeepCopy(), Comments: []string{"c"}}
		}},
		{"duplicate_object", func(p, o, _, f string) verifapi.Pass {
			return &verifapi.DuplicateObject{Object: or(p, o), As: or(p, "Dup"), OmitFields: []string{f}}
		}},
		{"retype_object", func(p, o, _, _ string) verifapi.Pass {
			return &verifapi.RetypeObject{Object: or(p, o), As: str.DeepCopy()}
		}},
		{"retype_field", func(p, o, _, f string) verifapi.Pass {
			return &verifapi.RetypeField{Field: fr(p, o, f), As: str.DeepCopy()}
		}},
		{"fields_set_required", func(p, o, _, f string) verifapi.Pass {
			return &verifapi.FieldsSetRequired{Fields: []verifapi.FieldReference{fr(p, o, f)}}
		}},
		{"fields_set_not_required", func(p, o, _, f string) verifapi.Pass {
			return &verifapi.FieldsSetNotRequired{Fields: []verifapi.FieldReference{fr(p, o, f)}}
		}},
		{"fields_set_default", func(p, o, _, f string) verifapi.Pass {
			return &verifapi.FieldsSetDefault{DefaultValues: map[verifapi.FieldReference]any{fr(p, o, f): "dflt"}}
		}},
		{"replace_reference", func(p, o, _, _ string) verifapi.Pass {
			return &verifapi.ReplaceReference{From: or(p, "Leaf"), To: or(p, o)}
		}},
		{"constant_to_enum", func(p, o, _, _ string) verifapi.Pass {
			return &verifapi.ConstantToEnum{Objects: []verifapi.ObjectReference{or(p, o)}}
		}},
		{"trim_enum_values", func(_, _, _, _ string) verifapi.Pass { return &verifapi.TrimEnumValues{} }},
		{"hint_object", func(p, o, _, _ string) verifapi.Pass {
			return &verifapi.HintObject{Object: or(p, o), Hints: verifapi.JenniesHints{"h": "v"}}
		}},
		{"schema_set_identifier", func(p, _, _, _ string) verifapi.Pass {
			return &verifapi.SchemaSetIdentifier{Package: p, Identifier: "ident"}
		}},
		{"schema_set_entry_point", func(p, o, _, _ string) verifapi.Pass { return &verifapi.SchemaSetEntrypoint{Package: p, EntryPoint: o} }},
		{"prefix_objects_names", func(_, _, _, _ string) verifapi.Pass { return &verifapi.PrefixObjectNames{Prefix: "Pre"} }},
		{"append_comment_objects", func(_, _, _, _ string) verifapi.Pass { return &verifapi.AppendCommentObjects{Comment: "appended"} }},
		{"unspec", func(_, _, _, _ string) verifapi.Pass { return &verifapi.Unspec{} }},
		{"allowed_objects", func(p, o, _, _ string) verifapi.Pass {
			return &verifapi.FilterSchemas{AllowedObjects: []verifapi.ObjectReference{or(p, o)}}
		}},
		// passes of the language chains that need no parameters
		{"AnonymousEnumToExplicitType", func(_, _, _, _ string) verifapi.Pass { return &verifapi.AnonymousEnumToExplicitType{} }},
		{"AnonymousStructsToNamed", func(_, _, _, _ string) verifapi.Pass { return &verifapi.AnonymousStructsToNamed{} }},
		{"DisjunctionOfConstantsToEnum", func(_, _, _, _ string) verifapi.Pass { return &verifapi.DisjunctionOfConstantsToEnum{} }},
		{"DisjunctionWithConstantToDefault", func(_, _, _, _ string) verifapi.Pass { return &verifapi.DisjunctionWithConstantToDefault{} }},
		{"DisjunctionToType", func(_, _, _, _ string) verifapi.Pass { return &verifapi.DisjunctionToType{} }},
		{"DisjunctionInferMapping", func(_, _, _, _ string) verifapi.Pass { return &verifapi.DisjunctionInferMapping{} }},
		{"DisjunctionOfAnonymousStructsToExplicit", func(_, _, _, _ string) verifapi.Pass { return &verifapi.DisjunctionOfAnonymousStructsToExplicit{} }},
		{"DisjunctionWithNullToOptional", func(_, _, _, _ string) verifapi.Pass { return &verifapi.DisjunctionWithNullToOptional{} }},
		{"FlattenDisjunctions", func(_, _, _, _ string) verifapi.Pass { return &verifapi.FlattenDisjunctions{} }},
		{"InferEntrypoint", func(_, _, _, _ string) verifapi.Pass { return &verifapi.InferEntrypoint{} }},
		{"InlineObjectsWithTypes", func(_, _, _, _ string) verifapi.Pass {
			return &verifapi.InlineObjectsWithTypes{InlineTypes: []verifapi.Kind{"scalar", "array", "map", "disjunction"}}
		}},
		{"NotRequiredFieldAsNullableType", func(_, _, _, _ string) verifapi.Pass { return &verifapi.NotRequiredFieldAsNullableType{} }},
		{"PrefixEnumValues", func(_, _, _, _ string) verifapi.Pass { return &verifapi.PrefixEnumValues{} }},
		{"RemoveIntersections", func(_, _, _, _ string) verifapi.Pass { return &verifapi.RemoveIntersections{} }},
		{"RenameNumericEnumValues", func(_, _, _, _ string) verifapi.Pass { return &verifapi.RenameNumericEnumValues{} }},
		{"SanitizeEnumMemberNames", func(_, _, _, _ string) verifapi.Pass { return &verifapi.SanitizeEnumMemberNames{} }},
		{"UndiscriminatedDisjunctionToAny", func(_, _, _, _ string) verifapi.Pass { return &verifapi.UndiscriminatedDisjunctionToAny{} }},
		{"DataqueryIdentification", func(_, _, _, _ string) verifapi.Pass { return &verifapi.DataqueryIdentification{} }},
		{"NameAnonymousStruct", func(p, o, _, f string) verifapi.Pass {
			return &verifapi.NameAnonymousStruct{Field: fr(p, o, f), As: "Named"}
		}},
	}
}

type c18RealStats struct {
	Inputs       int            `json:"schema_inputs"`
	Runs         int            `json:"process_calls"`
	Errors       map[string]int `json:"pass_errors"`
	Panics       map[string]int `json:"pass_panics"`
	Effective    map[string]int `json:"pass_changed_its_copy"` // runs whose result differs from the input: the pass did something
	InputMutated int            `json:"runs_with_input_mutated"`
}

var c18RevealingOps = []string{"SetElem", "MapInsert", "MapDelete", "SetThroughPointer", "AppendWithinCap", "SetField"}

func c18Real(args []string) int {
	fs := flag.NewFlagSet("c18-real", flag.ExitOnError)
	shapesIn := fs.String("shapes", "", "ndjson file of shapes with root Schemas")
	par := fs.Int("par", 16, "parallel workers")
	_ = fs.Parse(args)
	shapes, err := c18ReadShapes(*shapesIn)
	if err != nil {
		fmt.Fprintln(os.Stderr, err)
		return 2
	}
	sort.SliceStable(shapes, func(i, j int) bool { return shapes[i].key() < shapes[j].key() })
	roots := c18Roots()
	st := newC18RealStats()
	sigs := map[string]*sigAgg{}
	var samples []any
	passes := c18PassList()
	var mu sync.Mutex
	harness := ""
	jobs := make(chan c18Shape, 16)
	var wg sync.WaitGroup
	for i := 0; i < *par; i++ {
		wg.Add(1)
		go func() {
			defer wg.Done()
			for s := range jobs {
				lst, lsigs, lsamples, problem := c18RealShape(s, roots, passes)
				mu.Lock()
				if problem != "" && harness == "" {
					harness = problem
				}
				st.merge(lst)
				for sig, a := range lsigs {
					g := sigs[sig]
					if g == nil {
						g = &sigAgg{}
						sigs[sig] = g
					}
					g.Count += a.Count
					for _, ex := range a.Examples {
						if len(g.Examples) < 2 {
							g.Examples = append(g.Examples, ex)
						}
					}
				}
				if len(samples) < 2 {
					samples = append(samples, lsamples...)
				}
				mu.Unlock()
			}
		}()
	}
	for _, s := range shapes {
		jobs <- s
	}
	close(jobs)
	wg.Wait()
	if harness != "" {
		fmt.Fprintln(os.Stderr, "harness error:", harness)
		return 2
	}
	names := []string{}
	for _, p := range passes {
		names = append(names, p.name)
	}
	if len(samples) == 0 {
		samples = append(samples, J{"note": "no effective pass run sampled"})
	}
	b, _ := json.Marshal(J{"stats": st, "signatures": sigs, "passes": names, "samples": samples})
	os.Stdout.Write(b)
	os.Stdout.WriteString("\n")
	return 0
}

func newC18RealStats() *c18RealStats {
	return &c18RealStats{Errors: map[string]int{}, Panics: map[string]int{}, Effective: map[string]int{}}
}

func (st *c18RealStats) merge(o *c18RealStats) {
	st.Inputs += o.Inputs
	st.Runs += o.Runs
	st.InputMutated += o.InputMutated
	for k, v := range o.Errors {
		st.Errors[k] += v
	}
	for k, v := range o.Panics {
		st.Panics[k] += v
	}
	for k, v := range o.Effective {
		st.Effective[k] += v
	}
}

func c18RealShape(s c18Shape, roots map[string]reflect.Type, passes []c18Pass) (*c18RealStats, map[string]*sigAgg, []any, string) {
	st := newC18RealStats()
	sigs := map[string]*sigAgg{}
	var samples []any
	add := func(sig string, ex J) {
		a := sigs[sig]
		if a == nil {
			a = &sigAgg{}
			sigs[sig] = a
		}
		a.Count++
		if len(a.Examples) < 2 {
			a.Examples = append(a.Examples, ex)
		}
	}
	{
		shapeJ := J{"root": s.Root, "chain": s.Chain, "fill": s.Fill, "payload": s.Payload}
		switch s.Root {
		case "Schemas":
			mk := func() (reflect.Value, verifapi.Schemas, string) {
				v, f := c18New(roots["Schemas"], s)
				if f.err != nil {
					return v, nil, f.err.Error()
				}
				schemas := v.Interface().(verifapi.Schemas)
				c18FixRefs(schemas)
				return v, schemas, ""
			}
			v0, schemas0, problem := mk()
			if problem != "" {
				return st, sigs, samples, problem
			}
			if len(schemas0) == 0 {
				return st, sigs, samples, ""
			}
			st.Inputs++
			// where would a write through Process's own copy land? (attribution of a mutated input)
			cp0, err := c18DeepCopy(v0)
			sharedAttr := map[string]c18Attr{}
			if err == nil {
				if an, err := c18Analyse(v0, cp0); err == nil {
					for _, sh := range an.shared {
						if sh.origPath != nil {
							sharedAttr[pathString(sh.origPath)] = c18Attribute(v0, "Schemas", sh.origPath, "Shared")
						}
					}
				}
			}
			pkg, obj, obj2, field := schemas0[0].Package, "", "", ""
			schemas0[0].Objects.Iterate(func(k string, o verifapi.Object) {
				if obj == "" {
					obj = k
					if o.Type.Struct != nil && len(o.Type.Struct.Fields) > 0 {
						field = o.Type.Struct.Fields[0].Name
					}
				} else if obj2 == "" {
					obj2 = k
				}
			})
			for _, p := range passes {
				v, schemas, _ := mk()
				before := map[string]string{}
				flatten(v, "", before)
				var out verifapi.Schemas
				var perr error
				panicked := ""
				func() {
					defer func() {
						if r := recover(); r != nil {
							panicked = fmt.Sprint(r)
						}
					}()
					out, perr = verifapi.Passes{p.mk(pkg, obj, obj2, field)}.Process(schemas)
				}()
				st.Runs++
				if panicked != "" {
					st.Panics[p.name]++
				} else if perr != nil {
					st.Errors[p.name]++
				} else {
					res := map[string]string{}
					flatten(reflect.ValueOf(out), "", res)
					if len(flatDiff(before, res)) > 0 {
						st.Effective[p.name]++
					}
				}
				after := map[string]string{}
				flatten(v, "", after)
				changed := flatDiff(before, after)
				if len(changed) == 0 {
					if len(samples) < 2 && panicked == "" && perr == nil && st.Effective[p.name] == 1 {
						samples = append(samples, J{"shape": shapeJ, "pass": p.name, "input_leaves_compared": len(before), "input_changed": false})
					}
					continue
				}
				st.InputMutated++
				seen := map[string]bool{}
				for _, cpath := range changed {
					at, ok := c18Attr{}, false
					if ps, found := longestPrefix(cpath, func(p string) bool { _, in := sharedAttr[p]; return in }); found {
						at, ok = sharedAttr[ps], true
					}
					sig := fmt.Sprintf("C18/Passes.Process/Input-mutated/%s", p.name)
					if ok {
						sig = fmt.Sprintf("C18/%s.DeepCopy/Pass-visible/%s", at.typ, at.field)
					}
					if seen[sig] {
						continue
					}
					seen[sig] = true
					add(sig, J{"shape": shapeJ, "pass": p.name, "changed_in_input": cpath, "was": before[cpath], "now": after[cpath]})
				}
			}
		}
	}
	return st, sigs, samples, ""
}
